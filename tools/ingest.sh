#!/bin/bash
# ingest.sh <Cxx> <suffix>: copy the deliverables of a finished mutation agent and remove its scratch worktree
id=$1; suf=$2
src=/tmp/mut_$id/deliver
dst=/verif/seeded/$id-$suf
[ -f $src/patch.diff ] || { echo "no deliverables for $id"; exit 1; }
mkdir -p $dst
cp $src/patch.diff $src/demo.py $src/meta.json $dst/
git -C /repo worktree remove --force /tmp/mut_$id
rm -rf /tmp/mut_$id
echo "ingested $dst"

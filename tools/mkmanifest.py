#!/usr/bin/env python3
"""regenerates MANIFEST.json from the table below (kept in one place so it stays consistent)"""
import json, os
HERE = os.path.dirname(os.path.dirname(os.path.abspath(__file__)))
ENGINE = "lean4-model+correspondence"
TB = ("Lean 4.33 kernel; axioms limited to propext / Classical.choice / Quot.sound (audited by #print axioms on every run); "
      "no sorry / native_decide / own axioms; hand-written model tied to the code by differential execution against the "
      "compiled driver, regenerated constants and integer functions tied by proved equalities; crypto primitives abstract in "
      "theorems (collision-explicit), modelled not verified")
C = {
 "C01": ("proof", "Lean 4 proof (inversion of the validator model) + differential correspondence + monitor",
   "For every chain state, block and clock: acceptance by the model of CoinState.add_block above the horizon implies every non-reward input resolves in the parent's unspent map with a verifying secp256k1 signature over the blanked transaction, references are pairwise distinct, none is null; missing/spent/other-fork outputs and placeholder signatures are rejected; the signed message determines references and outputs (codec injectivity). The model validator is compared with the real add_block on candidate blocks with exactly one rule broken (16 classes) on forked trees; a monitor recomputes the conditions with python-ecdsa and re-digests the receiver state."),
 "C02": ("proof", "Lean 4 proof (accounting invariant over the block's application) + correspondence + monitor",
   "accept_reward_bound, per-transaction value rules, conservation (total unspent value after ≤ parent's + subsidy, no freshness assumption) and supply_bound along every fully validated chain, ≤ 2,099,999,986,350,000 with the regenerated constants (uses C16); correspondence on value-adversarial candidate blocks."),
 "C03": ("proof", "Lean 4 proof (induction over arrival histories) + correspondence on all arrival orders of small trees",
   "For every well-formed arrival history: the stored unspent set at each block is the replay of that block's chain, independent of arrival order and of other forks; balances are the replay of the same chain; earlier entries never change. Real add_block_no_validation vs model on every parent-before-child order of trees ≤ 7 blocks (thorough) plus random larger ones; independent replay monitor; snapshots re-digested. balance_is_sum (balances = sum/list of unspent outputs per key) is checked by the monitor only (no theorem yet)."),
 "C04": ("proof", "Lean 4 proof (induction over arrival histories) + correspondence on all arrival orders of small trees",
   "head = first-arrived block of greatest height, stable on ties, tips = blocks without children, by-height index = ancestors and self, for every well-formed arrival history; same correspondence as C03."),
 "C05": ("proof", "Lean 4 proof + regenerated calculate_new_target/select_block_height (translator) + correspondence",
   "Acceptance above the horizon implies id below target (lexicographic = numeric for equal lengths, proved), target as the retargeting rule prescribes from the block's ancestors, height = parent's + 1 = reward height, parent.ts < ts ≤ now+30, evidence = recomputed evidence; newTarget exact in Nat, 32 bytes, capped, for every target and elapsed time — restated for the code's calculate_new_target as translated on this run. Candidate headers with one rule broken (21 classes) incl. retarget boundaries with the interval patched to 6."),
 "C06": ("proof", "Lean 4 proof (prefix-freeness from codec laws; collision-explicit commitment) + exhaustive bit-flip/truncation execution",
   "truncation_undecodable, evidence_flip_rejected, commit (same evidence ⇒ same encoding ∨ collision of BLAKE2b/scrypt), same_id_same_content; partial: flips of a VLQ-height continuation bit are covered by execution only. Every single-bit flip and truncation of every generated valid block through the real code and the model."),
 "C07": ("proof", "Lean 4 proof (codec combinator laws) + differential correspondence",
   "Round trip and canonicity (one accepted encoding per value) for every consensus type, round trip for every wire message, id = sha256d(encoding) for decoded and fresh objects; exhaustive short VLQ strings, structured values, mutants, padded prefixes."),
 "C10": ("proof", "Lean 4 proof of the locator function (translator) + differential correspondence of locator / inventory service + execution of real multi-node networks (partial)",
   "Partial. Proved: the locator heights (get_recent_block_heights as translated on this run equals the model's recentHeights for every head height). Tied by correspondence: the locator a node sends and the inventory it answers with, for honest and adversarial locators, fork depths inside and beyond the dense range, batch sizes 5 and 500 (model inventoryReply = real handle_get_blocks_message_received). Not proved, validated by execution on the real code only: convergence under interleavings (2-3 real nodes, every topology, seeded random schedules to the empty-reply fixpoint), completeness of chains, transaction flood, at most one unsolicited relay per id and connection. Relay-once for blocks follows in the model from C09.redelivery_noop / relayed_once_if_new_head for unsolicited deliveries."),
 "C11": ("proof", "Lean 4 proof (well-founded recursion, functional induction) + differential correspondence",
   "feed_append, chunking_irrelevant, frames delivered once in order, bad magic / over-limit refused at that point under every fragmentation — for all states, byte strings, chunkings, handler-failure predicates and limits; real MessageReceiver vs model on all 2-/3-way cuts of short streams, random cuts, byte-by-byte."),
 "C16": ("proof", "Lean 4 proof over regenerated definitions (translator) + exhaustive evaluation",
   "Formula, monotonicity, exhaustion point, exact total 2,099,999,986,350,000 = MAX_SASHIMI = validator limit, about the regenerated constants and, via a proved equality, about get_block_subsidy / validate_sashimi_range as translated on this run; every height 0..31,500,005 evaluated on the implementation."),
 "C17": ("proof", "Lean 4 proof (tree-hash injectivity up to explicit collision / leaf-inner disjuncts) + correspondence",
   "root defined on non-empty lists, tree hash = root, root injective (same length: up to Collision; any lengths: up to Collision or an entry being an inner hash of the other tree — no domain separation, stated not hidden), duplicate-last changes the root, odd entry promoted, inclusion proofs reproduce the root and contain the entry; all lengths 1..64, all positions, all single structural edits of short lists."),
 "C18": ("proof", "Lean 4 proof (for every table/horizon; decide over the regenerated table) + conformance execution",
   "checkpoint_enforced / accepts_its_id / no_alternative_history for every table and horizon, hence for the table regenerated from cheating.py (shape facts by decide +kernel); partial: genesis and the recorded blocks of the real network are a conformance test (ids, re-encoding, full validation with the real scrypt in both implementation and model)."),
 "C08": ("proof", "Lean 4 proof over a relational model of the store (partial: known finding D2) + correspondence with the real SQLite store",
   "store_roundtrip_partial: for every sequence of flushes of blocks in which parents are flushed no later than children, spent outputs exist, and no transaction id occurs in two written blocks, reading back yields a permutation of exactly the written blocks (ids, headers, transaction contents), in height order, with ids = hashes of encodings; shared_transaction_counterexample proves the full statement false (D2, a known finding). Real BlockStore on a scratch file: random batching into flushes, reopen + read + rebuild after each, shared pending transactions on competing forks."),
 "C09": ("proof", "Lean 4 proof (case analysis of the handler model, invariant over delivery sequences) + correspondence with a real node and real store",
   "enter_only_if_valid, accepted_is_stored, relayed_once_if_new_head, redelivery_noop, reject_no_trace, inv_preserved and later_blocks_stored for the model of handle_block_received (in_response_to = 0) with the store's write buffer; sequences of deliveries (valid on any fork, duplicates, orphans, every broken-block class) to a real LocalPeer + ChainManager + BlockStore with greeted/ungreeted peers, digest after every delivery."),
 "C12": ("proof", "Lean 4 proof (completeness of the validator on the assembler's output; partial: clock corner D5) + correspondence with the real MinerWatcher",
   "candidate_shape (exact reward subsidy+fees to the miner's key, timestamp after parent), assembled_block_valid_partial (own full validation accepts every assembled block below target, for every chain state and pool satisfying C13's invariant, unless the timestamp is > 30 s ahead: known finding D5, proved as future_head_candidate_rejected), found_block_adopted, invalid_found_block_not_adopted; real MinerWatcher handlers on a real node over forks, pools of 0-8 transactions, clocks around head.ts."),
 "C13": ("proof", "Lean 4 proof (invariant over all interleavings of submissions and head changes) + correspondence with the real ChainManager",
   "PoolInv (each pending transaction valid by itself and at the head, references pairwise disjoint) holds in every reachable manager state; admitted only if valid and compatible; refused submissions change nothing; a head change filters the pool in order. Real handle_transaction_received / set_coinstate interleaved with extensions and fork switches."),
 "C14": ("proof", "Lean 4 proof (partial: oversize D7) + correspondence with the real wallet; signatures checked with python-ecdsa",
   "spend_shape (exact outputs, owned unspent inputs, disjoint from earlier spends, record updated), failure leaves the wallet unchanged, insufficient_iff, successive_spends_disjoint, spend_valid_partial (passes full transaction validation when signatures verify and the encoding fits in a block — the size hypothesis is forced: known finding D7). Real create_spend_transaction over many output distributions, amounts at every boundary, sequences with failed attempts."),
 "C15": ("proof", "Lean 4 proof (wallet invariant over operation sequences; file-system model for atomic save) + correspondence + strace of the real save",
   "load_dump (hex layer), Inv preserved by every operation, handOut_fresh / no_double_handout over every operation sequence incl. save+load, balance_spec, save_atomic (after every prefix of open-truncate / appends / rename, for every chunking, the file is the complete old or new wallet). Real Wallet operations and real save_wallet under strace with a crash simulated after every system call."),
 "C19": ("proof", "Lean 4 proof (invariants over event sequences) + regenerated is_time_to_connect (translator) + correspondence with the real NetworkManager",
   "book_disjoint / never_insane for every event sequence, backoff (every attempt at least min(10 s * 2^k, 30 min) after the previous attempt to that address, none beyond the configured failures), ban score semantics, self-connection dropped and never retried, announcements never overwrite, peers file shape and atomic replacement; real LocalPeer / NetworkManager with an in-memory socket factory over random event sequences and a virtual clock, real write_peers."),
 "C20": ("proof", "Lean 4 proof (case analysis over message kinds and failure points) + correspondence through real sockets and the catch-all",
   "garbage_contained, raising_message_contained, rejected_block_contained, rejected_transaction_contained, protocol_messages_local: chain state, pool, write buffer, store and every other connection are unchanged and at most the offending connection is closed; the top-level handler is total. Corrupted / truncated / spliced / re-typed / reordered frames of every message type, invalid blocks and transactions, random bytes through recv(1024) and the catch-all with a well-behaved peer connected."),
}
ALL = ["C%02d" % i for i in range(1, 21)]
PENDING = "check under construction in this build phase (model/theorems planned in DESIGN.md); not yet registered"

def main():
    m = {"version": 1,
         "setup_cmd": "/venv/bin/python gen/py2lean.py && cd lean && lake build Model drv Proofs && (lake build Gen Props || true)",
         "hooks": {"guard": "SKEPTICOIN_VERIF",
                   "enable": "no hooks are compiled in; the harness replaces module attributes at run time (DESIGN.md section 6)",
                   "baseline_off_cmd": "cd /repo && /venv/bin/python -m pytest -ra -q -p no:cacheprovider --timeout=900 --continue-on-collection-errors",
                   "source_commits": [], "add_only": True},
         "engines": [{"name": ENGINE, "path": "lean/ , harness/ , gen/ , check", "serves_properties": sorted(C),
                      "kind_free_text": "Lean 4 theorems about a hand-written executable model (compiled driver) plus constants/functions regenerated from /repo; differential correspondence of the model with the real Python code; property monitors on the implementation"}],
         "checks": [], "not_applicable": []}
    for pid in ALL:
        if pid in C:
            cat, tech, text = C[pid]
            m["checks"].append({"property_id": pid, "quick_cmd": "./check %s quick" % pid,
                                "thorough_cmd": "./check %s thorough" % pid, "evidence_file": "evidence/%s.json" % pid,
                                "replay_cmd_template": "./check %s --replay {path}" % pid, "engine": ENGINE,
                                "level_claimed": {"category": cat, "text": text, "design_ref": "DESIGN.md section 4, " + pid},
                                "level_note": TB, "technique": tech})
        else:
            m["not_applicable"].append({"property_id": pid, "reason": PENDING})
    json.dump(m, open(os.path.join(HERE, "MANIFEST.json"), "w"), indent=1)

if __name__ == "__main__":
    main()

#!/usr/bin/env python3
"""confirm every seeded change in a scratch worktree of /repo: the patch applies, the 64 tests pass with it,
demo.py fails with it and passes without it; then run the property's quick check against the patched worktree.
Writes the outcome into seeded/<id>/meta.json ("confirmed")."""
import json, os, re, subprocess, sys, tempfile, shutil
HERE = os.path.dirname(os.path.dirname(os.path.abspath(__file__)))
only = sys.argv[1:]
for d in sorted(os.listdir(os.path.join(HERE, "seeded"))):
    if only and d not in only:
        continue
    sd = os.path.join(HERE, "seeded", d)
    meta = json.load(open(os.path.join(sd, "meta.json")))
    if meta.get("confirmed") and not only:
        continue
    prop = meta["property"]
    wt = tempfile.mkdtemp(prefix="skv-wt-")
    os.rmdir(wt)
    subprocess.run(["git", "-C", "/repo", "worktree", "add", "-q", wt, "HEAD"], check=True)
    out = {}
    try:
        r = subprocess.run(["/venv/bin/python", os.path.join(sd, "demo.py"), wt], capture_output=True, text=True, timeout=900)
        out["demo_without_patch"] = "exit %d" % r.returncode
        a = subprocess.run(["git", "-C", wt, "apply", os.path.join(sd, "patch.diff")], capture_output=True, text=True)
        out["patch_applies"] = a.returncode == 0
        t = subprocess.run(["/venv/bin/python", "-m", "pytest", "-q", "-p", "no:cacheprovider", "--timeout=900"], cwd=wt,
                           capture_output=True, text=True, timeout=1800)
        m = re.findall(r"[^\n]*\d+ passed[^\n]*", t.stdout)
        out["tests_with_patch"] = m[-1].strip() if m else t.stdout[-200:]
        if "failed" in out["tests_with_patch"] or "error" in out["tests_with_patch"]:
            # integration tests are timing sensitive under load: once more, alone
            t = subprocess.run(["/venv/bin/python", "-m", "pytest", "-q", "-p", "no:cacheprovider", "--timeout=900"], cwd=wt,
                               capture_output=True, text=True, timeout=1800)
            m = re.findall(r"[^\n]*\d+ passed[^\n]*", t.stdout)
            out["tests_with_patch"] += " | again: " + (m[-1].strip() if m else t.stdout[-200:])
        r = subprocess.run(["/venv/bin/python", os.path.join(sd, "demo.py"), wt], capture_output=True, text=True, timeout=900)
        out["demo_with_patch"] = "exit %d" % r.returncode
        out["check_with_patch"] = []
        for seed in (0, 1, 2):
            env = dict(os.environ, SKEPTICOIN_REPO=wt, VERIF_SEED=str(seed))
            c = subprocess.run([os.path.join(HERE, "check"), prop, "quick"], cwd=HERE, capture_output=True, text=True, timeout=3000, env=env)
            lines = [l for l in c.stdout.splitlines() if l.startswith("VIOLATION") or "ok —" in l]
            out["check_with_patch"].append("seed %d: " % seed + (re.sub(r"replay=\S+", "replay=<file>", lines[-1]) if lines else "exit %d" % c.returncode))
    finally:
        subprocess.run(["git", "-C", "/repo", "worktree", "remove", "--force", wt])
        shutil.rmtree(wt, ignore_errors=True)
    meta["confirmed"] = out
    meta["what_was_run"] = ("scratch worktree of /repo at HEAD: demo.py (must exit 0), git apply patch.diff, the 64-test suite, "
                            "demo.py (must exit 1), ./check %s quick with seeds 0, 1, 2 and SKEPTICOIN_REPO pointing at the patched worktree" % prop)
    json.dump(meta, open(os.path.join(sd, "meta.json"), "w"), indent=1)
    print(d, out, flush=True)

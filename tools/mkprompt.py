import json,sys
pid=sys.argv[1]
for l in open('/verif/properties.jsonl'):
    p=json.loads(l)
    if p['id']==pid:
        break
print(f"""You are helping to evaluate a verification effort by producing a realistic SEEDED DEFECT in a Python project. You work ONLY inside the git worktree /tmp/mut_{pid} (a checkout of the project 'skepticoin', a small pure-Python Bitcoin-style cryptocurrency node). Do NOT read or touch /verif or /repo or any other directory; run Python with /venv/bin/python from inside /tmp/mut_{pid} (the package is importable from the worktree root because you run from there; importing skepticoin.blockstore creates a chain.db file in the current directory, so run scripts from a scratch subdirectory such as /tmp/mut_{pid}/scratch with sys.path.insert(0, '/tmp/mut_{pid}') — and delete that scratch directory's chain.db/wallet.json at the end). No network is available.

The property that must be BROKEN by your change:

  Title: {p['title']}
  Statement: {p['statement']}
  Quantified over: {p['quantifier']['text']}
  Relevant files: {', '.join(p['anchors']['files'])}

Task: make ONE small source change (a few lines, in the skepticoin/ package, not in tests/) that breaks this property while (a) the code still imports and runs, and (b) the existing test suite still passes: `cd /tmp/mut_{pid} && /venv/bin/python -m pytest -q -p no:cacheprovider --timeout=900` must report the same 64 passed (1 skipped) as before your change. The change must NOT be one that ordinary use would expose at once: it should need something specific to manifest — a particular multi-step sequence of operations, an unusual but legal input, a specific interleaving or arrival order, a boundary value, a fault at a particular point, or two cooperating sites that each look fine alone. Make it look like a plausible programming mistake or 'optimisation' a maintainer could commit (no comments announcing it). Prefer a defect in the logic the property is about rather than a crash.

Deliverables, all inside /tmp/mut_{pid}/deliver/ (create it):
 1. patch.diff — output of `git -C /tmp/mut_{pid} diff` for your source change only (do not include the deliver/ or scratch/ directories; do not commit).
 2. demo.py — a self-contained demonstration program (run as `/venv/bin/python demo.py <path-to-project-root>`; it must insert that path at the front of sys.path, chdir to a fresh temporary directory before importing skepticoin, and clean it up) that exits 0 and prints PASS when the property holds on the scenario it exercises and exits 1 and prints FAIL (with a short explanation of what went wrong) when it does not. It must FAIL on the worktree with your change and PASS on a pristine checkout. To test the pristine behaviour use `git -C /tmp/mut_{pid} stash` / `git -C /tmp/mut_{pid} stash pop` around a run (make sure you pop again), and run the demo both ways. Useful tricks for driving the real code quickly: proof of work can be made cheap by replacing `skepticoin.consensus.scrypt` with a fast stub such as `lambda pw, salt: hashlib.sha256(pw + salt).digest()` before constructing blocks, and by setting `skepticoin.consensus.MAX_KNOWN_HASH_HEIGHT = -1` and `skepticoin.consensus.KNOWN_HASHES = {{}}` so that small test chains go through full validation; chains can start from `CoinState.zero()` (the real genesis; its target needs about 256 nonce attempts per block with the stub) and blocks can be built with `skepticoin.consensus.construct_block_for_mining(coinstate, transactions, SECP256k1PublicKey(pk), timestamp, b'', nonce)` trying nonces until `block.hash() < block.target`; timestamps must exceed the parent's; `coinstate.add_block(block, current_timestamp)` is full validation. Keys: `ecdsa.SigningKey.generate(curve=ecdsa.SECP256k1)`; see skepticoin/wallet.py for how transactions are created and signed.
 3. meta.json — {{"property": "{pid}", "summary": "<one sentence: what was changed>", "needs": "<what specific input / sequence / interleaving is needed for the defect to manifest>", "files_changed": [...], "tests": "<the pytest summary line with the change applied>"}}.

Finish by (1) confirming the pytest result with the change applied, (2) confirming demo.py FAILs with the change and PASSes without it (show both outputs), (3) leaving the worktree WITH the change applied (not stashed) and with no stray files outside deliver/ (remove scratch/ and any chain.db, wallet.json, peers.json, __pycache__ you created). Report the content of patch.diff and meta.json in your final message.""")

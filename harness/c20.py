"""C20 — containment: malformed traffic (corrupted, truncated, spliced, re-typed, re-ordered
valid frames of every message type, structurally invalid blocks and transactions, random bytes)
sent to a real node through the socket path and the catch-all while a second, well-behaved peer
is connected; against the model's framing + dispatch + catch-all; the monitor checks that chain
state, pool, store and the other connection are untouched and nothing escapes."""
import struct
from ipaddress import IPv6Address

from . import kit, chain, node, gens, ledger
from .kit import hx

from skepticoin.networking.messages import (
    MessageHeader, HelloMessage, SupportedVersion, GetBlocksMessage, InventoryItem, InventoryMessage, GetDataMessage,
    DataMessage, GetPeersMessage, Peer, PeersMessage, DATA_BLOCK, DATA_HEADER, DATA_TRANSACTION)
from skepticoin.networking.remote_peer import MAGIC
from skepticoin.datatypes import Transaction, Input, Output
from skepticoin.signing import SignableEquivalent


def fr(msg, rng, in_response_to=0):
    h = MessageHeader(rng.randrange(0, 2 ** 32), rng.randrange(1, 2 ** 32), in_response_to, rng.randrange(0, 2 ** 64))
    return node.frame(h, msg)


def spliced_signature_tx(tree, keys, genuine):
    """a spend of ANOTHER unspent output of a key that signed the genuine transaction `genuine`, carrying the signature bytes cut
    out of `genuine` (which the node has verified before): not a signature of this transaction — invalid"""
    head = tree.cs.current_chain_hash
    utxo = tree.cs.unspent_transaction_outs_by_hash[head]
    used = {i.output_reference for i in genuine.inputs}
    for i in genuine.inputs:
        if i.output_reference not in utxo:
            continue
        pk = utxo[i.output_reference].public_key.public_key
        for r2, o2 in tree.spendable(head):
            if r2 not in used and o2.public_key.public_key == pk and o2.value > 0:
                t2 = chain.make_tx(keys, utxo, [r2], [(o2.value, 0)])
                return Transaction([Input(r2, i.signature)], t2.outputs)
    return None


def base_traffic(rng, tree, keys, cr, nonce, replay=None, genuine=None):
    """frames that are valid protocol traffic but have no legitimate effect on chain state, pool or store"""
    cs = tree.cs
    blocks = tree.blocks
    out = []
    known = [b.hash() for b in blocks]
    out.append(("hello", fr(HelloMessage([SupportedVersion(0)], IPv6Address(gens.rb(rng, 16)), 2412,
                                         IPv6Address(bytes(16)), rng.randrange(0, 65536), rng.randrange(0, 2 ** 32),
                                         b"agent"), rng)))
    if replay is not None:
        # a byte-for-byte copy of the greeting another (well-behaved) connection sent earlier
        out.append(("hello_replayed", replay))
    out.append(("get_blocks", fr(GetBlocksMessage([rng.choice(known) for _ in range(rng.randrange(0, 4))] +
                                                  [gens.rb(rng, 32)]), rng)))
    out.append(("inventory_known", fr(InventoryMessage([InventoryItem(DATA_BLOCK, rng.choice(known))
                                                        for _ in range(rng.randrange(0, 4))]), rng, 5)))
    out.append(("inventory_unknown", fr(InventoryMessage([InventoryItem(DATA_BLOCK, gens.rb(rng, 32))
                                                          for _ in range(rng.randrange(1, 4))]), rng, 5)))
    out.append(("inventory_too_big", fr(InventoryMessage([InventoryItem(DATA_BLOCK, gens.rb(rng, 32))
                                                          for _ in range(501)]), rng, 5)))
    out.append(("get_data", fr(GetDataMessage(DATA_BLOCK, rng.choice(known + [gens.rb(rng, 32)])), rng)))
    out.append(("get_data_tx", fr(GetDataMessage(DATA_TRANSACTION, gens.rb(rng, 32)), rng)))
    out.append(("data_known_block", fr(DataMessage(DATA_BLOCK, rng.choice(blocks)), rng)))
    out.append(("data_header", fr(DataMessage(DATA_HEADER, rng.choice(blocks).header), rng)))
    # a payload type code that no handler knows (the decoder's table raises KeyError with a bytes argument)
    unk = bytearray(fr(DataMessage(DATA_BLOCK, rng.choice(blocks)), rng))
    unk[8 + 55:8 + 57] = bytes([0, rng.choice([7, 9, 0x7f])])
    out.append(("data_unknown_type", bytes(unk)))
    out.append(("get_peers", fr(GetPeersMessage(), rng)))
    out.append(("peers", fr(PeersMessage([Peer(0, IPv6Address("::ffff:10.1.2.%d" % rng.randrange(1, 250)), 2412)
                                          for _ in range(rng.randrange(0, 3))]), rng)))
    # announced addresses that are not IPv4-mapped (native IPv6, or a mapped address with one bit of the prefix flipped)
    odd = []
    for _ in range(rng.randrange(1, 4)):
        if rng.random() < 0.5:
            odd.append(Peer(0, IPv6Address(rng.getrandbits(128)), 2412))
        else:
            v = int(IPv6Address("::ffff:10.1.2.%d" % rng.randrange(1, 250))) ^ (1 << rng.randrange(32, 128))
            odd.append(Peer(0, IPv6Address(v), rng.choice([2412, 0, 65535])))
    out.append(("peers_not_ipv4_mapped", fr(PeersMessage(odd), rng)))
    # structurally invalid / rule-violating blocks and transactions
    for forced in ("missing_output", "intra_block_spend", "bad_curve_point", None):
        # (always present: a block that is valid by itself and spends an output that does not exist — its application raises
        # KeyError with a non-string argument; one that spends an output created in the same block — the fee computation of the
        # full validation raises KeyError, not a validation error; one that spends an output paying a key that is no curve
        # point — the signature check raises an assertion-type error)
        klass = forced or rng.choice([c for c in ledger.classes_for("all") if c not in ledger.EXPECT_VALID
                                      and c not in ledger.UNDETERMINED
                                      # invalid only relative to the clock the candidate was built for, not this node's clock
                                      and c != "ts_future_31"])
        try:
            c = ledger.make_candidate(cr, klass, rng.choice(blocks[-5:]).hash(), [])
        except Exception:
            c = None
        if c is not None:
            out.append(("data_bad_block:" + klass, fr(DataMessage(DATA_BLOCK, c[0]), rng)))
    head = cs.current_chain_hash
    utxo = cs.unspent_transaction_outs_by_hash[head]
    sp = tree.spendable(head)
    if genuine is not None:
        st = spliced_signature_tx(tree, keys, genuine)
        if st is not None:
            out.append(("data_tx_spliced_signature", fr(DataMessage(DATA_TRANSACTION, st), rng)))
    if sp:
        r, o = sp[0]
        bad = [chain.make_tx(keys, utxo, [r], [(o.value + 1, 0)]),
               chain.make_tx(keys, utxo, [r], [(o.value, 0), (0, 1)]),
               Transaction([Input(r, SignableEquivalent())], [Output(o.value, keys.pk(0))]),
               Transaction([], [Output(5, keys.pk(0))]),
               chain.make_tx(keys, utxo, [r], [(o.value, 0)],
                             signer_override={0: (keys.index_of(o.public_key.public_key) + 1) % 5})]
        for t in bad:
            out.append(("data_bad_tx", fr(DataMessage(DATA_TRANSACTION, t), rng)))
        # an otherwise valid, correctly signed spend in an encoding the encoder never produces: 64 outputs with the output
        # count written as the single byte 40 instead of 80 40 (undecodable: the connection is closed, nothing is pooled)
        if o.value >= 64:
            t64 = chain.make_tx(keys, utxo, [r], [(1, k_ % 5) for k_ in range(63)] + [(o.value - 63, 0)])
            raw = t64.serialize()
            pos = 1 + 1 + len(t64.inputs[0].serialize())
            if raw[pos:pos + 2] == bytes([0x80, 0x40]):
                m_ = fr(DataMessage(DATA_TRANSACTION, t64), rng)
                whole = bytearray(m_)
                at = bytes(whole).rfind(raw)
                if at >= 0:
                    new_raw = raw[:pos] + bytes([0x40]) + raw[pos + 2:]
                    body = bytes(whole[8:at]) + new_raw
                    out.append(("data_noncanonical_tx", MAGIC + struct.pack(b">I", len(body)) + body))
    return out


def corrupt(rng, frames):
    """one corruption of a stream of frames"""
    k = rng.randrange(0, 9)
    names = [n for n, _ in frames]
    bs = [f for _, f in frames]
    if k == 0:      # bit flip anywhere
        s = bytearray(b"".join(bs))
        i = rng.randrange(0, len(s))
        s[i] ^= 1 << rng.randrange(0, 8)
        return "bitflip", bytes(s)
    if k == 1:      # truncation followed by the next frame (splice)
        i = rng.randrange(0, len(bs))
        cut = rng.randrange(1, len(bs[i]))
        return "splice", b"".join(bs[:i]) + bs[i][:cut] + b"".join(bs[i + 1:])
    if k == 2:      # re-typed: message type bytes changed
        i = rng.randrange(0, len(bs))
        f = bytearray(bs[i])
        f[8 + 53:8 + 55] = bytes([rng.choice([0, 0, 0, 1, 0xff]), rng.randrange(0, 9)])
        return "retyped", b"".join(bs[:i]) + bytes(f) + b"".join(bs[i + 1:])
    if k == 3:      # payload replaced by random bytes, length kept
        i = rng.randrange(0, len(bs))
        f = bs[i][:8] + gens.rb(rng, len(bs[i]) - 8)
        return "garbage_payload", b"".join(bs[:i]) + f + b"".join(bs[i + 1:])
    if k == 4:      # random bytes instead of a frame
        return "random_bytes", b"".join(bs[:1]) + gens.rb(rng, rng.randrange(1, 80))
    if k == 5:      # over-limit length
        return "over_limit", b"".join(bs[:1]) + MAGIC + struct.pack(b">I", 2 ** 31) + gens.rb(rng, 9)
    if k == 6:      # length field altered
        i = rng.randrange(0, len(bs))
        f = bytearray(bs[i])
        ln = struct.unpack(b">I", bytes(f[4:8]))[0]
        f[4:8] = struct.pack(b">I", max(0, ln + rng.choice([-3, -1, 1, 2, 40])))
        return "wrong_length", b"".join(bs[:i]) + bytes(f) + b"".join(bs[i + 1:])
    if k == 7:      # out of protocol order: everything before the greeting
        rest = [f for n, f in frames if n != "hello"]
        return "before_hello", b"".join(rest)
    return "reordered", b"".join(rng.sample(bs, len(bs)))


def run(ctx):
    res = kit.Result()
    rng = ctx.rng
    for si in range(ctx.scale(5, 20)):
        lines = chain.patch(horizon=-1)
        keys = chain.Keys(rng, 5)
        tree = chain.Tree(rng, keys)
        tree.grow(rng.randrange(5, 9), fork_prob=0.3)
        cr = ledger.Crafter(tree)
        rn = node.RealNode(tree.cs, tree.blocks)
        base_ops = list(lines) + ["new t"] + ["addnv t t " + hx(b.serialize()) for b in tree.blocks]
        base_ops += ["node new t %d" % rn.lp.nonce]
        # a pending transaction, so that "pool unchanged" is not vacuous
        good = rn.add_peer(active=True)
        base_ops.append("node peer 1 0")
        t0 = tree.random_tx(tree.cs.current_chain_hash)
        ops = list(base_ops)
        impl = ["ok"] * len(ops)
        # the well-behaved peer's greeting, through the wire (its nonce is then known to the node)
        good_hello = fr(HelloMessage([SupportedVersion(0)], IPv6Address(gens.rb(rng, 16)), 2412, IPv6Address(bytes(16)), 2412,
                                     rng.randrange(0, 2 ** 32), b"good"), rng)
        node.CLOCK[0] = tree.cs.block_by_hash[tree.cs.current_chain_hash].timestamp + 50
        rn.deliver_bytes(good, good_hello)
        ops.append("node bytes %d %s %d" % (good, hx(good_hello), node.CLOCK[0]))
        impl.append("ok")
        if t0 is not None:
            ops += keys.oracle_lines()
            impl += ["ok"] * len(keys.oracle)
            impl.append(rn.deliver_tx(good, t0))
            ops.append("node tx 0 " + hx(t0.serialize()))
        sig_mark = len(keys.oracle)
        n_streams = ctx.scale(22, 40)
        for k in range(n_streams):
            node.CLOCK[0] = max(node.CLOCK[0] if k else 0,
                                tree.cs.block_by_hash[tree.cs.current_chain_hash].timestamp + 50)
            if rng.random() < 0.35:
                # legitimate traffic in between: the well-behaved peer relays a valid block — an extension of the head, a
                # competitor of the head (same height), or a block on an older one — so that what the malformed input must
                # leave untouched is a state with several tips, some of them adopted after the last growth of the head
                cs_ = rn.cm.coinstate
                head_ = cs_.current_chain_hash
                hb_ = cs_.block_by_hash[head_]
                opts = [head_]
                if hb_.height > 0:
                    opts += [hb_.previous_block_hash, hb_.previous_block_hash]
                    pb_ = cs_.block_by_hash[hb_.previous_block_hash]
                    if pb_.height > 0:
                        opts.append(pb_.previous_block_hash)
                par = rng.choice(opts)
                pbk = cs_.block_by_hash[par]
                try:
                    lb = chain.mine(cs_, par, [], keys.pk(rng.randrange(0, 5)), pbk.timestamp + rng.randrange(1, 40),
                                    start_nonce=rng.randrange(0, 1 << 20))
                except Exception:
                    lb = None
                if lb is not None and lb.hash() not in cs_.block_by_hash:
                    node.CLOCK[0] = max(node.CLOCK[0], lb.timestamp + 5)
                    if rng.random() < 0.5:
                        # first another connection delivers a spliced copy: the genuine header (hence the genuine id) in front
                        # of a transaction list that is not the block's — refused; the genuine block must still be accepted
                        from skepticoin.datatypes import Block as _Block
                        other_cb = ledger.coinbase(lb.height, chain.subsidy(lb.height), keys.pk((rng.randrange(0, 5))), data=b"spliced")
                        spliced = _Block(lb.header, [other_cb] + list(lb.transactions[1:]))
                        c2 = rn.add_peer(active=True)
                        ops.append("node peer 1 0")
                        impl.append("ok")
                        sf = fr(DataMessage(DATA_BLOCK, spliced), rng)
                        before_state = chain.state_digest(rn.cm.coinstate, full=False)
                        try:
                            rn.deliver_bytes(c2, sf)
                        except BaseException as e:
                            res.violations.append({"kind": "an exception escaped the event handler: %r" % e, "scenario": si})
                        ops.append("node bytes %d %s %d" % (c2, hx(sf), node.CLOCK[0]))
                        impl.append("ok")
                        if chain.state_digest(rn.cm.coinstate, full=False) != before_state:
                            res.violations.append({"kind": "malformed input changed the chain state", "scenario": si,
                                                   "stream": "spliced block", "bytes": sf.hex()[:4000]})
                        res.count("spliced_copy_delivered_first")
                    rr = rn.deliver_block(good, lb, 0)
                    ops.append("node block %d 0 %s %d" % (good, hx(lb.serialize()), node.CLOCK[0]))
                    impl.append(rr)
                    ops.append("node digest")
                    impl.append(rn.digest())
                    res.count("legitimate_block:" + ("extends_head" if par == head_ else "competitor_or_older"))
                    if lb.hash() not in rn.cm.coinstate.block_by_hash:
                        res.violations.append({"kind": "a valid block relayed by a well-behaved peer was not accepted",
                                               "scenario": si, "block": lb.serialize().hex()})
            greeted = rng.random() < 0.7
            outgoing = rng.random() < 0.3
            special = (k % 7 == 3)
            oversize = (k % 7 == 6)
            if special or oversize or k % 7 == 5:
                greeted = True
            c = rn.add_peer(active=greeted, outgoing=outgoing)
            ops.append("node peer %d %d" % (1 if greeted else 0, 1 if outgoing else 0))
            impl.append("ok")
            frames = base_traffic(rng, tree, keys, cr, rn.lp.nonce, replay=good_hello, genuine=t0)
            spliced_ = [f for f in frames if f[0] == "data_tx_spliced_signature"]
            rng.shuffle(frames)
            frames = frames[:rng.randrange(1, 7)]
            force_spliced = (k % 7 == 5 and bool(spliced_))
            if force_spliced:
                # on a greeted connection, by itself and uncorrupted: a transaction carrying a signature cut out of the pending
                # transaction of the well-behaved peer
                frames = spliced_[:1]
            if not greeted and rng.random() < 0.5:
                frames = [f for f in base_traffic(rng, tree, keys, cr, rn.lp.nonce) if f[0] == "hello"][:1] + frames
            elif not greeted and not any(f[0].startswith("hello") for f in frames):
                # out of protocol order: a perfectly valid new block (or a valid spend) ahead of any greeting; on a greeted
                # connection it would be adopted and relayed, here the connection must be refused and nothing may change
                head_ = rn.cm.coinstate.current_chain_hash
                hb_ = rn.cm.coinstate.block_by_hash[head_]
                vb = chain.mine(rn.cm.coinstate, head_, [], keys.pk(0), hb_.timestamp + 7)
                extra = [("data_valid_block_before_greeting", fr(DataMessage(DATA_BLOCK, vb), rng))]
                t_ = tree.random_tx(head_) if head_ in tree.own else None
                if t_ is not None and rng.random() < 0.5:
                    extra = [("data_valid_tx_before_greeting", fr(DataMessage(DATA_TRANSACTION, t_), rng))]
                frames = extra + frames
                res.count("valid_data_before_greeting")
            if rng.random() < 0.25 or force_spliced:
                kind, data = "uncorrupted", b"".join(f for _, f in frames)
            else:
                kind, data = corrupt(rng, frames)
            reads = [data]
            if special:
                # broken framing with a particular segmentation: a stray frame header (the 4 magic bytes, or magic and a length)
                # arrives in a read of its own; the next read holds exactly one whole well-formed frame — a valid new block that
                # would be adopted and relayed if it were taken for a frame of its own. The bytes taken together are not a
                # sequence of frames: refused, nothing changes
                head_ = rn.cm.coinstate.current_chain_hash
                hb_ = rn.cm.coinstate.block_by_hash[head_]
                vb = chain.mine(rn.cm.coinstate, head_, [], keys.pk(0), hb_.timestamp + 7)
                node.CLOCK[0] = max(node.CLOCK[0], vb.timestamp + 5)
                vf = fr(DataMessage(DATA_BLOCK, vb), rng)
                stray = MAGIC if (k // 7) % 2 == 0 else MAGIC + struct.pack(b">I", len(vf))
                kind, data, reads = "stray_frame_header_in_a_read_of_its_own", stray + vf, [stray, vf]
                frames = [("stray_header", stray), ("data_valid_block_after_stray_header", vf)]
            size_saved = None
            if oversize:
                # a structurally invalid block: one byte above the configured size bound (the bound is set to the size of an
                # otherwise perfectly valid new block minus one while it is delivered) — refused, nothing changes
                from .c19 import patch_everywhere
                head_ = rn.cm.coinstate.current_chain_hash
                hb_ = rn.cm.coinstate.block_by_hash[head_]
                vb = chain.mine(rn.cm.coinstate, head_, [], keys.pk(1), hb_.timestamp + 9)
                node.CLOCK[0] = max(node.CLOCK[0], vb.timestamp + 5)
                vf = fr(DataMessage(DATA_BLOCK, vb), rng)
                kind, data, reads = "block_one_byte_over_the_size_bound", vf, [vf]
                frames = [("data_block_over_the_size_bound", vf)]
                size_limit = len(vb.serialize()) - 1
                size_saved = patch_everywhere("MAX_BLOCK_SIZE", size_limit)
                ops.append("p maxBlockSize %d" % size_limit)
                impl.append("ok")
            ops.extend(keys.oracle_lines(sig_mark))
            impl.extend(["ok"] * (len(keys.oracle) - sig_mark))
            sig_mark = len(keys.oracle)
            before_state = chain.state_digest(rn.cm.coinstate, full=False)
            before_pool = [t.hash() for t in rn.cm.transaction_pool]
            before_disk = rn.disk_ids()
            before_good = (rn.peers[good].hello_received, rn.outbox_kinds(rn.peers[good]),
                           any(q is rn.peers[good] for q in rn.lp.network_manager.connected_peers.values()))
            try:
                for part in reads:
                    r = rn.deliver_bytes(c, part)
                escaped = None
            except BaseException as e:       # nothing may escape the event handler
                r = "escaped"
                escaped = e
            ops.append("node bytes %d %s %d" % (c, hx(data), node.CLOCK[0]))
            impl.append("ok")
            if size_saved is not None:
                for m_, v_ in size_saved:
                    m_.MAX_BLOCK_SIZE = v_
                ops.append("p maxBlockSize 200000")
                impl.append("ok")
            ops.append("node digest")
            impl.append(rn.digest())
            res.case((si, k, data), nontrivial=True)
            res.count("stream:" + kind)
            for nme, _ in frames:
                res.count("frame:" + nme.split(":")[0])
            still_open = any(q is rn.peers[c] for q in rn.lp.network_manager.connected_peers.values())
            res.count("offender_closed" if not still_open else "offender_open")
            info = {"stream": kind, "frames": [n for n, _ in frames], "bytes": data.hex()[:4000], "scenario": si}
            if escaped is not None:
                res.violations.append({**info, "kind": "an exception escaped the event handler: %r" % escaped})
            if chain.state_digest(rn.cm.coinstate, full=False) != before_state:
                res.violations.append({**info, "kind": "malformed input changed the chain state"})
            if [t.hash() for t in rn.cm.transaction_pool] != before_pool:
                res.violations.append({**info, "kind": "malformed input changed the pending pool"})
            if rn.disk_ids() != before_disk or rn.store.write_buffer:
                res.violations.append({**info, "kind": "malformed input changed the block store or its write buffer"})
            after_good = (rn.peers[good].hello_received, rn.outbox_kinds(rn.peers[good]),
                          any(q is rn.peers[good] for q in rn.lp.network_manager.connected_peers.values()))
            if after_good != before_good:
                res.violations.append({**info, "kind": "malformed input affected another connection"})
            if len(res.samples) < 4:
                res.sample({"stream": kind, "frames": [n for n, _ in frames], "offender_closed": not still_open})
        ok = rn.store_ok()
        if ok is not True:
            res.violations.append({"kind": "the block store is impaired after malformed traffic", "error": ok})
        # the event loop's managers still run — also when the peer book holds addresses that have been answering with garbage for
        # weeks (failure counts in the thousands, below the configured limit)
        from skepticoin.networking.remote_peer import DisconnectedRemotePeer as _DRP, OUTGOING as _OUT
        from skepticoin.networking.params import MAX_CONNECTION_ATTEMPTS as _MAXA
        for n_, score in enumerate([1023, 1024, 1500, _MAXA - 1, _MAXA, _MAXA + 1]):
            rn.lp.network_manager.disconnected_peers[("10.77.0.%d" % (n_ + 1), 2412, _OUT)] = _DRP(
                "10.77.0.%d" % (n_ + 1), 2412, _OUT, node.CLOCK[0], score)
        res.count("peer_book_entries_with_failure_counts_in_the_thousands", 6)
        try:
            rn.lp.network_manager.step(node.CLOCK[0])
        except Exception as e:
            res.violations.append({"kind": "the network manager's step raises after malformed traffic: %r" % e})
        rn.close()
        model = ctx.driver.ask(ops)
        kit.compare(res, ops, impl, model)
    chain.unpatch()
    res.rule = ("a real node (real store, a pending transaction, one well-behaved greeted peer) receiving on fresh connections "
                "(greeted or not, incoming or outgoing) streams of 1-7 frames drawn from every message type with no legitimate "
                "chain effect plus rule-violating blocks and invalid transactions — uncorrupted or with one corruption "
                "(bit flip, splice, re-typed, garbage payload, random bytes, over-limit length, wrong length, before the "
                "greeting, reordered) — through real sockets, recv(1024) and the catch-all; node digest compared with the "
                "model's framing + dispatch + catch-all after every stream; monitor: nothing escapes, chain state, pool, "
                "store and the good peer unchanged, store and manager step still work. Distinct non-trivial = streams")
    return res

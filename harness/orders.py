"""orders — C03 / C04: every parent-before-child arrival order of small block trees (and random
orders of larger ones) through the real CoinState.add_block_no_validation and the model's;
monitors recompute head / tips / by-height index / unspent sets / balances independently."""
import itertools

from . import kit, chain
from .kit import hx

from skepticoin.coinstate import CoinState


def linear_extensions(blocks, limit, rng):
    """arrival orders in which every block comes after its parent; all of them if ≤ limit"""
    ids = {b.hash(): b for b in blocks}
    children = {}
    roots = []
    for b in blocks:
        if b.previous_block_hash in ids:
            children.setdefault(b.previous_block_hash, []).append(b)
        else:
            roots.append(b)
    out = []
    total = [0]

    def rec(placed, avail):
        if len(out) >= limit * 4:
            return
        if not avail:
            out.append(list(placed))
            return
        for i, b in enumerate(avail):
            rec(placed + [b], avail[:i] + avail[i + 1:] + children.get(b.hash(), []))

    rec([], roots)
    exhaustive = len(out) < limit * 4
    if len(out) > limit:
        rng.shuffle(out)
        out = out[:limit]
        exhaustive = False
    return out, exhaustive


def replay_chain(chain_blocks):
    """independent replay: unspent set as a plain dict, balances derived from it"""
    u = {}
    for b in chain_blocks:
        for n, tx in enumerate(b.transactions):
            if n > 0:
                for i in tx.inputs:
                    del u[(i.output_reference.hash, i.output_reference.index)]
            for k, o in enumerate(tx.outputs):
                u[(tx.hash(), k)] = (o.value, o.public_key.public_key)
    return u


def check_state(res, prop, order, cs):
    by_id = {b.hash(): b for b in order}
    problems = []
    if prop in ("C04", "both"):
        best = None
        for b in order:
            if best is None or b.height > best.height:
                best = b
        if cs.current_chain_hash != best.hash():
            problems.append("head is not the first-arrived block of greatest height")
        leaves = {b.hash() for b in order} - {b.previous_block_hash for b in order}
        if set(cs.heads.keys()) != leaves:
            problems.append("reported tips are not the blocks without children")
        for b in order:
            anc, a = {}, b
            while True:
                anc[a.height] = a.hash()
                if a.previous_block_hash not in by_id:
                    break
                a = by_id[a.previous_block_hash]
            idx = {h: blk.hash() for h, blk in cs.block_by_height_by_hash[b.hash()].items()}
            if idx != anc:
                problems.append("by-height index is not the block's ancestors and itself")
                break
    if prop in ("C03", "both"):
        for b in order:
            ch, a = [b], b
            while a.previous_block_hash in by_id:
                a = by_id[a.previous_block_hash]
                ch.append(a)
            ch.reverse()
            try:
                u = replay_chain(ch)
            except KeyError:
                problems.append("replay of the chain fails")
                break
            have = {(r.hash, r.index): (o.value, o.public_key.public_key)
                    for r, o in cs.unspent_transaction_outs_by_hash[b.hash()].items()}
            if have != u:
                problems.append("unspent set differs from the replay of the block's chain")
                break
            bal = cs.public_key_balances_by_hash[b.hash()]
            want = {}
            for (h, i), (v, pk) in u.items():
                w = want.setdefault(pk, [0, []])
                w[0] += v
                w[1].append((h, i))
            got = {k.public_key: (v.value, sorted((r.hash, r.index) for r in v.output_references))
                   for k, v in bal.items() if v.value != 0 or v.output_references}
            want = {k: (v[0], sorted(v[1])) for k, v in want.items()}
            if got != want:
                problems.append("balances are not the sum / list of the unspent outputs paying each key")
                break
    return problems


def run_orders(ctx, prop):
    res = kit.Result()
    rng = ctx.rng
    lines = chain.patch(horizon=-1, interval=6, timespan=720)
    n_trees = ctx.scale(21, 45)
    limit = ctx.scale(150, 5100)
    all_exhaustive = True
    for ti in range(n_trees + 1):
        keys = chain.Keys(rng, 4)
        tall = (ti == n_trees)
        use_real = (ti % 3 == 0) and not tall
        genesis = None if use_real else chain.custom_genesis(keys, target=(b"\xff" * 32) if tall else bytes([0x3f]) + b"\xff" * 31)
        tree = chain.Tree(rng, keys, genesis=genesis)
        small = ti < n_trees * 2 // 3
        if tall:
            # one tall tree per run (several hundred blocks; numbers above 256, histories longer than 100 blocks): a trunk with
            # spends, two branches that part at height 98 and both pass height 100 (the longer one, with a spend of its own,
            # becomes the main chain), and near the top — above height 257 — pairs of competing blocks of equal height
            def ext(parent, n_tx=0, miner=None):
                return tree.extend(parent, n_tx=n_tx, dt=120, data_len=0, miner=miner)
            cur = tree.blocks[0]
            while cur.height < 98:
                cur = ext(cur.hash(), n_tx=(rng.randrange(0, 3) if cur.height % 9 == 3 else 0))
            a = cur
            for _ in range(3):
                a = ext(a.hash(), miner=1)
            b_ = ext(cur.hash(), n_tx=1, miner=2)
            for _ in range(3):
                b_ = ext(b_.hash(), miner=2)
            cur = b_
            # (C04: the competing pairs sit at heights 500 and 501 — above CPython's small integers, at and next to a height
            # that is a multiple of the checkpoint spacing; C03: the full per-block digest is quadratic, 104 blocks suffice)
            top = 499 if prop == "C04" else 104 + rng.randrange(0, 4)
            while cur.height < top:
                cur = ext(cur.hash(), n_tx=(1 if cur.height % 40 == 7 else 0))
            x1 = ext(cur.hash(), miner=0)
            x2 = ext(cur.hash(), miner=3)
            y2 = ext(x2.hash(), n_tx=1)
            y1 = ext(x1.hash())
            ext(y1.hash())
            ext(y2.hash())
            res.count("tall_trees")
            small = False
            n = 0
        n = 0 if tall else rng.randrange(5, ctx.scale(8, 9)) if small else rng.randrange(9, 22)
        boundary = (not small) and ti % 2 == 0 and not tall
        if boundary:
            # competing tips whose targets differ: siblings at a target-readjustment height with very different
            # timestamps, and branches of different lengths on top of them
            from skepticoin import consensus as _c
            I = _c.BLOCKS_BETWEEN_TARGET_READJUSTMENT
            while tree.cs.head().height < I - 1:
                tree.extend(dt=rng.randrange(60, 180))
            tip = tree.cs.current_chain_hash
            sibs = [tree.extend(tip, dt=d) for d in rng.sample([1, 40, 120, 400, 1500], 3)]
            res.count("boundary_sibling_targets:%d" % len({b.target for b in sibs}))
            for _ in range(rng.randrange(1, 5)):
                tree.extend(rng.choice(sibs + tree.blocks[-2:]).hash())
            n = 0
        if (not small) and (not boundary) and ti % 4 == 3 and not tall:
            # a deep tree: tips that are out-run by far more than a handful of blocks (a two-block side branch off the
            # first block, a late fork low on the main branch) stay tips
            g0 = tree.blocks[0].hash()
            s_ = tree.extend(g0)
            tree.extend(s_.hash())
            cur = tree.extend(g0)
            main_ = [cur]
            top = 13 + rng.randrange(0, 4)
            while cur.height < top:
                cur = tree.extend(cur.hash())
                main_.append(cur)
            tree.extend(main_[rng.randrange(1, 4)].hash())
            res.count("deep_trees")
            n = 0
        for _ in range(n - 1):
            if rng.random() < (0.75 if small else 0.3):
                tree.extend(rng.choice(tree.blocks).hash())      # any earlier block as parent
            else:
                tree.extend()
        blocks = tree.blocks
        if tall:
            # the order of construction, and the same with each of the late competitors arriving before its rival
            sys_limit = __import__("sys").getrecursionlimit()
            orders, exhaustive = [list(blocks)], False
            alt = list(blocks)
            i1, i2 = alt.index(x1), alt.index(x2)
            alt[i1], alt[i2] = alt[i2], alt[i1]
            j1, j2 = alt.index(y2), alt.index(y1)
            alt[j1], alt[j2] = alt[j2], alt[j1]
            orders.append(alt)
            alt2 = [x for x in blocks if x is not a and x.previous_block_hash != a.hash()]
            # the short branch at height 99-101 arriving last of all
            late, hs = [], {a.hash()}
            chain_a, z = [], a
            while z.height > 98:
                chain_a.append(z)
                z = tree.cs.block_by_hash[z.previous_block_hash]
            chain_a.reverse()
            ids_a = {z.hash() for z in chain_a}
            orders.append([x for x in blocks if x.hash() not in ids_a] + chain_a)
        else:
            orders, exhaustive = linear_extensions(blocks, limit if small else ctx.scale(12, 60), rng)
        if small and not exhaustive:
            all_exhaustive = False
        res.count("trees")
        res.count("tree_size:%d" % len(blocks))
        res.count("orders", len(orders))
        res.count("trees_with_all_orders" if exhaustive else "trees_sampled_orders")
        n_tx = sum(len(b.transactions) - 1 for b in blocks)
        res.count("spends_in_trees", n_tx)
        ops = list(lines)
        impl = ["ok"] * len(ops)
        per_block_ref = None
        for oi, order in enumerate(orders):
            ops.append("new s")
            impl.append("ok")
            cs = CoinState.empty()
            snapshots = []
            best_so_far = None
            for b in order:
                ops.append("addnv s s " + hx(b.serialize()))
                if prop != "C04" and (oi + order.index(b)) % 3 == 0 and not tall:
                    # somebody asks for the balances at a block that is not stored yet (announced, not delivered): no answer —
                    # and no influence on the answer once it is stored
                    try:
                        early = cs.public_key_balances_by_hash[b.hash()]
                        if len(early):
                            res.violations.append({"kind": "balances reported at a block that is not stored",
                                                   "order": [x.serialize().hex() for x in order]})
                    except Exception:
                        pass
                    res.count("balances_asked_before_the_block_is_stored")
                try:
                    cs = cs.add_block_no_validation(b)
                except Exception as e:
                    # every block of the tree was fully valid when it was built, and its parent has arrived
                    raise kit.PropertyViolation(["C03", "C04"], {
                        "kind": "adding a block whose parent arrived earlier raised %r: the ledger state at a block depends on "
                                "what else is stored / on the arrival order" % e,
                        "order": [x.serialize().hex() for x in order], "arrived": order.index(b)})
                impl.append("ok")
                if best_so_far is None or b.height > best_so_far.height:
                    best_so_far = b
                if prop != "C03" and cs.current_chain_hash != best_so_far.hash():
                    res.violations.append({"kind": "after an arrival the head is not the first-arrived block of greatest height "
                                                   "(arrival %d, height %d)" % (order.index(b) + 1, b.height),
                                           "order": [x.serialize().hex() for x in order[:order.index(b) + 1]]})
                    best_so_far = cs.block_by_hash.get(cs.current_chain_hash, best_so_far)     # report once per divergence
                if not tall or len(order) - order.index(b) <= 8 or b.height % 64 == 0:
                    snapshots.append((cs, chain.state_digest(cs, full=False)))
                if prop != "C04" and (not tall or 96 <= b.height <= 104 or len(order) - order.index(b) <= 8):
                    # a wallet / miner reads the balances at the head after every arrival (this also fills the caches)
                    bal = cs.public_key_balances_by_hash[cs.current_chain_hash]
                    hb = cs.block_by_hash[cs.current_chain_hash]
                    ch, a = [hb], hb
                    seen_ids = {x.hash(): x for x in order}
                    while a.previous_block_hash in seen_ids:
                        a = seen_ids[a.previous_block_hash]
                        ch.append(a)
                    ch.reverse()
                    u = replay_chain(ch)
                    want = {}
                    for (h_, i_), (v_, pk_) in u.items():
                        w_ = want.setdefault(pk_, [0, []])
                        w_[0] += v_
                        w_[1].append((h_, i_))
                    got = {k.public_key: (v.value, sorted((r.hash, r.index) for r in v.output_references))
                           for k, v in bal.items() if v.value != 0 or v.output_references}
                    if got != {k: (v[0], sorted(v[1])) for k, v in want.items()}:
                        res.violations.append({"kind": "balances reported at the head after an arrival differ from the replay of "
                                                       "the head's chain", "order": [x.serialize().hex() for x in order],
                                               "arrived": order.index(b) + 1})
            if prop != "C04" and oi == 0 and not tall:
                # readers of the reported state do not change it: a wallet over the tree's keys prepares two payments on this very
                # state object (the second one skips what the first one used) before the state is compared
                from skepticoin.wallet import Wallet, create_spend_transaction
                from skepticoin.signing import SECP256k1PublicKey
                w_ = Wallet.empty()
                for i_, pk_ in enumerate(keys.pks):
                    w_.keypairs[pk_] = keys.sks[i_].to_string()
                before_reads = chain.state_digest(cs, full=True)
                for amount_ in (3, 2, 1):
                    try:
                        create_spend_transaction(w_, cs, amount_, 0, SECP256k1PublicKey(keys.pks[0]), SECP256k1PublicKey(keys.pks[-1]))
                    except Exception:
                        pass
                if chain.state_digest(cs, full=True) != before_reads:
                    res.violations.append({"kind": "the ledger state reported for stored blocks changed although no block was added: a "
                                                   "wallet prepared payments on that state", "order": [b.serialize().hex() for b in order]})
                res.count("wallet_reads_between_arrivals_and_digest")
            d = chain.state_digest(cs, full=(prop != "C04"))
            ops.append("digest s " + ("full" if prop != "C04" else "light"))
            impl.append(d)
            res.case((ti, tuple(b.hash() for b in order)), nontrivial=len(order) > 2)
            # monitors
            for msg in check_state(res, prop, order, cs):
                res.violations.append({"kind": msg, "order": [b.serialize().hex() for b in order]})
            # arrival order does not matter for the per-block part of the digest
            per_block = d.split(" ", 3)[3]
            if per_block_ref is None:
                per_block_ref = per_block
            elif prop != "C04" and per_block != per_block_ref:
                res.violations.append({"kind": "ledger state at a block depends on the arrival order",
                                       "order": [b.serialize().hex() for b in order],
                                       "first_order": [b.serialize().hex() for b in orders[0]]})
            # earlier snapshots are unchanged by later additions
            if oi % 7 == 0:
                for snap, dig in snapshots:
                    if chain.state_digest(snap, full=False) != dig:
                        res.violations.append({"kind": "a chain-state snapshot obtained earlier changed",
                                               "order": [b.serialize().hex() for b in order]})
                        break
            if len(res.samples) < 3 and oi == 0:
                res.sample({"tree_blocks": len(blocks), "orders": len(orders), "all_orders": exhaustive,
                            "heights": [b.height for b in order], "digest": d[:120]})
        if prop != "C04" and ti == 1:
            # the reported balances as a function of the block, also when several threads ask one (fresh) state object at once
            order0 = orders[0]
            by_id0 = {b.hash(): b for b in order0}
            want0 = {}
            for b in order0:
                ch, a_ = [b], b
                while a_.previous_block_hash in by_id0:
                    a_ = by_id0[a_.previous_block_hash]
                    ch.append(a_)
                ch.reverse()
                u_ = replay_chain(ch)
                w_ = {}
                for (h_, i_), (v_, pk_) in u_.items():
                    e_ = w_.setdefault(pk_, [0, 0])
                    e_[0] += v_
                    e_[1] += 1
                want0[b.hash()] = sorted((k_.hex()[:8], v_[0], v_[1]) for k_, v_ in w_.items())

            def jobs0():
                cs0 = CoinState.empty()
                for b in order0:
                    cs0 = cs0.add_block_no_validation(b)
                return [((lambda h_=h_: sorted((k_.public_key.hex()[:8], v_.value, len(v_.output_references))
                                               for k_, v_ in cs0.public_key_balances_by_hash[h_].items()
                                               if v_.value != 0 or v_.output_references)),
                         want0[h_], "balances at block %s" % h_.hex()[:8]) for h_ in list(want0)[-8:]]
            kit.concurrent_probe(res, "public_key_balances_by_hash", jobs0, seconds=1.5)
        model = ctx.driver.ask(ops)
        kit.compare(res, ops, impl, model)
    chain.unpatch()
    res.exhaustive = all_exhaustive
    res.rule = ("block trees with forks and signed spends that differ between forks (5-%d blocks: every parent-before-child "
                "arrival order, up to %d per tree; 9-21 blocks: random orders), each order folded through the real "
                "add_block_no_validation and the model's; digest of head, tips, and per block the by-height index, unspent "
                "set and balances. Monitors recompute first-max head, leaves, ancestors, replayed unspent sets and balances "
                "independently, compare the per-block state across orders, and re-digest earlier snapshots. Distinct "
                "non-trivial = distinct (tree, arrival order) with more than two blocks" % (ctx.scale(7, 8), limit))
    return res

"""C17 — merkle commitment: get_merkle_root / get_merkle_tree / get_proof against the model for
every length and position; every single structural edit of short lists must change the root."""
import itertools

from . import kit, gens
from .kit import hx, sha256d

from skepticoin.merkletree import get_merkle_root, get_merkle_tree, get_proof


def leaves_of(node):
    if not node.children:
        return [(node.index, node.value)]
    return leaves_of(node.children[0]) + leaves_of(node.children[1])


def edits(l, fresh):
    """all single structural edits of the list"""
    n = len(l)
    for i in range(n):
        yield "substitute", l[:i] + [fresh] + l[i + 1:]
        yield "remove", l[:i] + l[i + 1:]
        yield "duplicate", l[:i + 1] + [l[i]] + l[i + 1:]
        yield "insert", l[:i] + [fresh] + l[i:]
        for j in range(i + 1, n):
            m = list(l)
            m[i], m[j] = m[j], m[i]
            yield "swap", m
    yield "append", l + [fresh]
    yield "duplicate_last", l + [l[-1]]


def run(ctx):
    res = kit.Result()
    rng = ctx.rng
    ops, impl = [], []
    maxlen = ctx.scale(40, 64)
    for n in range(1, maxlen + 1):
        l = [gens.rb(rng, 32) for _ in range(n)]
        # one list object throughout, as a caller has it who commits to a list and then proves entries of it
        same = list(l)
        root = get_merkle_root(same)
        ops.append("mroot " + " ".join(x.hex() for x in l))
        impl.append(root.hex())
        if same != l:
            res.violations.append({"kind": "computing the commitment of a list changed the list (the caller's proofs and "
                                           "any second commitment are then about another list)",
                                   "list": [x.hex() for x in l], "afterwards": [x.hex() for x in same]})
        if get_merkle_root(same) != root:
            res.violations.append({"kind": "asking twice for the commitment of the same list object gives two commitments",
                                   "list": [x.hex() for x in l]})
        tree = get_merkle_tree(same)
        if same != l:
            res.violations.append({"kind": "building the proof tree of a list changed the list",
                                   "list": [x.hex() for x in l], "afterwards": [x.hex() for x in same]})
            same = list(l)
        if tree.hash() != root:
            res.violations.append({"kind": "tree hash differs from root", "list": [x.hex() for x in l]})
        for i in range(n):
            p = get_proof(tree, i)
            lv = leaves_of(p)
            ops.append("mproof %d " % i + " ".join(x.hex() for x in l))
            impl.append(p.hash().hex() + " " + ",".join("%d:%s" % (ix, v.hex()) for ix, v in lv))
            res.case(("proof", n, i), nontrivial=n > 1)
            if p.hash() != root:
                res.violations.append({"kind": "inclusion proof does not reproduce the commitment", "n": n, "i": i,
                                       "list": [x.hex() for x in l]})
            if (i, l[i]) not in lv:
                res.violations.append({"kind": "inclusion proof does not contain the entry", "n": n, "i": i,
                                       "list": [x.hex() for x in l]})
        res.count("lengths")
    # lists in which an id occurs more than once (a position is not identified by its entry): every position's proof
    for n in range(2, ctx.scale(10, 16)):
        for rep in range(ctx.scale(3, 8)):
            l = [gens.rb(rng, 32) for _ in range(n)]
            for _ in range(rng.randrange(1, 1 + max(1, n // 2))):
                l[rng.randrange(0, n)] = l[rng.randrange(0, n)]
            if rep == 0:
                l[-1] = l[0]
            same = list(l)
            root = get_merkle_root(same)
            ops.append("mroot " + " ".join(x.hex() for x in l))
            impl.append(root.hex())
            tree = get_merkle_tree(same)
            for i in range(n):
                p = get_proof(tree, i)
                lv = leaves_of(p)
                ops.append("mproof %d " % i + " ".join(x.hex() for x in l))
                impl.append(p.hash().hex() + " " + ",".join("%d:%s" % (ix, v.hex()) for ix, v in lv))
                res.case(("proof-repeated", tuple(l), i), nontrivial=True)
                res.count("proofs_in_lists_with_repeated_ids")
                if p.hash() != root:
                    res.violations.append({"kind": "inclusion proof does not reproduce the commitment (list with a repeated id)",
                                           "n": n, "i": i, "list": [x.hex() for x in l]})
                if (i, l[i]) not in lv:
                    res.violations.append({"kind": "inclusion proof does not contain the entry at its position (list with a repeated id)",
                                           "n": n, "i": i, "list": [x.hex() for x in l],
                                           "leaves": ["%d:%s" % (ix, v.hex()[:8]) for ix, v in lv]})
    # long lists (a block holds about 1100 transactions): levels of more than 256 and more than 512 nodes, even and odd
    for n in [255, 256, 257, 511, 512, 513, 514, 515, 516, 600, 1024, 1027, 1100][:ctx.scale(13, 13)]:
        l = [gens.rb(rng, 32) for _ in range(n)]
        root = get_merkle_root(list(l))
        ops.append("mroot " + " ".join(x.hex() for x in l))
        impl.append(root.hex())
        tree = get_merkle_tree(list(l))
        if tree.hash() != root:
            res.violations.append({"kind": "tree hash differs from the commitment (list of %d ids)" % n, "n": n,
                                   "list": [x.hex() for x in l]})
        for i in sorted({0, 1, n // 2, n // 2 + 1, n - 2, n - 1, rng.randrange(0, n)}):
            p = get_proof(tree, i)
            lv = leaves_of(p)
            ops.append("mproof %d " % i + " ".join(x.hex() for x in l))
            impl.append(p.hash().hex() + " " + ",".join("%d:%s" % (ix, v.hex()) for ix, v in lv))
            res.case(("proof-long", n, i), nontrivial=True)
            res.count("proofs_in_long_lists")
            if p.hash() != root or (i, l[i]) not in lv:
                res.violations.append({"kind": "inclusion proof does not reproduce the commitment / contain its entry (list of %d "
                                               "ids, position %d)" % (n, i), "n": n, "i": i, "list": [x.hex() for x in l]})
        if get_merkle_root(l + [l[-1]]) == root:
            res.violations.append({"kind": "duplicating the last entry keeps the commitment (list of %d ids)" % n,
                                   "list": [x.hex() for x in l]})
    # ids with a special byte pattern (all zero — the value the protocol uses as the "thin air" reference —, all ones, a single
    # bit at either end) at every position of short lists: commitment, tree, every proof, and every structural edit
    SPECIAL = [b"\x00" * 32, b"\xff" * 32, b"\x00" * 31 + b"\x01", b"\x80" + b"\x00" * 31, b"\x01" + b"\x00" * 31]
    for n in range(1, ctx.scale(7, 10)):
        for pos in range(n):
            sp = SPECIAL[(n + pos) % len(SPECIAL)] if (n + pos) % 2 else SPECIAL[0]
            l = [gens.rb(rng, 32) for _ in range(n)]
            l[pos] = sp
            if n >= 3 and pos == n - 1 and n % 2 == 1:
                l[0] = sp                                   # … and the same special id twice
            root = get_merkle_root(list(l))
            ops.append("mroot " + " ".join(x.hex() for x in l))
            impl.append(root.hex())
            tree = get_merkle_tree(list(l))
            if tree.hash() != root:
                res.violations.append({"kind": "tree hash differs from the commitment (list containing a special-pattern id)",
                                       "list": [x.hex() for x in l]})
            for i in range(n):
                p = get_proof(tree, i)
                lv = leaves_of(p)
                ops.append("mproof %d " % i + " ".join(x.hex() for x in l))
                impl.append(p.hash().hex() + " " + ",".join("%d:%s" % (ix, v.hex()) for ix, v in lv))
                res.case(("proof-special", tuple(l), i), nontrivial=True)
                res.count("proofs_in_lists_with_special_ids")
                if p.hash() != root or (i, l[i]) not in lv:
                    res.violations.append({"kind": "inclusion proof does not reproduce the commitment / contain its entry (list "
                                                   "containing a special-pattern id)", "n": n, "i": i, "list": [x.hex() for x in l]})
            for kind, m in edits(l, SPECIAL[(pos + 1) % len(SPECIAL)] if pos % 2 else gens.rb(rng, 32)):
                if not m:
                    continue
                r2 = get_merkle_root(list(m))
                ops.append("mroot " + " ".join(x.hex() for x in m))
                impl.append(r2.hex())
                res.case(("edit-special", tuple(m)))
                res.count("edit_special:" + kind)
                if m != l and r2 == root:
                    res.violations.append({"kind": "commitment unchanged by '%s' (list containing a special-pattern id)" % kind,
                                           "list": [x.hex() for x in l], "edited": [x.hex() for x in m]})
    # structural edits
    seen_roots = {}
    for n in range(1, ctx.scale(7, 9) + 1):
        for rep in range(ctx.scale(2, 6)):
            l = [gens.rb(rng, 32) for _ in range(n)]
            if rep % 2 == 1 and n >= 2:
                l[rng.randrange(0, n)] = l[rng.randrange(0, n)]       # lists with repeated entries
            root = get_merkle_root(list(l))
            seen_roots.setdefault(root, tuple(l))
            fresh = gens.rb(rng, 32)
            for kind, m in edits(l, fresh):
                if not m:
                    continue
                r2 = get_merkle_root(list(m))
                ops.append("mroot " + " ".join(x.hex() for x in m))
                impl.append(r2.hex())
                res.case(("edit", tuple(m)))
                res.count("edit:" + kind)
                if m != l and r2 == root:
                    res.violations.append({"kind": "commitment unchanged by '%s'" % kind, "list": [x.hex() for x in l],
                                           "edited": [x.hex() for x in m]})
                if seen_roots.setdefault(r2, tuple(m)) != tuple(m):
                    res.violations.append({"kind": "two different lists with the same commitment",
                                           "a": [x.hex() for x in m], "b": [x.hex() for x in seen_roots[r2]]})
    # the Bitcoin construction: [a, b, c] versus [a, b, c, c]
    a, b, c = (gens.rb(rng, 32) for _ in range(3))
    if get_merkle_root([a, b, c]) == get_merkle_root([a, b, c, c]):
        res.violations.append({"kind": "duplicating the last entry keeps the commitment", "list": [a.hex(), b.hex(), c.hex()]})
    if get_merkle_root([a, b, c]) != sha256d(sha256d(a + b) + c):
        res.violations.append({"kind": "odd entry is not promoted unchanged", "list": [a.hex(), b.hex(), c.hex()]})
    res.sample({"op": "mroot of 3 entries", "impl": get_merkle_root([a, b, c]).hex()})
    # the commitment as the node computes it for a block header (consensus.calc_merkle_root_hash on transactions):
    # the original list first (as when a block has been assembled or validated), then every edit of it
    from skepticoin.consensus import calc_merkle_root_hash
    for n in range(1, ctx.scale(6, 8) + 1):
        txs = [gens.tx(rng) for _ in range(n)]
        ids = [t.hash() for t in txs]
        root = calc_merkle_root_hash(list(txs))
        ops.append("mroot " + " ".join(x.hex() for x in ids))
        impl.append(root.hex())
        fresh_tx = gens.tx(rng)
        by_id = {t.hash(): t for t in txs + [fresh_tx]}
        for kind, m in edits(ids, fresh_tx.hash()):
            if not m:
                continue
            r2 = calc_merkle_root_hash([by_id[i] for i in m])
            ops.append("mroot " + " ".join(x.hex() for x in m))
            impl.append(r2.hex())
            res.case(("header-edit", tuple(m)))
            res.count("header_commitment_edit:" + kind)
            if m != ids and r2 == root:
                res.violations.append({"kind": "the header commitment is unchanged by '%s' of the transaction list" % kind,
                                       "ids": [x.hex() for x in ids], "edited": [x.hex() for x in m]})
    # … and where the node enforces it: a block whose header keeps the commitment of its original list while one entry of the
    # list is substituted must be refused by the node's block validation — for lists of one (reward only), two and more entries
    from . import chain, ledger
    from skepticoin import consensus as _consensus
    from skepticoin.datatypes import Block as _Block
    chain.patch(horizon=-1)
    keys_ = chain.Keys(rng, 4)
    tree_ = chain.Tree(rng, keys_)
    tree_.grow(4, fork_prob=0.0)
    for n_tx in (0, 0, 1, 2, 3):
        parent_state = tree_.cs
        blk = tree_.extend(n_tx=n_tx)
        for pos in range(len(blk.transactions)):
            if pos == 0:
                sub_tx = ledger.coinbase(blk.height, chain.subsidy(blk.height), keys_.pk(rng.randrange(0, 4)), data=b"substituted")
            else:
                sub_tx = tree_.random_tx(blk.previous_block_hash)
                if sub_tx is None or sub_tx.hash() == blk.transactions[pos].hash():
                    continue
            forged = _Block(blk.header, list(blk.transactions[:pos]) + [sub_tx] + list(blk.transactions[pos + 1:]))
            for how in ("validate_block_by_itself", "add_block"):
                try:
                    if how == "add_block":
                        parent_state.add_block(forged, blk.timestamp + 5)
                    else:
                        _consensus.validate_block_by_itself(forged, blk.timestamp + 5)
                    accepted = True
                except Exception:
                    accepted = False
                res.case(("forged-list", blk.hash(), pos, how), nontrivial=True)
                res.count("substituted_entry_under_the_original_header:%d_entries" % len(blk.transactions))
                if accepted:
                    res.violations.append({"kind": "%s accepts a block of %d transaction(s) in which entry %d was substituted while the "
                                                   "header keeps the commitment of the original list"
                                                   % (how, len(blk.transactions), pos),
                                           "block": forged.serialize().hex(), "original": blk.serialize().hex()})
    chain.unpatch()
    # the commitment as a function also when two threads commit at the same time (a node validates a received block while its
    # miner thread assembles a header)
    conc_lists = [[gens.rb(rng, 32) for _ in range(n_)] for n_ in (2, 2, 3, 4, 4, 5, 7, 8, 2, 3, 6, 2)]
    conc_expected = [get_merkle_root(list(l_)).hex() for l_ in conc_lists]
    kit.concurrent_probe(res, "get_merkle_root", lambda: [
        ((lambda l_=l_: get_merkle_root(list(l_)).hex()), e_, "list of %d ids" % len(l_)) for l_, e_ in zip(conc_lists, conc_expected)])
    model = ctx.driver.ask(ops)
    kit.compare(res, ops, impl, model)
    res.exhaustive = True
    res.rule = ("every list length 1..%d (random 32-byte entries) and every position: root, tree hash, inclusion proof (hash "
                "and leaves) against the model; for every length ≤ %d, lists with and without repeated entries and every "
                "single structural edit (substitute, remove, duplicate any/last, insert, append, every swap): the root "
                "must change unless the list is identical, and no two different lists seen share a root. Distinct "
                "non-trivial = (length, position) pairs and distinct edited lists" % (maxlen, ctx.scale(7, 9)))
    return res

"""C08 — persistence fidelity: the real BlockStore on a scratch file, block trees with forks and
multi-input/multi-output spends (incl. the same pending transaction in competing fork blocks),
every write batched into flushes, a reopen + read + rebuild after each flush; against the
relational model; monitor: byte-identical blocks, parents before children, rebuilt ledger state."""
import hashlib
import os

from . import kit, chain
from .kit import hx

import skepticoin.blockstore as blockstore
from skepticoin.coinstate import CoinState
from skepticoin.datatypes import Block


def read_line(blocks):
    rows = []
    for b in blocks:
        rows.append((b.height.to_bytes(8, "big") + b.hash(),
                     "%d:%s:%s:%s" % (b.height, b.hash()[:8].hex(), hashlib.sha256(b.serialize()).digest()[:8].hex(),
                                      "+".join(t.hash()[:8].hex() for t in b.transactions))))
    rows.sort(key=lambda r: r[0])
    return "n=%d %s" % (len(blocks), ",".join(r[1] for r in rows))


def rebuild(blocks):
    """scripts/utils.read_chain_from_disk"""
    cs = CoinState.empty()
    skipped = 0
    for b in blocks:
        try:
            cs = cs.add_block_no_validation(b)
        except Exception:
            skipped += 1
    return cs, skipped


def shared_tx_in_two_blocks(written):
    seen = {}
    for b in written:
        for t in b.transactions:
            if t.hash() in seen and seen[t.hash()] != b.hash():
                return True
            seen[t.hash()] = b.hash()
    return False


def arbitrary_blocks(ctx, res):
    """blocks that the store can hold but that are built freely from the repository's constructors (not consensus-valid):
    any signature kind in any input, references to the all-zero hash with any index, any number of inputs / outputs,
    coinbase data of any length; parents and spent outputs exist in the store (its foreign keys). Written in random
    batches, the file reopened and read after each; against the relational model; monitors: byte-identical content, and
    the ids of what comes back are the hashes of its encodings (C07)."""
    from . import gens
    from .kit import sha256d
    from skepticoin.datatypes import Block, BlockHeader, BlockSummary, Transaction, Input, Output, OutputReference
    rng = ctx.rng
    for si in range(ctx.scale(4, 20)):
        lines = chain.patch(horizon=-1)
        path = os.path.join(os.getcwd(), "c08_free_%d.db" % si)
        if os.path.exists(path):
            os.remove(path)
        store = blockstore.BlockStore(path)
        g = chain.genesis_block()
        ops = list(lines) + ["store new", "store write " + hx(g.serialize())]
        impl = ["ok", "ok"] if not lines else ["ok"] * (len(lines) + 2)
        impl = ["ok"] * len(ops)
        written = [g]
        stored_outputs = [(t.hash(), len(t.outputs)) for t in g.transactions if t.outputs]
        seen_tx = {t.hash() for t in g.transactions}
        for fi in range(rng.randrange(2, 6)):
            batch = []
            new_outputs = []
            for _ in range(rng.randrange(1, 4)):
                parent = rng.choice(written + batch)
                txs = []
                n_want = rng.randrange(1, 4)        # a block without transactions has no rows to be found by (not storable)
                while len(txs) < n_want:
                    ins = []
                    for _i in range(rng.randrange(0, 4)):
                        c = rng.random()
                        if c < 0.45 or not stored_outputs:
                            ref = OutputReference(b"\x00" * 32, rng.choice([0, 0, 1, 3, 255, rng.randrange(0, 1 << 31)]))
                        else:
                            h_, n_ = rng.choice(stored_outputs)
                            ref = OutputReference(h_, rng.randrange(0, n_))
                        ins.append(Input(ref, gens.signature(rng)))
                    outs = [Output(rng.choice([0, 1, rng.randrange(0, 1 << 62)]), gens.pubkey(rng))
                            for _o in range(rng.randrange(0, 4))]
                    t = Transaction(ins, outs)
                    if t.hash() in seen_tx:
                        continue          # the same transaction in two blocks is the known finding D2, covered in run()
                    seen_tx.add(t.hash())
                    txs.append(t)
                sm = BlockSummary(rng.choice([parent.height + 1, rng.randrange(0, 1 << 31)]), parent.hash(), gens.rb(rng, 32),
                                  rng.randrange(0, 1 << 32), gens.rb(rng, 32), rng.randrange(0, 1 << 32))
                b = Block(BlockHeader(sm, gens.evidence(rng)), txs)
                b = Block.deserialize(b.serialize())             # as obtained from bytes
                batch.append(b)
                new_outputs += [(t.hash(), len(t.outputs)) for t in txs if t.outputs]
            for b in batch:
                store.add_block_to_buffer(b)
            try:
                store.flush_blocks_to_disk()
                r = "ok"
            except Exception as e:
                r = "fail"
                res.violations.append({"kind": "flushing store-legal blocks raised: %r" % e, "scenario": si,
                                       "blocks": [x.serialize().hex() for x in batch]})
            ops.append("store write " + " ".join(hx(b.serialize()) for b in batch))
            impl.append(r)
            if r == "ok":
                written += batch
                stored_outputs += new_outputs
            store.close()
            store = blockstore.BlockStore(path)
            got = list(store.read_blocks_from_disk())
            ops.append("store read")
            impl.append(read_line(got))
            res.case(("free", si, fi), nontrivial=True)
            res.count("free_flushes")
            by_id = {b.hash(): b for b in written}
            for b in got:
                w = by_id.get(b.hash())
                info = {"scenario": si, "block": (w or b).serialize().hex(), "read_back": b.serialize().hex()}
                if w is None:
                    res.violations.append({**info, "kind": "a block read back was never written"})
                    continue
                if b.serialize() != w.serialize():
                    res.violations.append({**info, "kind": "a block read back is not byte-identical to the block written"})
                if b.hash() != sha256d(b.header.serialize()):
                    res.violations.append({**info, "kind": "a block obtained from the store has an id that is not the hash of its header's encoding"})
                for t in b.transactions:
                    if t.hash() != sha256d(t.serialize()):
                        res.violations.append({**info, "kind": "a transaction obtained from the store has an id that is not the hash of its encoding",
                                               "transaction": t.serialize().hex(), "id": t.hash().hex()})
                        break
            if sorted(b.hash() for b in got) != sorted(by_id):
                res.violations.append({"kind": "the set of blocks read back differs from the set written", "scenario": si})
        store.close()
        os.remove(path)
        model = ctx.driver.ask(ops)
        kit.compare(res, ops, impl, model)
    chain.unpatch()


def wide_store(ctx, res):
    """a store with many rows in which every height holds competing blocks: whatever way the rows are fetched (one cursor, pages
    of any size up to the number of rows, ranges of heights), every block written comes back.  Two layouts, so that for every k
    the k-th and (k+1)-th row in height order are siblings in one of them: pairs at every height ≥ 1, and pairs at every height
    ≥ 2 above a single block at height 1."""
    from . import gens
    from skepticoin.datatypes import Block, BlockHeader, BlockSummary, Transaction, Input, Output, OutputReference
    rng = ctx.rng
    heights = ctx.scale(560, 2300)
    chain.patch(horizon=-1)
    for layout in (0, 1):
        path = os.path.join(os.getcwd(), "c08_wide_%d.db" % layout)
        if os.path.exists(path):
            os.remove(path)
        store = blockstore.BlockStore(path)
        g = chain.genesis_block()
        written = {g.hash(): g}
        level = [g]
        pending = [g]
        n = 0
        for h in range(1, heights + 1):
            width = 1 if (layout == 1 and h == 1) else 2
            nxt = []
            for _ in range(width):
                parent = rng.choice(level)
                n += 1
                t = Transaction([Input(OutputReference(b"\x00" * 32, 0), gens.signature(rng))],
                                [Output(n, gens.pubkey(rng))])
                sm = BlockSummary(h, parent.hash(), gens.rb(rng, 32), h, gens.rb(rng, 32), n)
                b = Block(BlockHeader(sm, gens.evidence(rng)), [t])
                nxt.append(b)
                pending.append(b)
                written[b.hash()] = b
            level = nxt
            if len(pending) >= (400 if layout == 0 else 10 ** 9) or h == heights:      # (second layout: one flush of everything)
                for b in pending:
                    store.add_block_to_buffer(b)
                store.flush_blocks_to_disk()
                pending = []
        store.close()
        store = blockstore.BlockStore(path)
        got = list(store.read_blocks_from_disk())
        store.close()
        os.remove(path)
        res.case(("wide", layout, heights), nontrivial=True)
        res.count("wide_store_rows", len(written))
        ids = [b.hash() for b in got]
        missing = [h_ for h_ in written if h_ not in set(ids)]
        if missing or len(ids) != len(set(ids)) or len(ids) != len(written):
            m = written[missing[0]] if missing else None
            res.violations.append({"kind": "the set of blocks read back differs from the set written (many rows, competing "
                                           "blocks at every height)", "layout": layout, "written": len(written),
                                   "read_back": len(ids), "missing": len(missing),
                                   "first_missing_height": m.height if m else None,
                                   "first_missing": m.serialize().hex() if m else None})
        seen = set()
        for b in got:
            if b.height > 0 and b.previous_block_hash not in seen and b.previous_block_hash in written:
                res.violations.append({"kind": "a block is read back before its parent", "layout": layout,
                                       "height": b.height})
                break
            seen.add(b.hash())
    chain.unpatch()


def concurrent_flush(store, late):
    """flush_blocks_to_disk with a second thread that hands `late` to the buffer at the moment the first has written its rows
    and not yet emptied the buffer, and then flushes itself (one fixed schedule of the two writers; with the store's lock the
    second writer waits)"""
    import threading
    orig = store.write_blocks_to_disk
    started = []

    def second_writer():
        store.add_block_to_buffer(late)

    def hooked(blocks_):
        orig(list(blocks_))
        if not started:
            t = threading.Thread(target=second_writer, daemon=True)
            started.append(t)
            t.start()
            t.join(0.3)
    store.write_blocks_to_disk = hooked
    try:
        store.flush_blocks_to_disk()
    finally:
        del store.write_blocks_to_disk
    for t in started:
        t.join(10)
    store.flush_blocks_to_disk()          # the second writer's own flush


def node_histories(ctx, res):
    """the store as the node itself drives it (not only through add / flush): blocks adopted unvalidated during a bulk
    download sit in the write buffer; a rejected delivery rolls the node back and drops the buffer; the dropped blocks are
    delivered again and accepted; more blocks follow. After that history and a restart the store must hold every block of
    the chain state the node served (monitors only)."""
    from . import node, ledger
    rng = ctx.rng
    for si in range(ctx.scale(3, 8)):
        chain.patch(horizon=-1)
        keys = chain.Keys(rng, 5)
        tree = chain.Tree(rng, keys)
        tree.grow(rng.randrange(4, 8), fork_prob=0.3)
        rn = node.RealNode(tree.cs, tree.blocks)
        rn.add_peer(active=True)
        cr = ledger.Crafter(tree)
        accepted = []
        for rnd in range(rng.randrange(2, 4)):
            head = rn.cm.coinstate.current_chain_hash
            if head != tree.cs.current_chain_hash:
                break
            a = tree.extend(head)
            a2 = tree.extend(a.hash()) if rnd % 2 == 1 else None
            node.CLOCK[0] = (a2 or a).timestamp + 5
            rn.deliver_block(0, a, 41)                      # the answer to the node's own request: adopted, buffered
            if a2 is not None:
                rn.deliver_block(0, a2, 41)
            bad = ledger.make_candidate(cr, "reward_plus1", (a2 or a).hash(), [])
            if bad is not None:
                node.CLOCK[0] = bad[1]
                rn.deliver_block(0, bad[0], 0)              # refused: back to the last validated state, buffer dropped
            for x in (a, a2):
                if x is not None:
                    node.CLOCK[0] = x.timestamp + 5
                    rn.deliver_block(0, x, 0)               # delivered again, outside bulk download: validated and stored
            nxt = tree.extend((a2 or a).hash())
            node.CLOCK[0] = nxt.timestamp + 5
            rn.deliver_block(0, nxt, 0)
            accepted += [x for x in (a, a2, nxt) if x is not None]
        served = dict(rn.cm.coinstate.block_by_hash)
        try:
            rn.store.flush_blocks_to_disk()
        except Exception as e:
            res.violations.append({"kind": "flushing after a node history raised: %r" % e, "scenario": si})
        reopened = blockstore.BlockStore(rn.store.path)
        try:
            got = {b.hash(): b for b in reopened.read_blocks_from_disk()}
        except Exception as e:
            got = {}
            res.violations.append({"kind": "reading the store after a node history raised: %r" % e, "scenario": si})
        reopened.close()
        missing = [i for i in served if i not in got and served[i].height > 0]
        res.case(("node-history", si, tuple(sorted(served))), nontrivial=True)
        res.count("node_histories")
        res.count("node_history_blocks_redelivered_after_a_rollback", len(accepted))
        if missing:
            res.violations.append({"kind": "after a history of bulk-download adoptions, a refused block (roll-back, buffer dropped), "
                                           "re-deliveries and a restart, %d block(s) of the chain state the node served are not "
                                           "read back from the store (heights %s)"
                                           % (len(missing), sorted(served[i].height for i in missing)),
                                   "scenario": si, "blocks": [served[i].serialize().hex() for i in missing][:5]})
        for i, b in got.items():
            if i in served and b.serialize() != served[i].serialize():
                res.violations.append({"kind": "a block read back after a node history is not byte-identical", "scenario": si})
                break
        rn.close()
    chain.unpatch()


def two_stores(ctx, res):
    """two stores alive in one process (two nodes, or a copy being made): writes interleaved, each flushed in turn, both
    reopened — each returns exactly what was written to it (monitors only)"""
    rng = ctx.rng
    for si in range(ctx.scale(2, 6)):
        chain.patch(horizon=-1)
        keys = chain.Keys(rng, 4)
        tree = chain.Tree(rng, keys)
        g = tree.blocks[0].hash()
        branches = []
        for _ in range(2):
            h, br = g, []
            for _ in range(rng.randrange(2, 5)):
                b = tree.extend(h, n_tx=rng.choice([0, 1]))
                br.append(b)
                h = b.hash()
            branches.append(br)
        paths = [os.path.join(os.getcwd(), "c08_two_%d_%d.db" % (si, k)) for k in (0, 1)]
        for p_ in paths:
            if os.path.exists(p_):
                os.remove(p_)
        stores = [blockstore.BlockStore(p_) for p_ in paths]
        todo = [list(br) for br in branches]
        while todo[0] or todo[1]:
            k = rng.randrange(0, 2)
            if not todo[k]:
                k = 1 - k
            stores[k].add_block_to_buffer(todo[k].pop(0))
            flushes = [rng.randrange(0, 2)] if rng.random() < 0.25 else []
            if not (todo[0] or todo[1]):
                flushes += [0, 1] if rng.random() < 0.5 else [1, 0]
            for f_ in flushes:
                try:
                    stores[f_].flush_blocks_to_disk()
                except Exception as e:
                    res.violations.append({"kind": "two stores in one process, writes interleaved: flushing store %d raised %r"
                                                   % (f_, e), "scenario": si,
                                           "written": [b.serialize().hex() for b in branches[f_]]})
        for st in stores:
            st.close()
        for k in (0, 1):
            st = blockstore.BlockStore(paths[k])
            got = {b.hash(): b for b in st.read_blocks_from_disk()}
            st.close()
            os.remove(paths[k])
            want = {b.hash(): b for b in branches[k]}
            want[g] = tree.blocks[0]
            res.case(("two-stores", si, k, tuple(sorted(want))), nontrivial=True)
            if set(got) != set(want):
                res.violations.append({"kind": "two stores in one process, writes interleaved: store %d returns %d block(s) that were "
                                               "never written to it and lacks %d that were written and flushed"
                                               % (k, len(set(got) - set(want)), len(set(want) - set(got))), "scenario": si,
                                       "written": [b.serialize().hex() for b in branches[k]]})
            elif any(got[i].serialize() != want[i].serialize() for i in want):
                res.violations.append({"kind": "two stores in one process: a block read back is not byte-identical", "scenario": si})
        res.count("two_store_histories")
    chain.unpatch()


def run(ctx):
    res = kit.Result()
    rng = ctx.rng
    arbitrary_blocks(ctx, res)
    two_stores(ctx, res)
    wide_store(ctx, res)
    node_histories(ctx, res)
    n_scen = ctx.scale(8, 40)
    for si in range(n_scen):
        lines = chain.patch(horizon=-1)
        keys = chain.Keys(rng, 5)
        tree = chain.Tree(rng, keys)                      # rooted at the real genesis, which the store always holds
        share = (si % 3 == 2)                             # scenario class: one pending transaction in competing fork blocks
        n = rng.randrange(5, ctx.scale(12, 20))
        if si % 2 == 1:
            # every other history was written while the node's clock ran ahead of the clock at the restart (a fast clock later
            # corrected, a restored machine): its blocks carry timestamps that lie in the future when the store is read back
            import time as _time
            tree.extend(dt=int(_time.time()) - tree.blocks[0].timestamp + 400 * 86400 + rng.randrange(0, 10 ** 6))
            res.count("histories_with_timestamps_ahead_of_the_restart_clock")
        for k in range(n):
            if share and k >= 2 and rng.random() < 0.5 and len(tree.blocks) > 2:
                parent = rng.choice(tree.blocks[-4:-1]).hash()
                sib_parent = parent
                tx = tree.random_tx(parent)
                if tx is not None:
                    tree.extend(parent, txs=[tx])
                    tree.extend(sib_parent, txs=[tx] + ([] if rng.random() < 0.5 else tree.random_txs(sib_parent, 0)))
                    continue
            # the reward's data field at the lengths where its stored encoding is as long as other kinds of signature field
            forced_len = {1: 59, 2: 58, 3: 60, 4: 200}.get(k)
            if rng.random() < 0.4 and len(tree.blocks) > 1:
                tree.extend(rng.choice(tree.blocks[-5:]).hash(), data_len=forced_len)
            else:
                tree.extend(data_len=forced_len)
        blocks = tree.blocks[1:]                          # arrival order (parents before children)
        path = os.path.join(os.getcwd(), "c08_%d.db" % si)
        if os.path.exists(path):
            os.remove(path)
        store = blockstore.BlockStore(path)
        ops = list(lines) + ["store new", "store write " + hx(tree.blocks[0].serialize())]
        impl = ["ok"] * len(ops)
        written = [tree.blocks[0]]
        # random batching into flushes
        i = 0
        handover_at = rng.randrange(0, max(1, len(blocks) - 1))     # one flush per scenario overlaps with a second writer
        while i < len(blocks):
            k = rng.choice([1, 1, 2, 3, 5])
            batch = blocks[i:i + k]
            i += k
            late = None
            if i > handover_at and i < len(blocks) and handover_at >= 0:
                # two writers of one store (miner thread / networking thread): while this flush is between having written its
                # rows and emptying the buffer, another thread hands over the next block and then flushes itself
                late = blocks[i]
                i += 1
                handover_at = -1
            for b in batch:
                store.add_block_to_buffer(b)
            try:
                if late is not None:
                    concurrent_flush(store, late)
                    res.count("flush_overlapping_a_handover")
                else:
                    store.flush_blocks_to_disk()
                r = "ok"
            except Exception as e:
                r = "fail"
                res.violations.append({"kind": "flushing accepted blocks raised: %r" % e, "scenario": si})
            ops.append("store write " + " ".join(hx(b.serialize()) for b in batch))
            impl.append(r)
            written += batch
            if late is not None:
                ops.append("store write " + hx(late.serialize()))
                impl.append(r)
                written.append(late)
            # restart: reopen the file, read, rebuild
            store.close()
            store = blockstore.BlockStore(path)
            got = list(store.read_blocks_from_disk())
            ops.append("store read")
            impl.append(read_line(got))
            res.case((si, i), nontrivial=True)
            res.count("flushes")
            res.count("batch:%d" % len(batch))
            # ---- monitor: the property on the implementation
            problems = []
            by_id = {b.hash(): b for b in written}
            got_ids = [b.hash() for b in got]
            if sorted(got_ids) != sorted(by_id.keys()):
                problems.append("the set of blocks read back differs from the set written")
            for b in got:
                w = by_id.get(b.hash())
                if w is not None and b.serialize() != w.serialize():
                    problems.append("a block read back is not byte-identical to the block written")
                    break
            pos = {h: n_ for n_, h in enumerate(got_ids)}
            for b in got:
                p = b.previous_block_hash
                if p != b"\x00" * 32 and p in pos and pos[p] > pos[b.hash()]:
                    problems.append("a child is read back before its parent")
                    break
            # the node's own start-up routine on the reopened store (scripts/utils.read_chain_from_disk prints one line per
            # block it has to skip)
            import contextlib
            import io as _io
            import skepticoin.scripts.utils as _su
            saved_instance = getattr(blockstore.DefaultBlockStore, "instance", None)
            blockstore.DefaultBlockStore.instance = store
            out_ = _io.StringIO()
            try:
                with contextlib.redirect_stdout(out_):
                    cs2 = _su.read_chain_from_disk()
                skipped = out_.getvalue().count("Skipping block_hash")
            except Exception as e:
                problems.append("the node's start-up routine raised on the reopened store: %r" % e)
                cs2, skipped = rebuild(got)
            finally:
                blockstore.DefaultBlockStore.instance = saved_instance
            orig, _ = rebuild(written)
            if skipped:
                problems.append("rebuilding the chain state skips %d block(s)" % skipped)
            if chain.state_digest(cs2, full=False).split(" ", 1)[1] != chain.state_digest(orig, full=False).split(" ", 1)[1]:
                problems.append("the rebuilt ledger state differs at some block")
            if cs2.current_chain_hash and orig.current_chain_hash and \
                    cs2.head().height != orig.head().height:
                problems.append("the rebuilt head has another height")
            shared = shared_tx_in_two_blocks(written)
            for msg in problems[:2]:
                v = {"kind": msg, "scenario": si, "flushed": len(written), "blocks": [b.serialize().hex() for b in written][:40]}
                if shared:
                    v["finding"] = "D2-shared-transaction"
                res.violations.append(v)
            res.count("shared_tx_history" if shared else "plain_history")
        if len(res.samples) < 3:
            res.sample({"blocks": len(written), "forks": len(tree.cs.heads), "shared_tx": shared_tx_in_two_blocks(written),
                        "read": impl[-1][:100]})
        store.close()
        os.remove(path)
        model = ctx.driver.ask(ops)
        kit.compare(res, ops, impl, model)
    chain.unpatch()
    res.rule = ("the real BlockStore on a scratch file: trees rooted at the real genesis with forks, reorganisations and signed "
                "multi-input/multi-output spends; every third scenario puts the same pending transaction into competing fork "
                "blocks; the arrival order is cut into random batches (1-5 blocks per flush); after every flush the file is "
                "reopened, read_blocks_from_disk and the rebuild of scripts/utils.read_chain_from_disk run; the read result "
                "(ids, encodings, transaction ids) is compared with the relational model; monitor: same block set, "
                "byte-identical content, parents before children, rebuilt unspent sets / indexes at every block, head height. "
                "Distinct non-trivial = flushes")
    return res

"""C01 — correspondence and monitor: see harness/ledger.py"""
from . import kit, ledger


def run(ctx):
    res = ledger.run_ledger(ctx, "C01")
    kit.optimised_interpreter_probe(res, "ledger")
    from . import c09
    c09.side_branch_probe(ctx, res, ["wrong_key_sig", "missing_output", "dup_ref_across_txs", "spent_on_branch"], "C01")
    return res

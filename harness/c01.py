"""C01 — correspondence and monitor: see harness/ledger.py"""
from . import ledger


def run(ctx):
    return ledger.run_ledger(ctx, "C01")

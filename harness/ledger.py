"""ledger — candidate blocks (valid and with exactly one rule broken) on any stored parent of a
random block tree; the real CoinState.add_block against the model's addBlock; monitors for
C01 / C02 / C05 evaluated on the implementation's verdicts."""
import hashlib
import struct

from . import kit, chain
from .kit import hx

import skepticoin.consensus as consensus
from skepticoin.coinstate import CoinState
from skepticoin.datatypes import (
    Block, BlockHeader, BlockSummary, Input, Output, OutputReference, Transaction, PowEvidence)
from skepticoin.signing import SECP256k1PublicKey, SECP256k1Signature, CoinbaseData, SignableEquivalent
from skepticoin.params import MAX_SASHIMI

NULLREF = OutputReference(b"\x00" * 32, 0)


def coinbase(height, value, pk, data=b"", split=None, keys=None):
    """reward transaction; `split` = number of outputs the value is spread over"""
    if split and split > 1 and value >= split:
        base = value // split
        vals = [base] * (split - 1) + [value - base * (split - 1)]
        outs = [Output(v, keys.pk(i) if keys else pk) for i, v in enumerate(vals)]
    else:
        outs = [Output(value, pk)]
    return Transaction([Input(NULLREF, CoinbaseData(height, data))], outs)


def fees_of(txs, utxo):
    return sum(sum(utxo[i.output_reference].value for i in t.inputs) - sum(o.value for o in t.outputs) for t in txs)


class Crafter:
    """builds a block on `parent_hash` with full control over every field; searches a nonce so
    that the proof-of-work check is not what decides (unless asked otherwise)"""

    def __init__(self, tree):
        self.tree = tree
        self.keys = tree.keys
        self.rng = tree.rng

    @property
    def cs(self):
        return self.tree.cs          # always the tree's current state (the tree may keep growing)

    def craft(self, parent_hash, txs=None, others=None, reward_delta=0, reward_value=None, cb_height=None, split=None,
              height=None, timestamp=None, target=None, merkle=None, miner=0, post=None, want_pow=True,
              evidence_view=None, max_tries=60000):
        cs = self.cs
        parent = cs.block_by_hash[parent_hash]
        utxo = self.tree.utxo(parent_hash)
        h = parent.height + 1
        if others is None:
            others = []
        if txs is None:
            try:
                fees = fees_of(others, utxo)
            except KeyError:
                fees = 0
            value = reward_value if reward_value is not None else chain.subsidy(h) + fees + reward_delta
            cb = coinbase(h if cb_height is None else cb_height, max(value, 0), self.keys.pk(miner), split=split,
                          keys=self.keys)
            txs = [cb] + list(others)
        ts = timestamp if timestamp is not None else parent.timestamp + self.rng.randrange(1, 100)
        view = chain.view(cs, parent_hash)
        if target is None:
            try:
                target = consensus.calc_target(view, h, ts, parent)
            except Exception:
                target = parent.target
        root = merkle if merkle is not None else consensus.calc_merkle_root_hash(txs)
        sh = height if height is not None else h
        eview = evidence_view or view
        start = self.rng.randrange(0, 1 << 30)
        best = None
        for nonce in range(start, start + max_tries):
            s = BlockSummary(sh, parent_hash, root, ts, target, nonce)
            try:
                ev = consensus.construct_pow_evidence(eview, s, sh, txs)
            except Exception:
                ev = PowEvidence(b"\x11" * 32, b"\x22" * 32, b"\x33" * 32)
            b = Block(BlockHeader(s, ev), list(txs))
            if post is not None:
                b = post(b)
            best = b
            below = b.header.hash() < b.target
            if below == want_pow:
                return b
        return best


def classes_for(focus):
    c01 = ["valid", "valid_multi", "missing_output", "spent_on_branch", "other_fork_output", "dup_ref_in_tx",
           "dup_ref_across_txs", "null_ref", "wrong_key_sig", "wrong_key_sig_first_of_two", "wrong_key_sig_last_of_two",
           "outputs_edited", "refs_edited", "placeholder_sig", "known_header_swapped_body",
           "coinbasedata_sig", "bad_curve_point", "intra_block_spend", "dup_tx", "valid_many_inputs", "wrong_key_sig_many",
           "wrong_key_sig_last_fee_covers", "missing_last_fee_covers"]
    c02 = ["valid", "valid_multi", "reward_plus1", "reward_exact_fees", "reward_minus1", "reward_prev_era", "fees_wrong_state",
           "reward_split_exact", "reward_split_plus1", "reward_split_big", "reward_wrap64",
           "reward_claims_sibling_fees", "null_parent_rogue", "height_zero_reported", "zero_output", "max_output", "over_max_output", "u64_output", "total_over_max", "overspend_by_1",
           "reward_no_fee_tx", "known_header_swapped_body",
           # one output paid out twice within a block creates value just as an inflated reward does
           "dup_ref_across_txs", "dup_ref_in_tx", "intra_block_spend", "dup_tx"]
    c05 = ["valid", "valid_multi", "pow_fails", "target_plus1", "target_minus1", "stale_target", "height_plus1",
           "height_minus1", "cb_height_wrong", "txs_reordered", "ts_equal_parent", "ts_before_parent", "ts_future_31", "ts_future_30",
           "ev_summary_hash", "ev_chain_sample", "ev_block_hash", "ev_other_fork", "ev_forged_consistent", "merkle_wrong",
           "txs_dropped", "no_txs", "orphan", "known_header_swapped_body", "height_encoding_short",
           "null_parent_rogue", "height_zero_reported", "one_byte_over_block_size", "exactly_at_block_size"]
    c16 = ["null_parent_rogue", "height_zero_reported", "valid", "valid_multi", "reward_plus1", "reward_exact_fees", "reward_prev_era", "reward_split_plus1", "reward_wrap64",
           "reward_claims_sibling_fees", "reward_no_fee_tx", "fees_wrong_state", "reward_split_big"]
    return {"C01": c01, "C02": c02, "C05": c05, "C16": c16, "all": sorted(set(c01 + c02 + c05))}[focus]


EXPECT_VALID = {"prelude_valid", "valid", "valid_multi", "valid_many_inputs", "reward_exact_fees", "reward_minus1", "max_output", "ts_future_30",
                "reward_split_exact"}
# classes whose verdict depends on the sampled data (not asserted by the monitor, only compared)
UNDETERMINED = {"ev_other_fork", "fees_wrong_state", "one_byte_over_block_size", "exactly_at_block_size"}


def make_candidate(cr, klass, parent_hash, now_holder):
    """returns (block, now) for the class, or None when the state offers no material for it"""
    t, rng, keys, cs = cr.tree, cr.rng, cr.keys, cr.cs
    parent = cs.block_by_hash[parent_hash]
    utxo = t.utxo(parent_hash)
    now = parent.timestamp + 200

    def one_tx(exclude=()):
        return t.random_tx(parent_hash, exclude=exclude)

    if klass == "valid":
        return cr.craft(parent_hash, others=t.random_txs(parent_hash, rng.randrange(0, 2))), now
    if klass == "valid_multi":
        return cr.craft(parent_hash, others=t.random_txs(parent_hash, 3)), now
    if klass == "missing_output":
        tx = one_tx()
        if tx is None:
            return None
        bad = chain.make_tx(keys, {**dict(utxo.items()), OutputReference(b"\x77" * 32, 1): Output(5, keys.pk(1))},
                            [OutputReference(b"\x77" * 32, 1)], [(5, 0)])
        return cr.craft(parent_hash, others=[tx, bad]), now
    if klass == "spent_on_branch":
        # an output spent by an ancestor of the parent (present in an older state, absent now)
        b = parent
        while b.previous_block_hash != b"\x00" * 32:
            for tx in b.transactions[1:]:
                for i in tx.inputs:
                    r = i.output_reference
                    old = t.utxo(b.previous_block_hash)
                    if r in old and r not in utxo and old[r].public_key.public_key in keys.pks:
                        bad = chain.make_tx(keys, old, [r], [(old[r].value, 0)])
                        return cr.craft(parent_hash, others=[bad]), now
            b = cs.block_by_hash[b.previous_block_hash]
        return None
    if klass == "other_fork_output":
        # an output that is unspent at some other block but not at the parent; other blocks are tried in a random order,
        # those that had arrived before the parent (the heads of that time) first half of the time
        order_ = list(t.blocks)
        pos_ = {b.hash(): n for n, b in enumerate(order_)}
        earlier = [b for b in order_ if pos_[b.hash()] < pos_.get(parent_hash, 0)]
        rng.shuffle(order_)
        if earlier and rng.random() < 0.5:
            earlier.sort(key=lambda b: -b.height)
            order_ = earlier + order_
        for b2 in order_:
            h2 = b2.hash()
            if h2 == parent_hash or h2 not in t.own:
                continue
            u2 = t.own[h2]
            cands_ = [(r, o) for r, o in u2.items() if r not in utxo and o.public_key.public_key in keys.pks and o.value > 0]
            if cands_:
                r, o = rng.choice(cands_)
                bad = chain.make_tx(keys, u2, [r], [(o.value, 0)])
                return cr.craft(parent_hash, others=[bad]), now
        return None
    if klass == "dup_ref_in_tx":
        sp = t.spendable(parent_hash)
        if not sp:
            return None
        r, o = rng.choice(sp)
        bad = chain.make_tx(keys, utxo, [r, r], [(o.value, 0)])
        return cr.craft(parent_hash, others=[bad]), now
    if klass == "dup_ref_across_txs":
        sp = t.spendable(parent_hash)
        if not sp:
            return None
        r, o = rng.choice(sp)
        a = chain.make_tx(keys, utxo, [r], [(o.value, 0)])
        b2 = chain.make_tx(keys, utxo, [r], [(o.value - 1 if o.value > 1 else o.value, 1)])
        return cr.craft(parent_hash, others=[a, b2]), now
    if klass == "null_ref":
        sp = t.spendable(parent_hash)
        if not sp:
            return None
        r, o = rng.choice(sp)
        u2 = dict(utxo.items())
        u2[NULLREF] = Output(1, keys.pk(0))
        bad = chain.make_tx(keys, u2, [r, NULLREF], [(o.value, 0)])
        return cr.craft(parent_hash, others=[bad]), now
    if klass == "wrong_key_sig":
        sp = t.spendable(parent_hash)
        if not sp:
            return None
        r, o = rng.choice(sp)
        owner = keys.index_of(o.public_key.public_key)
        bad = chain.make_tx(keys, utxo, [r], [(o.value, 0)], signer_override={0: (owner + 1) % len(keys.pks)})
        return cr.craft(parent_hash, others=[bad]), now
    if klass in ("valid_many_inputs", "wrong_key_sig_many"):
        # a spend that sweeps up many outputs at once (16 … 40 inputs): correctly signed, or with one input — or every input —
        # signed by a key that does not own the output spent
        sp = [(r, o) for r, o in t.spendable(parent_hash) if o.value > 0]
        if len(sp) < 16:
            return None
        rng.shuffle(sp)
        k = rng.choice([16, 17, 20, 32, 33, 40])
        chosen = sp[:min(k, len(sp))]
        total = sum(o.value for _, o in chosen)
        override = None
        if klass == "wrong_key_sig_many":
            wrong = list(range(len(chosen))) if rng.random() < 0.4 else [rng.randrange(0, len(chosen))]
            override = {i: (keys.index_of(chosen[i][1].public_key.public_key) + 1) % len(keys.pks) for i in wrong}
        tx = chain.make_tx(keys, utxo, [r for r, _ in chosen], [(total - 1, 0)], signer_override=override)
        return cr.craft(parent_hash, others=[tx]), now
    if klass in ("wrong_key_sig_last_fee_covers", "missing_last_fee_covers"):
        # two inputs, the outputs no more than the FIRST input is worth (the fee is at least the second input): the second
        # input is signed by a foreign key / does not exist
        sp = [(r, o) for r, o in t.spendable(parent_hash) if o.value > 1]
        if len(sp) < 2:
            return None
        rng.shuffle(sp)
        (r1, o1), (r2, o2) = sp[0], sp[1]
        if klass.startswith("wrong"):
            owner = keys.index_of(o2.public_key.public_key)
            bad = chain.make_tx(keys, utxo, [r1, r2], [(o1.value, 0)], signer_override={1: (owner + 1) % len(keys.pks)})
        else:
            ghost = OutputReference(b"\x77" * 32, 1)
            bad = chain.make_tx(keys, {**dict(utxo.items()), ghost: Output(5, keys.pk(1))}, [r1, ghost], [(o1.value, 0)])
        return cr.craft(parent_hash, others=[bad]), now
    if klass in ("wrong_key_sig_first_of_two", "wrong_key_sig_last_of_two"):
        sp = t.spendable(parent_hash)
        if len(sp) < 2:
            return None
        rng.shuffle(sp)
        (r1, o1), (r2, o2) = sp[0], sp[1]
        which = 0 if klass == "wrong_key_sig_first_of_two" else 1
        victim = (o1, o2)[which]
        owner = keys.index_of(victim.public_key.public_key)
        other = keys.index_of((o1, o2)[1 - which].public_key.public_key)
        thief = other if other != owner else (owner + 1) % len(keys.pks)
        bad = chain.make_tx(keys, utxo, [r1, r2], [(o1.value + o2.value, thief)], signer_override={which: thief})
        return cr.craft(parent_hash, others=[bad]), now
    if klass == "outputs_edited":
        tx = one_tx()
        if tx is None:
            return None
        now_holder.append(cr.craft(parent_hash, others=[tx]))      # the genuine spend is validated first
        outs = list(tx.outputs)
        k = rng.randrange(0, len(outs))
        if rng.random() < 0.5 and outs[k].value > 1:
            outs[k] = Output(outs[k].value - 1, outs[k].public_key)
        else:
            outs[k] = Output(outs[k].value, keys.pk(keys.index_of(outs[k].public_key.public_key) + 1))
        return cr.craft(parent_hash, others=[Transaction(tx.inputs, outs)]), now
    if klass == "refs_edited":
        sp = t.spendable(parent_hash)
        if len(sp) < 2:
            return None
        rng.shuffle(sp)
        (r1, o1), (r2, o2) = sp[0], sp[1]
        tx = chain.make_tx(keys, utxo, [r1], [(min(o1.value, o2.value), 0)])
        now_holder.append(cr.craft(parent_hash, others=[tx]))
        bad = Transaction([Input(r2, tx.inputs[0].signature)], tx.outputs)
        return cr.craft(parent_hash, others=[bad]), now
    if klass in ("placeholder_sig", "coinbasedata_sig"):
        tx = one_tx()
        if tx is None:
            return None
        sig = SignableEquivalent() if klass == "placeholder_sig" else CoinbaseData(3, b"x")
        ins = list(tx.inputs)
        ins[rng.randrange(0, len(ins))] = Input(ins[0].output_reference, sig)
        return cr.craft(parent_hash, others=[Transaction(ins, tx.outputs)]), now
    if klass == "bad_curve_point":
        garbage = [(r, o) for r, o in utxo.items() if o.public_key.public_key in chain.GARBAGE_KEYS]
        if not garbage:
            return None
        r, o = rng.choice(garbage)
        outs = [Output(o.value, keys.pk(0))]
        unsigned = Transaction([Input(r, SignableEquivalent())], outs)
        msg = unsigned.signable_equivalent().serialize()
        sig = b"\x01" * 64 if rng.random() < 0.3 else chain.keyless_signature_for(msg, o.public_key.public_key)
        bad = Transaction([Input(r, SECP256k1Signature(sig))], outs)
        return cr.craft(parent_hash, others=[bad]), now
    if klass == "intra_block_spend":
        tx = one_tx()
        if tx is None:
            return None
        r = OutputReference(tx.hash(), 0)
        u2 = dict(utxo.items())
        u2[r] = tx.outputs[0]
        tx2 = chain.make_tx(keys, u2, [r], [(tx.outputs[0].value, 1)])
        return cr.craft(parent_hash, others=[tx, tx2]), now
    if klass == "dup_tx":
        tx = one_tx()
        if tx is None:
            return None
        return cr.craft(parent_hash, others=[tx, tx]), now
    # ---- values
    if klass in ("reward_plus1", "reward_exact_fees", "reward_minus1"):
        others = t.random_txs(parent_hash, rng.randrange(0, 3))
        d = {"reward_plus1": 1, "reward_exact_fees": 0, "reward_minus1": -1}[klass]
        return cr.craft(parent_hash, others=others, reward_delta=d), now
    if klass == "reward_prev_era":
        # the first block of a subsidy era claiming what its parent's era allowed
        h = parent.height + 1
        if chain.subsidy(h - 1) <= chain.subsidy(h):
            return None
        others = t.random_txs(parent_hash, rng.randrange(0, 3))
        return cr.craft(parent_hash, others=others, reward_delta=chain.subsidy(h - 1) - chain.subsidy(h)), now
    if klass in ("reward_split_exact", "reward_split_plus1", "reward_split_big"):
        others = t.random_txs(parent_hash, rng.randrange(0, 3))
        k = rng.choice([2, 3, 3, 4, 5])
        if klass == "reward_split_big":
            # every adjacent pair fits under the limit, the total does not
            h = parent.height + 1
            lim = chain.subsidy(h) + fees_of(others, utxo)
            vals = [lim // 2] * rng.choice([3, 4, 5])
            cb = Transaction([Input(NULLREF, CoinbaseData(h, b""))], [Output(v, keys.pk(i)) for i, v in enumerate(vals)])
            return cr.craft(parent_hash, txs=[cb] + others), now
        d = 0 if klass == "reward_split_exact" else 1
        return cr.craft(parent_hash, others=others, reward_delta=d, split=k), now
    if klass == "reward_wrap64":
        # amounts as 64-bit patterns on the wire: a reward whose outputs add up to the allowed amount modulo 2^64 (or when the
        # top bit is read as a sign)
        others = t.random_txs(parent_hash, rng.randrange(0, 2))
        h = parent.height + 1
        lim = chain.subsidy(h) + fees_of(others, utxo)
        x = rng.choice([1, 5, 2 ** 62, 2 ** 63 - lim - 1, 2 ** 63 - lim, 2 ** 63])
        vals = [(lim + x) % 2 ** 64, 2 ** 64 - x]
        if rng.random() < 0.3:
            vals.reverse()
        cb = chain.wire_transaction([Input(NULLREF, CoinbaseData(h, b""))], [(v, keys.pk(i)) for i, v in enumerate(vals)])
        return cr.craft(parent_hash, txs=[cb] + others), now
    if klass == "reward_claims_sibling_fees":
        # two competing blocks on one parent with the same number of transactions and the same last transaction; the first
        # (validated first) carries a spend that leaves a large fee, the second a conflicting spend of the same output that leaves
        # none — and claims the first one's fees
        sp = [(r, o) for r, o in t.spendable(parent_hash) if o.value >= 1000]
        if len(sp) < 2:
            return None
        rng.shuffle(sp)
        (r1, o1), (r2, o2) = sp[0], sp[1]
        rich = chain.make_tx(keys, utxo, [r1], [(o1.value - o1.value // 2, 0)])
        poor = chain.make_tx(keys, utxo, [r1], [(o1.value, 1)])
        last = chain.make_tx(keys, utxo, [r2], [(o2.value - 1, 2)])
        h = parent.height + 1
        now_holder.append(cr.craft(parent_hash, others=[rich, last]))
        return cr.craft(parent_hash, others=[poor, last], reward_value=chain.subsidy(h) + o1.value // 2 + 1), now
    if klass == "reward_no_fee_tx":
        tx = t.random_tx(parent_hash, fee_choices=(1000, 5000))
        if tx is None:
            return None
        # claims the fee of a transaction that is not in the block
        f = fees_of([tx], utxo)
        if f <= 0:
            return None
        return cr.craft(parent_hash, others=[], reward_delta=f), now
    if klass == "fees_wrong_state":
        # fees as they would be at the head instead of at the parent: the same reference may have another value there
        head = cs.current_chain_hash
        if head == parent_hash:
            return None
        tx = t.random_tx(parent_hash, fee_choices=(7,))
        if tx is None:
            return None
        uh = t.utxo(head)
        try:
            f_head = fees_of([tx], uh)
        except KeyError:
            f_head = fees_of([tx], utxo) + 3
        h = parent.height + 1
        return cr.craft(parent_hash, others=[tx], reward_value=chain.subsidy(h) + f_head), now
    if klass in ("zero_output", "max_output", "over_max_output", "u64_output", "total_over_max", "overspend_by_1"):
        sp = t.spendable(parent_hash)
        if not sp:
            return None
        r, o = max(sp, key=lambda x: x[1].value)
        if klass == "zero_output":
            outs = [(o.value, 0), (0, 1)]
        elif klass == "max_output":
            return None if o.value < MAX_SASHIMI else (cr.craft(parent_hash, others=[chain.make_tx(keys, utxo, [r], [(MAX_SASHIMI, 0)])]), now)
        elif klass == "over_max_output":
            outs = [(MAX_SASHIMI + 1, 0)]
        elif klass == "u64_output":
            outs = [(2 ** 64 - 1, 0)]
        elif klass == "total_over_max":
            outs = [(MAX_SASHIMI, 0), (1, 1)]
        else:
            outs = [(o.value + 1, 0)]
        return cr.craft(parent_hash, others=[chain.make_tx(keys, utxo, [r], outs)]), now
    # ---- header
    if klass == "null_parent_rogue":
        # a block that names the all-zero hash as its parent (as only the genesis block does) offered to a chain that exists: its
        # own target (the easiest), a height above the tip, a reward of a million coin, made-up evidence
        tip_h = cs.head().height
        h = tip_h + rng.choice([1, 5]) if rng.random() < 0.7 else rng.choice([0, 1, parent.height + 1])
        cb = coinbase(h, rng.choice([chain.subsidy(h) + 1, 10 ** 14]), keys.pk(0))
        root = consensus.calc_merkle_root_hash([cb])
        s_ = BlockSummary(h, b"\x00" * 32, root, parent.timestamp + 50, b"\xff" * 32, rng.randrange(0, 1 << 30))
        return Block(BlockHeader(s_, PowEvidence(b"\x11" * 32, b"\x22" * 32, b"\x33" * 32)), [cb]), now
    if klass == "height_zero_reported":
        # a block on a stored parent that reports height 0 (header and reward data), paying one unit more than height 0 allows
        return cr.craft(parent_hash, others=[], height=0, cb_height=0, reward_value=chain.subsidy(0) + 1), now
    if klass in ("one_byte_over_block_size", "exactly_at_block_size"):
        # a valid block; the configured size bound is set to its size minus one / to its size when it is offered
        return cr.craft(parent_hash, others=t.random_txs(parent_hash, rng.randrange(0, 3))), now
    if klass == "height_encoding_short":
        # the bytes of a valid block with the height field re-written in the textbook variable-length form, which is one octet
        # shorter than the network's whenever the bit length of the height is a multiple of 7 (64 … 127, 8192 … 16383)
        h = parent.height + 1
        if h.bit_length() % 7 != 0:
            return None
        b = cr.craft(parent_hash, others=t.random_txs(parent_hash, rng.randrange(0, 2)))
        raw = b.serialize()
        k = h.bit_length() // 7 + 1                  # octets the network writes
        short = bytes(((h >> (7 * j)) & 0x7f) | (0x80 if j > 0 else 0) for j in reversed(range(k - 1)))
        at = raw.find(b.header.summary.serialize())       # (the summary, which starts with the height, sits behind a version octet)
        assert at >= 0 and raw[at:at + k] == bytes(((h >> (7 * j)) & 0x7f) | (0x80 if j > 0 else 0) for j in reversed(range(k)))
        return raw[:at] + short + raw[at + k:], now
    if klass == "pow_fails":
        if parent.target == b"\xff" * 32:
            return None
        return cr.craft(parent_hash, want_pow=False, max_tries=50), now
    if klass in ("target_plus1", "target_minus1"):
        ts = parent.timestamp + rng.randrange(1, 100)
        tg = consensus.calc_target(chain.view(cs, parent_hash), parent.height + 1, ts, parent)
        n = int.from_bytes(tg, "big") + (1 if klass == "target_plus1" else -1)
        if not (0 < n < 2 ** 256):
            return None
        return cr.craft(parent_hash, timestamp=ts, target=n.to_bytes(32, "big")), now
    if klass == "stale_target":
        I = consensus.BLOCKS_BETWEEN_TARGET_READJUSTMENT
        if (parent.height + 1) % I != 0:
            return None
        ts = parent.timestamp + rng.randrange(1, 100)
        tg = consensus.calc_target(chain.view(cs, parent_hash), parent.height + 1, ts, parent)
        if tg == parent.target:
            return None
        return cr.craft(parent_hash, timestamp=ts, target=parent.target), now
    if klass in ("height_plus1", "height_minus1"):
        d = 1 if klass == "height_plus1" else -1
        hh = parent.height + 1 + d
        if hh <= 0:
            return None
        match = rng.random() < 0.5
        return cr.craft(parent_hash, height=hh, cb_height=hh if match else None), now
    if klass == "cb_height_wrong":
        return cr.craft(parent_hash, cb_height=parent.height + 1 + rng.choice([-1, 1, 7])), now
    if klass == "ts_equal_parent":
        return cr.craft(parent_hash, timestamp=parent.timestamp), now
    if klass == "ts_before_parent":
        return cr.craft(parent_hash, timestamp=parent.timestamp - rng.randrange(1, 50)), now
    if klass == "ts_future_31":
        return cr.craft(parent_hash, timestamp=now + 31), now
    if klass == "ts_future_30":
        return cr.craft(parent_hash, timestamp=now + 30), now
    if klass in ("ev_summary_hash", "ev_chain_sample", "ev_block_hash"):
        def post(b):
            e = b.header.pow_evidence
            f = {"ev_summary_hash": "summary_hash", "ev_chain_sample": "chain_sample", "ev_block_hash": "block_hash"}[klass]
            v = bytearray(getattr(e, f))
            v[rng.randrange(0, len(v))] ^= 1 << rng.randrange(0, 8)
            kw = dict(summary_hash=e.summary_hash, chain_sample=e.chain_sample, block_hash=e.block_hash)
            kw[f] = bytes(v)
            return Block(BlockHeader(b.header.summary, PowEvidence(**kw)), b.transactions)
        return cr.craft(parent_hash, post=post), now
    if klass == "ev_forged_consistent":
        # evidence that is consistent in itself (sample and block hash derived, as prescribed, from the stated summary hash)
        # but whose summary hash is not the scrypt hash of the summary; ground over nonces like an honest block
        view = chain.view(cs, parent_hash)

        def post(b):
            fake = hashlib.sha256(b"forged" + b.header.pow_evidence.summary_hash).digest()
            try:
                ev = consensus.construct_pow_evidence_after_scrypt(fake, view, b.header.summary, b.header.summary.height,
                                                                   b.transactions)
            except Exception:
                return b
            return Block(BlockHeader(b.header.summary, ev), b.transactions)
        return cr.craft(parent_hash, post=post), now
    if klass == "ev_other_fork":
        others = [h for h in cs.heads.keys() if h != parent_hash and cs.block_by_hash[h].height >= parent.height]
        if not others:
            return None
        return cr.craft(parent_hash, evidence_view=_FakeView(cs, rng.choice(others))), now
    if klass == "known_header_swapped_body":
        # the header of a block that is already stored (same id), with another body: a reward of another amount, a spend
        # dropped, or a stored spend from elsewhere added
        stored = [b for b in t.blocks if b.height > max(0, consensus.MAX_KNOWN_HASH_HEIGHT)]
        if not stored:
            return None
        b = rng.choice(stored)
        cb = b.transactions[0]
        how = rng.choice(["reward", "reward", "drop", "extra"])
        body = list(b.transactions)
        if how == "drop" and len(body) > 1:
            del body[rng.randrange(1, len(body))]
        elif how == "extra":
            extra = t.random_tx(b.previous_block_hash)
            if extra is None:
                how = "reward"
            else:
                body.append(extra)
        if how == "reward" or body == list(b.transactions):
            value = rng.choice([cb.outputs[0].value + 1, consensus.MAX_SASHIMI, 2 * cb.outputs[0].value + 7])
            body[0] = Transaction(list(cb.inputs), [Output(value, cb.outputs[0].public_key)] + list(cb.outputs[1:]))
        blk = Block.deserialize(Block(b.header, body).serialize())
        assert blk.hash() == b.hash()
        if blk.serialize() == b.serialize():
            return None                       # nothing was swapped: that is the stored block itself
        return blk, b.timestamp + 200
    if klass == "merkle_wrong":
        return cr.craft(parent_hash, merkle=bytes(rng.getrandbits(8) for _ in range(32))), now
    if klass == "txs_reordered":
        others = t.random_txs(parent_hash, 2)
        if len(others) < 2:
            return None
        genuine = cr.craft(parent_hash, others=others)
        now_holder.append(genuine)                                   # the genuine block is validated first
        txs_ = list(genuine.transactions)
        txs_[1], txs_[2] = txs_[2], txs_[1]
        # a sibling mined for the reordered body, carrying the commitment of the original order
        return cr.craft(parent_hash, txs=txs_, merkle=genuine.merkle_root_hash, timestamp=genuine.timestamp), now
    if klass == "txs_dropped":
        others = t.random_txs(parent_hash, 2)
        if not others:
            return None

        def post(b):
            return Block(b.header, b.transactions[:-1])
        return cr.craft(parent_hash, others=others, post=post), now
    if klass == "no_txs":
        def post(b):
            return Block(b.header, [])
        return cr.craft(parent_hash, post=post), now
    if klass == "orphan":
        def post(b):
            s = b.header.summary
            s2 = BlockSummary(s.height, bytes(rng.getrandbits(8) for _ in range(32)), s.merkle_root_hash, s.timestamp,
                              s.target, s.nonce)
            return Block(BlockHeader(s2, b.header.pow_evidence), b.transactions)
        return cr.craft(parent_hash, post=post), now
    raise ValueError(klass)


class _FakeView:
    """evidence sampled from another fork's by-height index"""

    def __init__(self, cs, other_head):
        self.block_by_height_by_hash = _Const(cs.block_by_height_by_hash[other_head])
        self.current_chain_hash = other_head


class _Const:
    def __init__(self, v):
        self.v = v

    def __getitem__(self, k):
        return self.v


# ------------------------------------------------------------------ monitors (implementation only)

def independent_target(cs, block):
    """the retargeting rule re-derived from the block's own ancestors by walking parent links"""
    I = consensus.BLOCKS_BETWEEN_TARGET_READJUSTMENT
    T = consensus.DESIRED_TARGET_READJUSTMENT_TIMESPAN
    parent = cs.block_by_hash[block.previous_block_hash]
    h = parent.height + 1
    if h % I != 0:
        return parent.target
    a = parent
    while a.height > h - I:
        a = cs.block_by_hash[a.previous_block_hash]
    elapsed = block.timestamp - a.timestamp
    return min(int.from_bytes(parent.target, "big") * elapsed // T, 2 ** 256 - 1).to_bytes(32, "big")


def independent_evidence(cs, block):
    """the evidence re-derived from the block's summary, its own ancestors (found by walking parent links) and its
    transaction list — without any of the repository's evidence / sampling code"""
    import hashlib
    from skepticoin.serialization import serialize_list
    s = block.header.summary
    height = s.height
    summary_hash = consensus.scrypt(s.serialize(), height.to_bytes(8, "big"))
    if height == 0:
        sample = b"\x00" * 32
    else:
        anc = {}
        a = cs.block_by_hash[s.previous_block_hash]
        while True:
            anc[a.height] = a
            if a.previous_block_hash == b"\x00" * 32 or a.previous_block_hash not in cs.block_by_hash:
                break
            a = cs.block_by_hash[a.previous_block_hash]
        parts, cur = [], summary_hash
        for i in range(8):
            sel = anc[int.from_bytes(cur[:8], "big") % height]
            ser = sel.serialize()
            start = int.from_bytes(cur[8:12], "big") % len(ser)
            piece = b""
            while len(piece) < 4:
                piece += ser[start:start + 4 - len(piece)]
                start = 0
            parts.append(piece)
            cur = hashlib.sha256(hashlib.sha256(cur + piece).digest()).digest()
        sample = b"".join(parts)
    block_hash = hashlib.blake2b(summary_hash + sample + serialize_list(block.transactions), digest_size=32).digest()
    return summary_hash, sample, block_hash


def monitor_accepted(res, prop, cs, block, now, klass, cs_after, own=None):
    """the property's predicate on a block the implementation accepted; `own`: the harness's own ledger per block"""
    parent_hash = block.previous_block_hash
    bad = []
    if parent_hash not in cs.block_by_hash:
        bad.append("accepted with unknown parent")
        return bad
    parent = cs.block_by_hash[parent_hash]
    utxo = own[parent_hash] if own is not None and parent_hash in own else cs.unspent_transaction_outs_by_hash[parent_hash]
    if prop in ("C01", "all"):
        seen = set()
        created = {(t.hash(), i) for t in block.transactions for i in range(len(t.outputs))}
        for tx in block.transactions[1:]:
            msg = tx.signable_equivalent().serialize()
            for i in tx.inputs:
                r = i.output_reference
                if r not in utxo:
                    bad.append("spends an output that is not unspent in the parent's state")
                    continue
                if (r.hash, r.index) in seen:
                    bad.append("output spent twice in the block")
                seen.add((r.hash, r.index))
                if r.hash == b"\x00" * 32 and r.index == 0:
                    bad.append("null reference spent")
                if not isinstance(i.signature, SECP256k1Signature) or not chain.verifies(
                        utxo[r].public_key.public_key, msg, i.signature.signature):
                    bad.append("signature does not verify under the spent output's key")
                if (r.hash, r.index) in created and r not in utxo:
                    bad.append("spends an output created in the same block")
    if prop in ("C02", "C16", "all"):
        try:
            fees = fees_of(block.transactions[1:], utxo)
            sub = chain.subsidy(block.height)
            if sum(o.value for o in block.transactions[0].outputs) > sub + fees:
                bad.append("reward exceeds subsidy plus fees")
            for tx in block.transactions[1:]:
                tot = sum(o.value for o in tx.outputs)
                if not all(0 < o.value <= 2_099_999_986_350_000 for o in tx.outputs):
                    bad.append("output value outside (0, max]")
                if not (0 < tot <= 2_099_999_986_350_000):
                    bad.append("output total outside (0, max]")
                if tot > sum(utxo[i.output_reference].value for i in tx.inputs):
                    bad.append("outputs exceed inputs")
            after = cs_after.unspent_transaction_outs_by_hash[block.hash()]
            if sum(o.value for o in after.values()) > sum(o.value for o in utxo.values()) + sub:
                bad.append("unspent total grew by more than the subsidy")
        except KeyError:
            bad.append("accepted although a spent output is missing")
    if prop in ("C05", "all"):
        if not (int.from_bytes(block.header.hash(), "big") < int.from_bytes(block.target, "big")):
            bad.append("id not below target")
        if block.hash() != block.header.hash():
            bad.append("stored id differs from the hash of the header")
        if block.target != independent_target(cs, block):
            bad.append("target differs from the retargeting rule")
        if block.height != parent.height + 1:
            bad.append("height is not parent's plus one")
        cbsig = block.transactions[0].inputs[0].signature
        if not isinstance(cbsig, CoinbaseData) or cbsig.height != block.height:
            bad.append("reward transaction records another height")
        if not (parent.timestamp < block.timestamp <= now + 30):
            bad.append("timestamp rule")
        try:
            e = block.header.pow_evidence
            if (e.summary_hash, e.chain_sample, e.block_hash) != independent_evidence(cs, block):
                bad.append("evidence differs from the evidence recomputed from summary, own ancestors and transactions")
        except Exception as ex:
            bad.append("evidence not recomputable: %r" % ex)
    return bad


def run_ledger(ctx, focus, res=None, n_trees=None, per_tree=None, with_tall=True):
    res = res or kit.Result()
    rng = ctx.rng
    n_trees = n_trees or ctx.scale(3, 14)
    per_tree = per_tree or ctx.scale(90, 360)
    classes = classes_for(focus)
    for ti in range(n_trees + (1 if with_tall else 0)):
        tall = (ti == n_trees)
        if tall:
            # one tall chain per run: several hundred blocks (more than any depth or count constant of the code), production
            # constants, an easy target; candidates are offered on ancestors hundreds of blocks behind the head as well as near it,
            # and spends sweep up dozens of outputs at once
            lines = chain.patch(horizon=-1)
            cfg = 3
            keys = chain.Keys(rng, 5)
            tree = chain.Tree(rng, keys, genesis=chain.custom_genesis(keys, target=b"\xff" * 32))
            cur_ = tree.blocks[0]
            for _ in range(548 + rng.randrange(0, 12)):
                cur_ = tree.extend(cur_.hash(), n_tx=(1 if cur_.height % 37 == 5 else 0), dt=120, data_len=0)
            rivals_made, deep_side_tip, through_store, use_custom = False, None, False, True
        else:
            cfg = ti % 3
            if cfg == 0:
                lines = chain.patch(horizon=-1, halving=5)      # several subsidy eras within a short tree
            elif cfg == 1:
                lines = chain.patch(horizon=-1, interval=6, timespan=6 * 120)
            else:
                lines = chain.patch(horizon=2)          # blocks on both sides of the horizon
            for attempt in range(6):
                rivals_made = False
                keys = chain.Keys(rng, 5)
                use_custom = (ti % 2 == 1)
                genesis = chain.custom_genesis(keys, target=bytes([0x3f]) + b"\xff" * 31) if use_custom else None
                tree = chain.Tree(rng, keys, genesis=genesis)
                # an output paying a key that is not a curve point (spendable by nobody; class bad_curve_point)
                tree.grow(rng.randrange(5, 12), fork_prob=0.35)
                sp = tree.spendable(tree.cs.current_chain_hash)
                if sp:
                    r, o = sp[0]
                    if o.value > 10:
                        tx = chain.make_tx(keys, tree.utxo(tree.cs.current_chain_hash), [r],
                                           [(o.value - 10, 0), (5, chain.GARBAGE_KEYS[0]), (5, chain.GARBAGE_KEYS[1])])
                        tree.extend(txs=[tx])
                tree.grow(rng.randrange(4, 10), fork_prob=0.4)
                if cfg == 1:
                    # a side branch that diverges before the start of a retarget period and runs up to the next boundary, with
                    # timestamps that differ from the main chain's: the boundary block on the branch that is not the head must
                    # get the target prescribed by its own ancestors
                    base = tree.blocks[min(2, len(tree.blocks) - 1)]
                    mainh = tree.cs.head().height
                    I = consensus.BLOCKS_BETWEEN_TARGET_READJUSTMENT
                    goal = ((base.height // I) + 2) * I - 1          # last block before a boundary, a full period past the fork
                    while tree.cs.head().height < goal + 2:
                        tree.extend(n_tx=0, dt=rng.randrange(100, 140))
                    h = base.hash()
                    for _ in range(goal - base.height):
                        h = tree.extend(h, n_tx=0, dt=rng.randrange(20, 60)).hash()
                    deep_side_tip = h
                else:
                    deep_side_tip = None
                through_store = (not use_custom) and (ti % 4 == 2 or (ctx.thorough and ti % 4 == 0))
                if through_store:
                    # two competing blocks that spend one and the same output in different transactions, and more blocks on each
                    tip = tree.cs.current_chain_hash
                    sp_ = [(r, o) for r, o in tree.spendable(tip) if o.value >= 2]     # (zero-valued outputs exist below a horizon)
                    if sp_:
                        r_, o_ = sp_[-1]
                        u_ = tree.utxo(tip)
                        ta = chain.make_tx(keys, u_, [r_], [(o_.value, 1)])
                        tb = chain.make_tx(keys, u_, [r_], [(o_.value, 2)])
                        a_ = tree.extend(tip, txs=[ta])
                        b_ = tree.extend(tip, txs=[tb])
                        tree.extend(a_.hash(), n_tx=0)
                        tree.extend(b_.hash(), n_tx=0)
                        tree.extend(b_.hash(), n_tx=0)
                        rivals_made = True
                ids_ = [t.hash() for b in tree.blocks for t in b.transactions]
                if not through_store or len(set(ids_)) == len(ids_):
                    break
                res.count("tree_rebuilt_because_one_transaction_is_in_two_blocks")
        if rivals_made:
            res.count("rival_spends_on_two_branches")
        res.count("config:%s" % ["production", "retarget-6", "horizon-2", "tall"][cfg])
        res.count("blocks_in_trees", len(tree.blocks))
        cr = Crafter(tree)
        horizon = consensus.MAX_KNOWN_HASH_HEIGHT
        # model: load the tree
        ops = list(lines) + ["new t"]
        impl = ["ok"] * len(ops)
        base = CoinState.empty().add_block_no_validation(tree.blocks[0])
        for b in tree.blocks[1:]:
            base = base.add_block_no_validation(b)
        model_order = list(tree.blocks)
        tx_ids = [t.hash() for b in tree.blocks for t in b.transactions]
        if through_store and len(set(tx_ids)) == len(tx_ids):
            # a restart: the node's chain state as rebuilt from its block store (every block written, in a few flushes; the
            # file reopened; blocks read back and applied the way the node's start-up does). Not done when one transaction
            # occurs in two blocks of the tree (known finding D2 of the store).
            import os as _os
            import skepticoin.blockstore as _bs
            path = _os.path.join(_os.getcwd(), "ledger_restart_%d.db" % ti)
            if _os.path.exists(path):
                _os.remove(path)
            st_ = _bs.BlockStore(path)
            todo = tree.blocks[1:]
            while todo:
                k_ = rng.randrange(1, 5)
                for b in todo[:k_]:
                    st_.add_block_to_buffer(b)
                st_.flush_blocks_to_disk()
                todo = todo[k_:]
            st_.close()
            st_ = _bs.BlockStore(path)
            reloaded = CoinState.empty()
            read_ids = []
            try:
                read_ids = [b.hash() for b in st_.read_blocks_from_disk()]
                # the node's own start-up routine (scripts/utils.read_chain_from_disk) on this store
                import contextlib
                import io as _io
                import skepticoin.scripts.utils as _su
                saved_instance = getattr(_bs.DefaultBlockStore, "instance", None)
                _bs.DefaultBlockStore.instance = st_
                try:
                    with contextlib.redirect_stdout(_io.StringIO()):
                        reloaded = _su.read_chain_from_disk()
                finally:
                    _bs.DefaultBlockStore.instance = saved_instance
            except Exception as e:
                res.violations.append({"kind": "the chain state cannot be rebuilt from the block store after a restart: %r" % e,
                                       "tree": [b.serialize().hex() for b in tree.blocks]})
                reloaded = None
            st_.close()
            _os.remove(path)
            if reloaded is not None:
                # (which of several equally high tips is the head depends on the order of arrival, which a restart changes:
                # the head is left out of this comparison, and the model is given the blocks in the order read back)
                by_id = {b.hash(): b for b in tree.blocks}
                model_order = [by_id[i] for i in read_ids if i in by_id] + [b for b in tree.blocks if b.hash() not in set(read_ids)]
                if chain.state_digest(reloaded).split(" ", 1)[1] != chain.state_digest(base).split(" ", 1)[1]:
                    res.violations.append({"kind": "after a restart the chain state rebuilt from the block store (unspent outputs, "
                                                   "balances, tips or head) differs from the state before it",
                                           "tree": [b.serialize().hex() for b in tree.blocks]})
                base = reloaded
                res.count("state_rebuilt_from_store")
        for b in model_order:
            ops.append("addnv t t " + hx(b.serialize()))
            impl.append("ok")
        ops.append("digest t full" if not tall else "digest t light")      # (balances at every block: cubic for a tall chain)
        impl.append(chain.state_digest(base, full=not tall))
        cands = []
        for k in range(per_tree if not tall else max(len(classes) * 2, 48)):
            klass = classes[(k + ti) % len(classes)] if rng.random() < 0.8 or tall else rng.choice(classes)
            parent_hash = rng.choice(tree.blocks[-8:]).hash() if rng.random() < 0.7 else rng.choice(tree.blocks).hash()
            if tall and k % 2 == 0:
                parent_hash = rng.choice(tree.blocks[2:45]).hash()      # far behind the head
            if klass == "bad_curve_point":
                # (needs a parent at which an output paying a key that is no curve point is unspent)
                with_garbage = [b for b in tree.blocks if any(o.public_key.public_key in chain.GARBAGE_KEYS
                                                              for o in tree.utxo(b.hash()).values())]
                if with_garbage:
                    parent_hash = rng.choice(with_garbage[-4:]).hash()
            elif cfg == 2 and k % 4 == 1:
                # directly on a block AT the checkpoint horizon: the first height that is fully validated
                at_h = [b for b in tree.blocks if b.height == consensus.MAX_KNOWN_HASH_HEIGHT]
                if at_h:
                    parent_hash = rng.choice(at_h).hash()
                    res.count("candidates_on_a_parent_at_the_horizon")
            if tall and klass == "height_encoding_short":
                parent_hash = tree.blocks[rng.randrange(63, 127)].hash()
            if deep_side_tip is not None and klass in ("stale_target", "target_plus1", "target_minus1", "valid",
                                                         "valid_multi") and rng.random() < 0.5:
                parent_hash = deep_side_tip
            elif klass in ("stale_target", "target_plus1", "target_minus1", "valid") and rng.random() < 0.8:
                I = consensus.BLOCKS_BETWEEN_TARGET_READJUSTMENT
                at_boundary = [b for b in tree.blocks if (b.height + 1) % I == 0]
                if at_boundary:
                    parent_hash = rng.choice(at_boundary).hash()
            if klass in ("other_fork_output", "spent_on_branch", "missing_output", "valid", "valid_multi") and rng.random() < 0.6:
                # a parent that is not on the head's chain: its ledger state was computed while another block was the head
                on_head = set()
                h_ = tree.cs.current_chain_hash
                while h_ in tree.cs.block_by_hash:
                    on_head.add(h_)
                    h_ = tree.cs.block_by_hash[h_].previous_block_hash
                side = [b for b in tree.blocks if b.hash() not in on_head]
                if side:
                    parent_hash = rng.choice(side).hash()
            if klass.startswith("reward_") and rng.random() < (1.0 if klass == "reward_prev_era" else 0.4):
                era_last = [b for b in tree.blocks if chain.subsidy(b.height) > chain.subsidy(b.height + 1)]
                if era_last:
                    parent_hash = rng.choice(era_last).hash()
            prelude = []
            try:
                c = make_candidate(cr, klass, parent_hash, prelude)
            except Exception as e:  # generator could not build this class here
                res.count("generator-skip:" + klass)
                continue
            if c is None:
                res.count("no-material:" + klass)
                continue
            blk, now = c
            for pb in prelude:
                cands.append(("prelude_valid", pb, now))
            cands.append((klass, blk, now))
        sig_mark = 0
        tall_digests = 0
        for klass, blk, now in cands:
            before = chain.state_digest(base, full=False)
            raw = None
            if isinstance(blk, (bytes, bytearray)):
                # a candidate given as the bytes a peer delivers: decoded by the node's decoder first (what does not decode is refused)
                raw = bytes(blk)
                try:
                    blk = Block.deserialize(raw)
                except Exception as e:
                    blk, err = None, e
                    res.count("reject-kind:undecodable")
            size_saved = None
            if klass in ("one_byte_over_block_size", "exactly_at_block_size") and blk is not None:
                from .c19 import patch_everywhere
                size_limit = len(blk.serialize()) - (1 if klass == "one_byte_over_block_size" else 0)
                size_saved = patch_everywhere("MAX_BLOCK_SIZE", size_limit)
                ops.append("p maxBlockSize %d" % size_limit)
                impl.append("ok")
            try:
                if blk is None:
                    raise err
                try:
                    after_state = base.add_block(blk, now)
                finally:
                    if size_saved is not None:
                        for m_, v_ in size_saved:
                            m_.MAX_BLOCK_SIZE = v_
                verdict = "ok"
            except Exception as e:
                after_state = None
                verdict = "rej"
                err = e
                if blk is not None:
                    res.count("reject-kind:" + type(e).__name__)
            ser = raw if raw is not None else blk.serialize()
            # the receiver's state object is untouched by the attempt
            if chain.state_digest(base, full=False) != before:
                res.violations.append({"kind": "add_block changed the state it was called on", "class": klass,
                                       "block": ser.hex()})
            if raw is not None and verdict == "ok" and blk.serialize() != raw:
                res.violations.append({"kind": "a block was accepted whose encoding, as delivered, is not the encoding the node gives "
                                               "it: its id (the hash of the delivered header bytes, %s…) is not the hash of the header "
                                               "that was validated" % blk.hash().hex()[:16],
                                       "class": klass, "block": raw.hex(), "now": now,
                                       "tree": [b.serialize().hex() for b in tree.blocks][:700]})
            ops.extend(keys.oracle_lines(sig_mark))
            impl.extend(["ok"] * (len(keys.oracle) - sig_mark))
            sig_mark = len(keys.oracle)
            ops.append("add x t %s %d" % (hx(ser), now))
            impl.append(verdict)
            if size_saved is not None:
                ops.append("p maxBlockSize 200000")
                impl.append("ok")
                if (verdict == "ok") != (klass == "exactly_at_block_size") and blk.height > horizon:
                    res.violations.append({"kind": "a block of %d bytes was %s with the size bound set to %d"
                                                   % (len(ser), "accepted" if verdict == "ok" else "refused", size_limit),
                                           "class": klass, "block": ser.hex(), "now": now,
                                           "tree": [b.serialize().hex() for b in tree.blocks][:700]})
            res.case(ser, nontrivial=True)
            res.count("class:" + klass)
            res.count("verdict:" + verdict)
            if verdict == "ok" and tall:
                tall_digests += 1
            if verdict == "ok" and (not tall or tall_digests <= 3):     # (the digest of a tall state is quadratic in the model)
                ops.append("digest x light")
                try:
                    impl.append(chain.state_digest(after_state, full=False))
                except Exception as e:      # a state the digest cannot express (an amount outside 0 … 2^64 - 1, say)
                    impl.append("no digest: %r" % e)
            if verdict == "ok" and blk.height <= horizon:
                res.count("accepted-below-horizon")
            elif verdict == "ok":
                for msg in monitor_accepted(res, focus, base, blk, now, klass, after_state, own=tree.own):
                    res.violations.append({"kind": msg, "class": klass, "block": ser.hex(), "now": now,
                                           "tree": [b.serialize().hex() for b in tree.blocks]})
                if klass not in EXPECT_VALID and klass not in UNDETERMINED:
                    res.violations.append({"kind": "a block breaking rule '%s' was accepted" % klass, "class": klass,
                                           "block": ser.hex(), "now": now,
                                           "tree": [b.serialize().hex() for b in tree.blocks]})
            else:
                if klass in EXPECT_VALID:
                    res.count("valid-class-rejected:" + klass)
                    if focus in ("C05", "all") and klass in ("valid", "valid_multi") and blk.height > horizon:
                        # C05, last sentence: what the node's own block assembly produces (on the view whose head is
                        # the parent) satisfies all header rules once its id is below target
                        res.violations.append({"kind": "a block produced by the node's own assembly on a stored parent is "
                                                       "rejected by full validation", "class": klass, "block": ser.hex(),
                                               "now": now, "error": repr(err)[:200],
                                               "tree": [b.serialize().hex() for b in tree.blocks]})
            if len(res.samples) < 4:
                res.sample({"class": klass, "verdict": verdict, "block_bytes": len(ser), "height": blk.height})
        model = ctx.driver.ask(ops)
        # verdict lines: the model prints "rej <kind>"; compare accept / reject only
        model = [m.split(" ")[0] if m.startswith("rej") else m for m in model]
        kit.compare(res, ops, impl, model)
    chain.unpatch()
    res.rule = ("random block trees (real genesis and a custom easy-target genesis; production constants, retarget "
                "interval patched to 6, checkpoint horizon at 2) grown with forks and signed multi-input spends; candidate "
                "blocks on any stored parent, valid or with exactly one rule broken (%d classes, nonce searched so that "
                "proof of work is not what decides); real CoinState.add_block vs the compiled model's addBlock (verdict and "
                "digest of the new state); the monitor recomputes the property's conditions from the parent's unspent "
                "set with python-ecdsa. Distinct non-trivial = distinct candidate block encodings" % len(classes))
    return res

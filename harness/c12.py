"""C12 — mining: the real MinerWatcher handlers on a real node (ChainManager, store, peers) for
chain states with forks, pools of 0-8 transactions and clock values around the head's
timestamp, against the model's minerCandidate / minerFound; monitors for validity, reward,
timestamp and adoption."""
import sys

from . import kit, chain, node
from .kit import hx

import skepticoin.consensus as consensus
import skepticoin.mining as mining
from skepticoin.datatypes import Block, BlockHeader
from skepticoin.signing import SECP256k1PublicKey


class FakeThread:
    def __init__(self, lp):
        self.local_peer = lp


class FakeWallet:
    def __init__(self, keys):
        self.keys = keys
        self.n = 0

    def get_annotated_public_key(self, annotation):
        self.n += 1
        return self.keys.pks[self.n % len(self.keys.pks)]

    def get_balance(self, coinstate):
        return 0


def make_watcher(rn, keys):
    argv = sys.argv
    sys.argv = ["x"]
    try:
        w = mining.MinerWatcher()
    finally:
        sys.argv = argv
    w.network_thread = FakeThread(rn.lp)
    w.coinstate = rn.cm.coinstate          # as __call__ does (the chain read from disk, handed to the networking peer)
    w.wallet = FakeWallet(keys)
    w.public_key = keys.pks[0]
    sent = []

    class Q:
        def put(self, x):
            sent.append(x)
    w.send_queues = [Q(), Q()]
    w.sent = sent
    w.hash_stats = {}
    w.args.quiet = True
    w.print_stats_line = lambda ts: None
    mining.save_wallet = lambda wallet: None
    mining.print = lambda *a, **k: None
    return w


def winning_nonce(cm, pool, pk, clock, start, tries=4000):
    """a nonce for which the block prescribed by (head, pool, key, clock) has an id below target; the block is put
    together here (not by the repository's assembler, whose internal state must not be disturbed by this search)"""
    from skepticoin.datatypes import Transaction, Input, Output, OutputReference, BlockSummary
    from skepticoin.signing import CoinbaseData
    from skepticoin.merkletree import get_merkle_root
    cs = cm.coinstate
    head = cs.head()
    ts = max(clock, head.timestamp + 1)
    height = head.height + 1
    utxo = cs.unspent_transaction_outs_by_hash[cs.current_chain_hash]
    fees = sum(sum(utxo[i.output_reference].value for i in t.inputs) - sum(o.value for o in t.outputs) for t in pool)
    cb = Transaction([Input(OutputReference(b"\x00" * 32, 0), CoinbaseData(height, b""))],
                     [Output(chain.subsidy(height) + fees, SECP256k1PublicKey(pk))])
    txs = [cb] + list(pool)
    root = get_merkle_root([t.hash() for t in txs])
    target = consensus.calc_target(cs, height, ts, head)
    for nonce in range(start, start + tries):
        summary = BlockSummary(height, cs.current_chain_hash, root, ts, target, nonce)
        sh = consensus.construct_summary_hash(summary, height)
        ev = consensus.construct_pow_evidence_after_scrypt(sh, cs, summary, height, txs)
        b = Block(BlockHeader(summary, ev), txs)
        if b.hash() < b.target:
            return nonce
    return None


def two_miners(ctx, res, rng, keys, tree, rn, w, ops, impl, sig_mark, si):
    """two miner processes: miner 0 is given a candidate on head H; a block N from the network moves the head; miner 1
    is given a candidate (this refreshes the watcher's shared state); then miner 0's answer arrives and is a solution:
    the block on H must still be completed, validated, adopted into the served state (a fork next to N), stored and
    broadcast"""
    cm = rn.cm
    head = cm.coinstate.current_chain_hash
    hd = cm.coinstate.block_by_hash[head]
    if tree.cs.current_chain_hash != head or head not in tree.own:
        return
    clock = hd.timestamp + 50
    node.CLOCK[0] = clock
    w.public_key = keys.pks[rng.randrange(0, 5)]
    found = winning_nonce(cm, list(cm.transaction_pool), w.public_key, clock, rng.randrange(0, 1 << 20))
    if found is None:
        res.count("two_miners:no-nonce")
        return
    w.sent.clear()
    try:
        w.handle_request_scrypt_input_message(0, found)
    except Exception as e:
        res.violations.append({"kind": "assembling a candidate raised", "error": repr(e), "scenario": si})
        return
    summary, height = w.sent[-1][1]
    txs = w.mining_args[0][-1]
    sh = consensus.construct_summary_hash(summary, height)
    ev = consensus.construct_pow_evidence_after_scrypt(sh, w.coinstate, summary, height, txs)
    cand = Block(BlockHeader(summary, ev), txs)
    if not cand.hash() < cand.target:
        res.count("two_miners:candidate-differs-from-prediction")
        return
    ops.append("node cand %s %d %d" % (w.public_key.hex(), clock, found))
    impl.append("ok %s %d %s" % (summary.serialize().hex(), height, ",".join(t.hash()[:8].hex() for t in txs)))
    # the head moves
    nb = tree.extend(head, n_tx=0, dt=3)
    r = rn.deliver_block(1, nb, 0)
    ops.extend(keys.oracle_lines(sig_mark))
    impl.extend(["ok"] * (len(keys.oracle) - sig_mark))
    ops.append("node block 1 0 %s %d" % (hx(nb.serialize()), clock))
    impl.append(r)
    if rn.cm.coinstate.current_chain_hash != nb.hash():
        res.count("two_miners:head-did-not-move")
    # miner 1 asks for work (in every other run it does not: a single miner whose answer crosses a network block)
    if si % 2 == 0:
        w.handle_request_scrypt_input_message(1, rng.randrange(0, 1 << 20))
        ops.append("node refresh")
        impl.append("ok")
        res.count("two_miners:other_miner_asked_in_between")
    else:
        res.count("two_miners:answer_crosses_network_block")
    before_frames = [list(rn.outbox_kinds(p)) for p in rn.peers]
    info = {"scenario": si, "block": cand.serialize().hex(), "network_block": nb.serialize().hex(),
            "kind_of_run": "two miners, head moved between request and answer"}
    try:
        w.handle_scrypt_output_message(0, sh)
        rr = "ret"
    except Exception as e:
        rr = "exc"
        res.violations.append({**info, "kind": "completing a winning candidate raised after the head had moved: %r" % e})
    ops.append("node found %s %d" % (sh.hex(), clock))
    impl.append("%s %s" % (rr, cand.serialize().hex()))
    ops.append("node digest")
    impl.append(rn.digest())
    res.case(("two-miners", si, cand.hash()), nontrivial=True)
    res.count("two_miners:run")
    if rr == "ret":
        served = rn.cm.coinstate
        if cand.hash() not in served.block_by_hash:
            res.violations.append({**info, "kind": "a winning candidate answered after the head had moved is not part of the "
                                                   "served chain state"})
        if nb.hash() not in served.block_by_hash:
            # observed on the unchanged tree when no other request refreshed the watcher's state: the watcher adds its
            # block to the state it fetched with the request and installs that, so a block that arrived from the network
            # in between leaves the served state (it stays in the store). Not covered by the wording of C12 (DESIGN 9.4)
            res.count("two_miners:network-block-dropped")
            if nb.hash() in tree.own:
                # the tree builder keeps it; nothing later in this scenario builds on it through the node
                pass
        if cand.hash() not in rn.disk_ids() or rn.store.write_buffer:
            res.violations.append({**info, "kind": "the found block was not written to the block store"})
        for pi, p in enumerate(rn.peers):
            newf = rn.outbox_kinds(p)[len(before_frames[pi]):]
            wantf = ["B:%s:0" % cand.hash()[:8].hex()] if (p.hello_sent and p.hello_received) else []
            if newf != wantf:
                res.violations.append({**info, "kind": "broadcast: peer %d got %s expected %s" % (pi, newf, wantf)})
        if cand.hash() in served.block_by_hash:
            tree.adopt(cand)


def both_miners_solve(ctx, res, rng, keys, tree, rn, w, si):
    """two miner processes hold candidates on the same head H and both find a solution, one after the other: the first
    block found extends the head and becomes it; the second is a competitor of it.  Both were found by the node's miner,
    so both are part of the served chain state afterwards (and stored and broadcast), and the head is still the first.
    Runs last in a scenario (the model's watcher holds one candidate; it is not driven through this)."""
    cm = rn.cm
    head = cm.coinstate.current_chain_hash
    hd = cm.coinstate.block_by_hash[head]
    clock = max(node.CLOCK[0], hd.timestamp + 50)
    node.CLOCK[0] = clock
    pool = list(cm.transaction_pool)
    w.coinstate = cm.coinstate
    cands = []
    for mid in (0, 1):
        w.public_key = keys.pks[(si + mid) % 5]
        found = winning_nonce(cm, pool, w.public_key, clock, rng.randrange(0, 1 << 20))
        if found is None:
            res.count("both_miners:no-nonce")
            return
        w.sent.clear()
        try:
            w.handle_request_scrypt_input_message(mid, found)
        except Exception as e:
            res.violations.append({"kind": "assembling a candidate raised", "error": repr(e), "scenario": si})
            return
        summary, height = w.sent[-1][1]
        cands.append((mid, summary, height, consensus.construct_summary_hash(summary, height)))
    # two more greeted peers: the first one's socket has just been closed without the networking loop having noticed (it is still
    # listed as connected, sending to it raises), the second is healthy and comes after it in the order the peers are visited
    dead = rn.add_peer(active=True)
    after_dead = rn.add_peer(active=True)
    try:
        rn.peers[dead].sock.close()
    except Exception:
        pass
    healthy = [pi for pi, p in enumerate(rn.peers) if pi != dead and p.hello_sent and p.hello_received]
    frames_before = {pi: list(rn.outbox_kinds(rn.peers[pi])) for pi in healthy}
    blocks = []
    info = {"scenario": si, "kind_of_run": "two miners hold candidates on one head; both answers are solutions"}
    for mid, summary, height, sh in (cands[1], cands[0]):
        before = set(rn.cm.coinstate.block_by_hash.keys())
        try:
            w.handle_scrypt_output_message(mid, sh)
        except Exception as e:
            res.violations.append({**info, "kind": "completing miner %d's winning candidate raised: %r" % (mid, e)})
            return
        new = [b for h_, b in rn.cm.coinstate.block_by_hash.items() if h_ not in before
               and b.header.summary.serialize() == summary.serialize()]
        if not new:
            if not any(b.header.summary.serialize() == summary.serialize() for b in rn.cm.coinstate.block_by_hash.values()):
                res.count("both_miners:candidate-differs-from-prediction")
                return
        blocks.append(new[0] if new else None)
    res.case(("both-miners", si, head), nontrivial=True)
    res.count("both_miners:run")
    served = rn.cm.coinstate
    first, second = blocks
    for nm_, b in (("first", first), ("second", second)):
        if b is None:
            continue
        if b.hash() not in served.block_by_hash:
            res.violations.append({**info, "kind": "the %s block found by the node's miner is no longer part of the served chain "
                                                   "state after the other miner's block was found" % nm_,
                                   "block": b.serialize().hex()})
        elif b.hash() not in rn.disk_ids():
            res.violations.append({**info, "kind": "the %s block found was not written to the block store" % nm_})
    if first is not None and first.hash() in served.block_by_hash and served.current_chain_hash != first.hash() \
            and second is not None and served.current_chain_hash == second.hash():
        res.violations.append({**info, "kind": "a found block that does not extend the head (a competitor of the block found "
                                               "just before) became the head", "block": second.serialize().hex()})
    for b in blocks:
        if b is None:
            continue
        want = "B:%s:0" % b.hash()[:8].hex()
        for pi in healthy:
            newf = rn.outbox_kinds(rn.peers[pi])[len(frames_before[pi]):]
            if want not in newf:
                res.violations.append({**info, "kind": "a found block was not broadcast to greeted peer %d (another greeted peer's "
                                                       "socket had just been closed; peer %d comes after it)" % (pi, after_dead),
                                       "block": b.serialize().hex()})
                break
    res.count("both_miners:broadcast_with_a_dead_peer")
    for b in blocks:
        if b is not None and b.hash() in served.block_by_hash:
            tree.adopt(b)


def run(ctx):
    res = kit.Result()
    rng = ctx.rng
    known = kit_known()
    for si in range(ctx.scale(4, 16)):
        lines = chain.patch(horizon=-1) if si % 2 == 0 else chain.patch(horizon=-1, interval=6, timespan=720)
        keys = chain.Keys(rng, 5)
        tree = chain.Tree(rng, keys)
        tree.grow(rng.randrange(5, 10), fork_prob=0.3)
        rn = node.RealNode(tree.cs, tree.blocks)
        rn.add_peer(active=True)
        rn.add_peer(active=False)
        rn.add_peer(active=True, outgoing=True)
        w = make_watcher(rn, keys)
        ops = list(lines) + keys.oracle_lines() + ["new t"] + ["addnv t t " + hx(b.serialize()) for b in tree.blocks]
        ops += ["node new t 0", "node peer 1 0", "node peer 0 0", "node peer 1 1"]
        impl = ["ok"] * len(ops)
        sig_mark = len(keys.oracle)
        for round_ in range(ctx.scale(8, 14)):
            cm = rn.cm
            if round_ > 0 and rng.random() < 0.4 and cm.coinstate.current_chain_hash in tree.own:
                # the head moves between two mining rounds: a block from the network, possibly dated a little ahead
                # of the clock the next round runs with
                nb = tree.extend(cm.coinstate.current_chain_hash, n_tx=0, dt=rng.randrange(1, 60))
                node.CLOCK[0] = nb.timestamp
                rr = rn.deliver_block(1, nb, 0)
                ops.extend(keys.oracle_lines(sig_mark))
                impl.extend(["ok"] * (len(keys.oracle) - sig_mark))
                sig_mark = len(keys.oracle)
                ops.append("node block 1 0 %s %d" % (hx(nb.serialize()), nb.timestamp))
                impl.append(rr)
                res.count("head_moved_by_network_block")
            head = cm.coinstate.current_chain_hash
            hd = cm.coinstate.block_by_hash[head]
            utxo = cm.coinstate.unspent_transaction_outs_by_hash[head]
            # pool of 0..8 transactions with assorted fees
            want = rng.choice([0, 0, 1, 2, 3, 5, 8])
            in_pool = {i.output_reference for t in cm.transaction_pool for i in t.inputs}
            sp = [(r, o) for r, o in utxo.items() if o.public_key.public_key in keys.pks and r not in in_pool and o.value > 0]
            rng.shuffle(sp)
            for r, o in sp[:max(0, want - len(cm.transaction_pool))]:
                fee = min(rng.choice([0, 1, 7, 1000, 123456]), o.value - 1)
                tx = chain.make_tx(keys, utxo, [r], [(o.value - fee, rng.randrange(0, 5))])
                rr = rn.deliver_tx(0, tx)
                ops.extend(keys.oracle_lines(sig_mark))
                impl.extend(["ok"] * (len(keys.oracle) - sig_mark))
                sig_mark = len(keys.oracle)
                ops.append("node tx 0 " + hx(tx.serialize()))
                impl.append(rr)
            # clock relative to the head's timestamp
            delta = rng.choice([-1000, -31, -30, -29, -1, 0, 1, 5, 100, 100000])
            clock = hd.timestamp + delta
            node.CLOCK[0] = clock
            w.public_key = keys.pks[rng.randrange(0, 5)]
            if rng.random() < 0.5:
                # a first (losing) attempt on this head, then a further fee-paying transaction is relayed to the node while
                # the miner keeps working on the same head: the winning candidate must account for it too
                try:
                    w.handle_request_scrypt_input_message(0, rng.randrange(0, 1 << 20))
                except Exception:
                    pass
                in_pool = {i.output_reference for t in cm.transaction_pool for i in t.inputs}
                late = [(r, o) for r, o in sp if r not in in_pool and o.value > 2000]
                if late:
                    r, o = late[0]
                    tx = chain.make_tx(keys, utxo, [r], [(o.value - rng.choice([1, 700, 1999]), rng.randrange(0, 5))])
                    rr = rn.deliver_tx(0, tx)
                    ops.extend(keys.oracle_lines(sig_mark))
                    impl.extend(["ok"] * (len(keys.oracle) - sig_mark))
                    sig_mark = len(keys.oracle)
                    ops.append("node tx 0 " + hx(tx.serialize()))
                    impl.append(rr)
                    res.count("transaction_relayed_while_mining_on_the_same_head")
            pool = list(cm.transaction_pool)
            # search a nonce for which the candidate is a solution (the miner process does exactly this)
            # the nonce is searched outside the watcher (as the miner processes do), so that the watcher assembles
            # exactly one candidate for this head, pool and clock: the one that wins
            nonce = winning_nonce(cm, pool, w.public_key, clock, rng.randrange(0, 1 << 20))
            if nonce is None:
                res.count("no-nonce")
                continue
            w.sent.clear()
            try:
                w.handle_request_scrypt_input_message(0, nonce)
            except Exception as e:
                res.violations.append({"kind": "assembling a candidate raised", "error": repr(e), "clock_delta": delta})
                continue
            summary, height = w.sent[-1][1]
            sh = consensus.construct_summary_hash(summary, height)
            ev = consensus.construct_pow_evidence_after_scrypt(sh, w.coinstate, summary, height, w.mining_args[0][-1])
            cand = Block(BlockHeader(summary, ev), w.mining_args[0][-1])
            is_solution = cand.hash() < cand.target
            if not is_solution:
                res.count("candidate-differs-from-prediction")
            txs = w.mining_args[0][-1]
            ops.append("node cand %s %d %d" % (w.public_key.hex(), clock, nonce))
            impl.append("ok %s %d %s" % (summary.serialize().hex(), height, ",".join(t.hash()[:8].hex() for t in txs)))
            before = rn.digest()
            frames_before = [list(rn.outbox_kinds(p)) for p in rn.peers]
            try:
                w.handle_scrypt_output_message(0, sh)
                r = "ret"
            except Exception as e:
                r = "exc"
                err = e
            ops.append("node found %s %d" % (sh.hex(), clock))
            impl.append("%s %s" % (r, cand.serialize().hex() if is_solution else "nosolution"))
            ops.append("node digest")
            impl.append(rn.digest())
            res.case((si, round_, cand.hash()), nontrivial=True)
            res.count("pool_size:%d" % len(pool))
            res.count("clock_delta:%d" % delta)
            # ---- monitors
            info = {"clock_minus_head_ts": delta, "pool": len(pool), "block": cand.serialize().hex(), "scenario": si}
            sub = (10 * 100_000_000) // (2 ** (height // 1_050_000))
            fees = sum(sum(utxo[i.output_reference].value for i in t.inputs) - sum(o.value for o in t.outputs) for t in pool)
            cb = txs[0]
            if [o.value for o in cb.outputs] != [sub + fees] or cb.outputs[0].public_key.public_key != w.mining_args and False:
                pass
            if len(cb.outputs) != 1 or cb.outputs[0].value != sub + fees:
                res.violations.append({**info, "kind": "reward does not pay exactly subsidy plus fees",
                                       "reward": [o.value for o in cb.outputs], "expected": sub + fees})
            if [t.hash() for t in txs[1:]] != [t.hash() for t in pool]:
                res.violations.append({**info, "kind": "candidate does not contain the pending transactions"})
            if not cand.timestamp > hd.timestamp:
                res.violations.append({**info, "kind": "candidate timestamp not later than its parent's"})
            corner = hd.timestamp >= clock + 30
            if not is_solution:
                pass        # the watcher assembled something else than head, pool, key and clock prescribe (compared above)
            elif r == "exc":
                v = {**info, "kind": "the node's own full validation rejects the block its miner assembled",
                     "error": repr(err)[:200]}
                if corner:
                    v["finding"] = "D5-clock-corner"
                res.violations.append(v)
                res.count("rejected-own-block" + (":clock-corner" if corner else ""))
                if rn.digest() != before:
                    res.violations.append({**info, "kind": "a block failing the node's own validation left a trace"})
            else:
                served = rn.cm.coinstate
                if cand.hash() not in served.block_by_hash:
                    res.violations.append({**info, "kind": "the found block is not part of the served chain state"})
                elif served.current_chain_hash != cand.hash():
                    res.violations.append({**info, "kind": "the found block extends the head but is not the served head"})
                if cand.hash() not in rn.disk_ids() or rn.store.write_buffer:
                    res.violations.append({**info, "kind": "the found block was not written to the block store"})
                for pi, p in enumerate(rn.peers):
                    newf = rn.outbox_kinds(p)[len(frames_before[pi]):]
                    wantf = ["B:%s:0" % cand.hash()[:8].hex()] if (p.hello_sent and p.hello_received) else []
                    if newf != wantf:
                        res.violations.append({**info, "kind": "broadcast: peer %d got %s expected %s" % (pi, newf, wantf)})
                # the miner's next request builds on its own block
                w.sent.clear()
                try:
                    w.handle_request_scrypt_input_message(0, 1)
                except Exception as e:
                    # (the pending transactions the found block confirmed must be gone from what the next candidate is built from)
                    res.violations.append({**info, "kind": "after a found block was adopted, assembling the next candidate raised "
                                                           "%r: pending transactions handed to the miner: %d, of which confirmed "
                                                           "by the found block: %d"
                                           % (e, len(rn.cm.transaction_pool),
                                              len([t for t in rn.cm.transaction_pool if t.hash() in {x.hash() for x in cand.transactions}]))})
                    w.sent.append(("x", (cand.header.summary, 0)))
                if w.sent and w.sent[-1][1][0].previous_block_hash != cand.hash() and w.sent[-1][0] != "x":
                    res.violations.append({**info, "kind": "the miner forgot its own block on the next request"})
                tree.adopt(cand)
            if len(res.samples) < 4:
                res.sample({"clock_minus_head_ts": delta, "pool": len(pool), "result": r, "height": height})
        two_miners(ctx, res, rng, keys, tree, rn, w, ops, impl, sig_mark, si)
        both_miners_solve(ctx, res, rng, keys, tree, rn, w, si)
        rn.close()
        model = ctx.driver.ask(ops)
        kit.compare(res, ops, impl, model)
    # a found block is broadcast: what is queued for a peer must reach the peer's socket, whatever else is queued
    chain.patch(horizon=-1)
    keys_ = chain.Keys(rng, 4)
    tree_ = chain.Tree(rng, keys_)
    tree_.grow(5, fork_prob=0.2)
    node.write_path_probe(res, rng, node.probe_messages(tree_, keys_, rng), "broadcast of a found block")
    # "is written to the block store": the miner thread hands its found block to the store at the moment the networking thread's
    # flush has written its rows and not yet emptied the buffer (one fixed schedule of the two threads)
    import os as _os
    import skepticoin.blockstore as _bs
    from . import c08 as _c08
    path_ = _os.path.join(_os.getcwd(), "c12_handover.db")
    if _os.path.exists(path_):
        _os.remove(path_)
    st_ = _bs.BlockStore(path_)
    chain_ = []
    h_ = tree_.cs.current_chain_hash
    while h_ != b"\x00" * 32:
        chain_.append(tree_.cs.block_by_hash[h_])
        h_ = chain_[-1].previous_block_hash
    chain_.reverse()
    if len(chain_) >= 4:
        for b_ in chain_[1:-1]:
            st_.add_block_to_buffer(b_)
        try:
            _c08.concurrent_flush(st_, chain_[-1])
        except Exception as e:
            res.violations.append({"kind": "a found block handed to the store while a flush was in progress: the flush raised %r" % e})
        st_.close()
        st_ = _bs.BlockStore(path_)
        got_ = {b_.hash() for b_ in st_.read_blocks_from_disk()}
        res.case(("handover-during-flush", chain_[-1].hash()), nontrivial=True)
        res.count("found_block_handed_over_during_a_flush")
        if chain_[-1].hash() not in got_:
            res.violations.append({"kind": "a found block handed to the store by the miner thread while the networking thread's flush "
                                           "was in progress was never written to the block store (lost at the next restart)",
                                   "block": chain_[-1].serialize().hex()})
    st_.close()
    _os.remove(path_)
    chain.unpatch()
    res.rule = ("the real MinerWatcher.handle_request_scrypt_input_message / handle_scrypt_output_message on a real node "
                "(ChainManager, real BlockStore, greeted and ungreeted peers) over random forked chain states (production "
                "and 6-block retarget interval), pools of 0-8 admitted transactions with assorted fees, clock values from "
                "head.ts-1000 to head.ts+100000 including head.ts-30/-31; nonce searched until the candidate's id is below "
                "target; candidate summary/height/transactions, handler outcome, resulting block bytes and node digest "
                "compared with the model; monitors: exact reward, transaction list, timestamp, own validation, served "
                "state, store, broadcast, next request builds on the block. Distinct non-trivial = found blocks")
    return res


def kit_known():
    return None

"""C04 — correspondence and monitor: see harness/orders.py"""
from . import orders


def run(ctx):
    res = orders.run_orders(ctx, "C04")
    from . import c09
    c09.side_branch_probe(ctx, res, ["ts_equal_parent", "reward_plus1"], "C04")
    return res

"""C04 — correspondence and monitor: see harness/orders.py"""
from . import orders


def run(ctx):
    return orders.run_orders(ctx, "C04")

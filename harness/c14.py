"""C14 — see harness/wallets.py"""
from . import wallets


def run(ctx):
    return wallets.run_c14(ctx)

"""wallets — C14 / C15: the real Wallet, create_spend_transaction, save_wallet / Wallet.load against
the model; monitors for exact spends, non-overlap, failed attempts, key hand-outs, file fidelity,
and atomic save (system calls of the real save_wallet, crash simulated after each)."""
import io
import json
import os
import re
import shutil
import subprocess
import sys
import tempfile

from . import kit, chain
from .kit import hx

import skepticoin.consensus as consensus
from skepticoin.wallet import Wallet, create_spend_transaction, save_wallet
from skepticoin.signing import SECP256k1PublicKey, SECP256k1Signature
from skepticoin.params import MAX_BLOCK_SIZE


def wallet_digest(w):
    kp = sorted("%s:%s" % (k[:8].hex(), v[:8].hex()) for k, v in w.keypairs.items())
    an = sorted("%s:%s" % (k[:8].hex(), a) for k, a in w.public_key_annotations.items())
    sp = sorted("%s:%d" % (r.hash.hex(), r.index) for r in w.spent_transaction_outputs)
    return "keys=%s unused=%s ann=%s spent=%s" % (",".join(kp), ",".join(k[:8].hex() for k in w.unused_public_keys),
                                                 ",".join(an), ",".join(sp))


def fresh_wallet(keys, ops, impl, order=None):
    w = Wallet.empty()
    ops.append("w new")
    impl.append("ok")
    idx = order if order is not None else list(range(len(keys.pks)))
    for i in idx:
        pk, sk = keys.pks[i], keys.sks[i].to_string()
        w.keypairs[pk] = sk
        w.unused_public_keys.append(pk)
        ops.append("w addkey %s %s" % (pk.hex(), sk.hex()))
        impl.append("ok")
    return w


# ------------------------------------------------------------------ C14

def run_c14(ctx):
    res = kit.Result()
    rng = ctx.rng
    for si in range(ctx.scale(5, 20)):
        lines = chain.patch(horizon=-1)
        n_keys = rng.randrange(1, 7)
        keys = chain.Keys(rng, n_keys + 3)          # two keys that are not the wallet's, and one that joins the wallet later
        tree = chain.Tree(rng, keys, genesis=chain.custom_genesis(keys, target=bytes([0x3f]) + b"\xff" * 31))
        # spread outputs over the wallet's keys: many small payments in a few blocks
        for _ in range(rng.randrange(3, 7)):
            head = tree.cs.current_chain_hash
            sp = tree.spendable(head)
            txs, used = [], set()
            for r, o in sp[:3]:
                if o.value < 20 or r in used:
                    continue
                parts = rng.randrange(1, 5)
                vals, rest = [], o.value - rng.choice([0, 1, 10])
                for _ in range(parts - 1):
                    v = rng.randrange(1, max(2, rest // 2))
                    vals.append(v)
                    rest -= v
                vals.append(rest)
                txs.append(chain.make_tx(keys, tree.utxo(head), [r], [(v, rng.randrange(0, n_keys + 2)) for v in vals]))
                used.add(r)
            tree.extend(head, txs=txs, miner=rng.randrange(0, n_keys + 2))
        cs = tree.cs
        ops = list(lines) + ["new t"] + ["addnv t t " + hx(b.serialize()) for b in tree.blocks]
        impl = ["ok"] * len(ops)
        order = list(range(n_keys))
        rng.shuffle(order)
        w = fresh_wallet(keys, ops, impl, order)
        head = cs.current_chain_hash
        utxo = tree.utxo(head)                       # the harness's own ledger
        owned = {r: o for r, o in utxo.items() if o.public_key.public_key in w.keypairs}
        balance = sum(o.value for o in owned.values())
        ops.append("w balance t")
        impl.append(str(w.get_balance(cs)))
        if w.get_balance(cs) != balance:
            res.violations.append({"kind": "reported balance is not the total of unspent outputs paying wallet keys",
                                   "reported": w.get_balance(cs), "expected": balance, "property": "C15"})
        ever_used = set()
        pending = []
        for step in range(ctx.scale(12, 25)):
            if rng.random() < 0.3:
                # the ledger moves between two spends: a new block pays one of the wallet's keys (anywhere in the wallet's
                # key order) and may confirm some of the wallet's pending spends
                conf, used_refs = [], set()
                for t_ in pending:
                    refs_ = {i.output_reference for i in t_.inputs}
                    if rng.random() < 0.4 and all(r in utxo for r in refs_) and not (refs_ & used_refs):
                        conf.append(t_)
                        used_refs |= refs_
                nb = tree.extend(head, txs=conf, miner=rng.randrange(0, n_keys))
                pending = [t_ for t_ in pending if t_ not in conf]
                cs = tree.cs
                head = cs.current_chain_hash
                utxo = tree.utxo(head)
                owned = {r: o for r, o in utxo.items() if o.public_key.public_key in w.keypairs}
                ops.append("addnv t t " + hx(nb.serialize()))
                impl.append("ok")
                res.count("ledger_moved_between_spends")
            forced_mode = None
            if step == 10:
                # the wallet gets another key after it has been spending for a while; a block pays that key; the next spend takes
                # everything that is left — the new key's output included
                pk_l, sk_l = keys.pks[n_keys + 2], keys.sks[n_keys + 2].to_string()
                w.keypairs[pk_l] = sk_l
                w.unused_public_keys.append(pk_l)
                ops.append("w addkey %s %s" % (pk_l.hex(), sk_l.hex()))
                impl.append("ok")
                nb = tree.extend(head, txs=[], miner=n_keys + 2)
                cs = tree.cs
                head = cs.current_chain_hash
                utxo = tree.utxo(head)
                owned = {r: o for r, o in utxo.items() if o.public_key.public_key in w.keypairs}
                ops.append("addnv t t " + hx(nb.serialize()))
                impl.append("ok")
                forced_mode = "exact"
                res.count("key_added_to_the_wallet_between_spends")
            if step in (6, 14):
                forced_mode = "half"            # (a spend that reaches well into the wallet's later keys, left unconfirmed)
            if step in (7, 15) and ever_used:
                # while earlier spends of this wallet are still unconfirmed, a new block (confirming none of them) pays the key
                # the wallet looks at FIRST; the next spend takes everything that is left — it must step over the used outputs
                # that now lie behind an unused one in the wallet's scan order
                nb = tree.extend(head, txs=[], miner=order[0])
                cs = tree.cs
                head = cs.current_chain_hash
                utxo = tree.utxo(head)
                owned = {r: o for r, o in utxo.items() if o.public_key.public_key in w.keypairs}
                ops.append("addnv t t " + hx(nb.serialize()))
                impl.append("ok")
                forced_mode = "exact" if step == 7 else "half"
                res.count("first_key_paid_while_spends_are_pending")
            if step in (3, 9) or rng.random() < 0.08:
                # the ledger reorganises between two spends: the wallet has just looked at its balance at the head; a competitor
                # of the head arrives (the head stays), then a block on top of the competitor (the other branch takes over).
                # Both pay wallet keys; what the abandoned head's block paid or confirmed is gone from the wallet's view.
                hb_ = cs.block_by_hash[head]
                if hb_.height >= 1:
                    ops.append("w balance t")
                    impl.append(str(w.get_balance(cs)))
                    s1 = tree.extend(hb_.previous_block_hash, txs=[], miner=rng.randrange(0, n_keys))
                    ops.append("addnv t t " + hx(s1.serialize()))
                    impl.append("ok")
                    ops.append("w balance t")                      # … and looks again when the competitor has arrived
                    impl.append(str(w.get_balance(tree.cs)))
                    s2 = tree.extend(s1.hash(), txs=[], miner=rng.randrange(0, n_keys))
                    ops.append("addnv t t " + hx(s2.serialize()))
                    impl.append("ok")
                    cs = tree.cs
                    head = cs.current_chain_hash
                    utxo = tree.utxo(head)
                    owned = {r: o for r, o in utxo.items() if o.public_key.public_key in w.keypairs}
                    ops.append("w balance t")
                    impl.append(str(w.get_balance(cs)))
                    if w.get_balance(cs) != sum(o.value for o in owned.values()):
                        res.violations.append({"kind": "after a reorganisation the reported balance is not the total of unspent outputs "
                                                       "paying wallet keys at the new head", "reported": w.get_balance(cs),
                                               "expected": sum(o.value for o in owned.values()), "property": "C15"})
                    res.count("ledger_reorganised_between_spends" if head == s2.hash() else "side_branch_did_not_take_over")
            if step == 5 or rng.random() < 0.1:
                # the wallet file is opened a second time in the same process (a restored / reloaded wallet): a new object
                # over the same keys, which has not spent anything yet (the record of used outputs is not saved)
                f_ = io.StringIO()
                w.dump(f_)
                f_.seek(0)
                w = Wallet.load(f_)
                ever_used = set()
                ops.append("w saveload")
                impl.append("ok")
                res.count("second_wallet_object_over_the_same_keys")
            remaining = sum(o.value for r, o in owned.items() if r not in ever_used)
            mode = rng.choice(["small", "small", "half", "exact", "exact_fee", "prefix_exact", "prefix_exact", "over",
                               "way_over", "tiny", "later_covers", "later_covers"])
            if step % 3 == 0:
                mode = "later_covers"
            if forced_mode is not None:
                mode = forced_mode
            fee = rng.choice([0, 0, 1, 5, 1000])
            if mode == "small":
                amount = rng.randrange(1, max(2, remaining // 10 + 1))
            elif mode == "half":
                amount = max(1, remaining // 2)
            elif mode == "exact":
                amount, fee = max(1, remaining), 0
            elif mode == "exact_fee":
                amount = max(1, remaining - fee)
            elif mode == "prefix_exact":
                # amount + fee equal to the value of the first k outputs the wallet will meet
                bal = tree.refs_by_key(head)
                order_ = []
                for pk_ in w.keypairs:
                    order_ += [r for r in bal.get(pk_, []) if r not in ever_used]
                if not order_:
                    continue
                k_ = rng.randrange(1, len(order_) + 1)
                tot_ = sum(utxo[r].value for r in order_[:k_])
                fee = rng.choice([1, 2, 5]) if tot_ > 5 else 0
                amount = tot_ - fee
                if amount <= 0:
                    continue
            elif mode == "later_covers":
                # the outputs met first are together too small, a later single output covers amount + fee by itself
                bal = tree.refs_by_key(head)
                order_ = []
                for pk_ in w.keypairs:
                    order_ += [r for r in bal.get(pk_, []) if r not in ever_used]
                pick = None
                acc_ = 0
                for j_, r_ in enumerate(order_):
                    if j_ >= 1 and utxo[r_].value > acc_ + 1:
                        pick = (acc_, utxo[r_].value)
                        break
                    acc_ += utxo[r_].value
                if pick is None:
                    amount = rng.randrange(1, max(2, remaining // 10 + 1))       # no such geometry now: a small spend
                else:
                    total_ = rng.choice([pick[0] + 1, pick[1], rng.randrange(pick[0] + 1, pick[1] + 1)])
                    fee = rng.choice([0, 0, 1, 5]) if total_ > 6 else 0
                    amount = total_ - fee
                    res.count("later_single_output_covers")
            elif mode == "over":
                amount = remaining + 1
            elif mode == "way_over":
                amount = remaining * 3 + 7
            else:
                amount = 1
            recipient = keys.pks[n_keys]
            change = keys.pks[n_keys + 1] if rng.random() < 0.7 else keys.pks[0]
            r_ = rng.random()
            if r_ < 0.12:
                recipient = change                      # paying the very key the change goes to (two outputs to one key)
                res.count("recipient_is_the_change_key")
            elif r_ < 0.2:
                recipient = keys.pks[rng.randrange(0, n_keys)]      # paying one of the wallet's own keys
                res.count("recipient_is_a_wallet_key")
            before_spent = set(w.spent_transaction_outputs)
            try:
                tx = create_spend_transaction(w, cs, amount, fee, SECP256k1PublicKey(recipient), SECP256k1PublicKey(change))
                err = None
            except Exception as e:
                tx, err = None, e
            ops.append("w spend t %d %d %s %s" % (amount, fee, recipient.hex(), change.hex()))
            info = {"amount": amount, "fee": fee, "remaining_before": remaining, "mode": mode, "scenario": si, "step": step}
            if tx is None:
                impl.append("err insufficient" if "Insufficient" in str(err) else "err other")
                res.count("spend:failed")
                if amount + fee <= remaining:
                    res.violations.append({**info, "kind": "an affordable spend was refused: %r" % err})
                if set(w.spent_transaction_outputs) != before_spent:
                    res.violations.append({**info, "kind": "a failed attempt changed the wallet's record of used outputs"})
            else:
                msg = tx.signable_equivalent().serialize()
                refs = [i.output_reference for i in tx.inputs]
                impl.append("ok refs=%s outs=%s msg=%s signers=%s" % (
                    ",".join("%s:%d" % (r.hash.hex(), r.index) for r in refs),
                    ",".join("%d:%s" % (o.value, o.public_key.public_key[:8].hex()) for o in tx.outputs),
                    msg.hex(), ",".join(utxo[r].public_key.public_key.hex() for r in refs)))
                res.count("spend:ok")
                res.count("inputs:%d" % min(len(refs), 9))
                collected = sum(utxo[r].value for r in refs if r in utxo)
                # ---- the property on the implementation
                if amount + fee > remaining:
                    res.violations.append({**info, "kind": "a spend above the spendable balance returned a transaction"})
                want_outs = [(amount, recipient)] + ([(collected - amount - fee, change)] if collected != amount + fee else [])
                if [(o.value, o.public_key.public_key) for o in tx.outputs] != want_outs:
                    res.violations.append({**info, "kind": "outputs are not exactly amount to the recipient and inputs-amount-fee change",
                                           "outputs": [(o.value, o.public_key.public_key[:6].hex()) for o in tx.outputs]})
                for r in refs:
                    if r not in owned:
                        res.violations.append({**info, "kind": "spends an output not owned by the wallet / not unspent at the head"})
                    if r in ever_used:
                        res.violations.append({**info, "kind": "spends an output an earlier spend from this wallet already used"})
                if len(set(refs)) != len(refs):
                    res.violations.append({**info, "kind": "the same output is spent twice in one transaction"})
                ever_used |= set(refs)
                pending.append(tx)
                if set(w.spent_transaction_outputs) != before_spent | set(refs):
                    res.violations.append({**info, "kind": "record of used outputs is not the old record plus the inputs"})
                for i in tx.inputs:
                    ok = isinstance(i.signature, SECP256k1Signature) and chain.verifies(
                        utxo[i.output_reference].public_key.public_key, msg, i.signature.signature)
                    if not ok:
                        res.violations.append({**info, "kind": "an input's signature does not verify under the owning key"})
                try:
                    consensus.validate_non_coinbase_transaction_by_itself(tx)
                    consensus.validate_non_coinbase_transaction_in_coinstate(tx, head, cs)
                except Exception as e:
                    v = {**info, "kind": "the returned transaction fails full transaction validation: %r" % e}
                    if len(tx.serialize()) > MAX_BLOCK_SIZE:
                        v["finding"] = "D7-oversize-spend"
                    res.violations.append(v)
            ops.append("w digest")
            impl.append(wallet_digest(w))
            res.case((si, step, amount, fee), nontrivial=True)
            if len(res.samples) < 4:
                res.sample({"mode": mode, "amount": amount, "fee": fee, "result": "tx" if tx else "insufficient"})
        model = ctx.driver.ask(ops)
        kit.compare(res, ops, impl, model)
    # ---- the oversize corner (known finding D7): a wallet that needs ~2000 small outputs for one spend
    lines = chain.patch(horizon=-1)
    keys = chain.Keys(rng, 3)
    tree = chain.Tree(rng, keys, genesis=chain.custom_genesis(keys, target=bytes([0x3f]) + b"\xff" * 31))
    tree.extend(miner=1)
    head = tree.cs.current_chain_hash
    r, o = max(tree.spendable(head), key=lambda x: x[1].value)
    n_small = 1990
    tree.extend(head, txs=[chain.make_tx(keys, tree.utxo(head), [r], [(3, 0)] * n_small + [(o.value - 3 * n_small, 2)])], miner=1)
    cs = tree.cs
    ops = list(lines) + ["new t"] + ["addnv t t " + hx(b.serialize()) for b in tree.blocks]
    impl = ["ok"] * len(ops)
    w = Wallet.empty()
    ops.append("w new")
    impl.append("ok")
    w.keypairs[keys.pks[0]] = keys.sks[0].to_string()
    w.unused_public_keys.append(keys.pks[0])
    ops.append("w addkey %s %s" % (keys.pks[0].hex(), keys.sks[0].to_string().hex()))
    impl.append("ok")
    head = cs.current_chain_hash
    utxo = tree.utxo(head)
    mine = sum(o.value for o in utxo.values() if o.public_key.public_key == keys.pks[0])
    amount = mine - 10
    try:
        tx = create_spend_transaction(w, cs, amount, 10, SECP256k1PublicKey(keys.pks[1]), SECP256k1PublicKey(keys.pks[2]))
    except Exception as e:
        res.violations.append({"kind": "an affordable spend was refused: %r" % e, "amount": amount, "fee": 10,
                               "owned_outputs": sum(1 for o in utxo.values() if o.public_key.public_key == keys.pks[0]),
                               "scenario": "one transaction paid the wallet's key %d times" % n_small})
        model = ctx.driver.ask(ops)
        kit.compare(res, ops, impl, model)
        chain.unpatch()
        return res
    refs = [i.output_reference for i in tx.inputs]
    ops.append("w spend t %d %d %s %s" % (amount, 10, keys.pks[1].hex(), keys.pks[2].hex()))
    impl.append("ok refs=%s outs=%s msg=%s signers=%s" % (
        ",".join("%s:%d" % (r.hash.hex(), r.index) for r in refs),
        ",".join("%d:%s" % (o.value, o.public_key.public_key[:8].hex()) for o in tx.outputs),
        tx.signable_equivalent().serialize().hex(), ",".join(utxo[r].public_key.public_key.hex() for r in refs)))
    res.case(("oversize", len(refs)), nontrivial=True)
    res.count("spend:many_inputs")
    try:
        consensus.validate_non_coinbase_transaction_by_itself(tx)
        consensus.validate_non_coinbase_transaction_in_coinstate(tx, head, cs)
    except Exception as e:
        v = {"kind": "the returned transaction fails full transaction validation: %r" % e, "inputs": len(refs),
             "encoded_bytes": len(tx.serialize())}
        if len(tx.serialize()) > MAX_BLOCK_SIZE:
            v["finding"] = "D7-oversize-spend"
        res.violations.append(v)
    model = ctx.driver.ask(ops)
    kit.compare(res, ops, impl, model)
    chain.unpatch()
    res.rule = ("real create_spend_transaction / sign_transaction on wallets of 1-6 keys (random key order) over chain states in "
                "which outputs of many sizes are spread over wallet and foreign keys; sequences of 12-25 requests with amounts "
                "small / half / exactly the balance / exactly balance minus fee / one over / far over, fees 0-1000, mixing "
                "successes and failed attempts; selected references, outputs, signed message, owning keys and the wallet's "
                "used-output record compared with the model; signatures verified with python-ecdsa against (key, message); "
                "monitor: exact outputs, ownership, no overlap between successive spends, failed attempts change nothing, "
                "affordable spends succeed, full transaction validation of every returned transaction. Distinct non-trivial = requests")
    return res


# ------------------------------------------------------------------ C15

def strace_save(wallet_json_old, new_wallet, stale=None):
    """the system calls of the real save_wallet; returns list of ('open', name) / ('write', name, bytes) / ('rename', a, b)"""
    d = tempfile.mkdtemp(prefix="skv-save-")
    try:
        with open(os.path.join(d, "wallet.json"), "w") as f:
            f.write(wallet_json_old)
        with open(os.path.join(d, "new.json"), "w") as f:
            new_wallet.dump(f)
        if stale is not None:
            # what a save that crashed between writing and renaming leaves behind
            with open(os.path.join(d, "wallet.json.new"), "w") as f:
                f.write(stale)
        script = ("import sys; sys.path.insert(0, %r)\n"
                  "from skepticoin.wallet import Wallet, save_wallet\n"
                  "w = Wallet.load(open('new.json'))\n"
                  "save_wallet(w)\n" % kit.REPO)
        with open(os.path.join(d, "s.py"), "w") as f:
            f.write(script)
        p = subprocess.run(["strace", "-f", "-s", "10000000", "-xx", "-e", "trace=openat,open,write,rename,renameat,renameat2,unlink,unlinkat,close",
                            "-o", "trace.txt", sys.executable, "s.py"], cwd=d, stdout=subprocess.PIPE, stderr=subprocess.PIPE,
                           env={**os.environ, "PYTHONDONTWRITEBYTECODE": "1"})
        if p.returncode != 0 or not os.path.exists(os.path.join(d, "trace.txt")):
            return None, open(os.path.join(d, "wallet.json")).read()
        return parse_trace(os.path.join(d, "trace.txt"), "wallet.json"), open(os.path.join(d, "wallet.json")).read()
    finally:
        shutil.rmtree(d, ignore_errors=True)


def parse_trace(path, track):
    """the system calls of an strace log that touch files whose name contains `track`"""
    if True:
        fds, calls = {}, []
        for line in open(path, errors="replace"):
            line = re.sub(r"^\d+\s+", "", line)
            m = re.match(r'openat\(AT_FDCWD, "((?:\\x[0-9a-f]{2})*)", ([A-Z_|0-9]+)(?:, [0-7]+)?\) = (\d+)', line)
            if m:
                name = bytes.fromhex(m.group(1).replace("\\x", "")).decode(errors="replace")
                flags, fd = m.group(2), int(m.group(3))
                if track in name:
                    fds[fd] = name
                    if "O_WRONLY" in flags or "O_RDWR" in flags:
                        calls.append(("open", name, "O_TRUNC" in flags))
                continue
            m = re.match(r'write\((\d+), "((?:\\x[0-9a-f]{2})*)"', line)
            if m and int(m.group(1)) in fds:
                calls.append(("write", fds[int(m.group(1))], bytes.fromhex(m.group(2).replace("\\x", ""))))
                continue
            m = re.match(r'close\((\d+)\)', line)
            if m and int(m.group(1)) in fds:
                del fds[int(m.group(1))]
                continue
            m = re.match(r'rename(?:at2?)?\((?:AT_FDCWD, )?"((?:\\x[0-9a-f]{2})*)", (?:AT_FDCWD, )?"((?:\\x[0-9a-f]{2})*)"', line)
            if m:
                a = bytes.fromhex(m.group(1).replace("\\x", "")).decode(errors="replace")
                b = bytes.fromhex(m.group(2).replace("\\x", "")).decode(errors="replace")
                if track in a or track in b:
                    calls.append(("rename", a, b))
                continue
            m = re.match(r'unlink(?:at)?\((?:AT_FDCWD, )?"((?:\\x[0-9a-f]{2})*)"', line)
            if m:
                a = bytes.fromhex(m.group(1).replace("\\x", "")).decode(errors="replace")
                if track in a:
                    calls.append(("unlink", a))
        return calls


def replay_prefix(old, calls, n, stale=None, name="wallet.json"):
    """file contents after the first n system calls (a crash right after call n)"""
    files = {name: old.encode()}
    if stale is not None:
        files[name + ".new"] = stale.encode()
    offset = {}
    for c in calls[:n]:
        if c[0] == "open":
            if c[2] or c[1] not in files:
                files[c[1]] = b""
            offset[c[1]] = 0
        elif c[0] == "write":
            cur, at = files.get(c[1], b""), offset.get(c[1], 0)
            files[c[1]] = cur[:at] + c[2] + cur[at + len(c[2]):]
            offset[c[1]] = at + len(c[2])
        elif c[0] == "rename":
            if c[1] in files:
                files[c[2]] = files.pop(c[1])
        elif c[0] == "unlink":
            files.pop(c[1], None)
    return files


def receive_script_under_crash(ctx, res):
    """the hand-out as the user sees it: the node's own `skepticoin-receive` script on a small wallet, with the process dying
    inside the save (at the rename, in the middle of the write) — an address that was shown must not be shown again by the next
    run while unused keys remain, i.e. nothing may be shown before the hand-out is on disk (monitors only)"""
    rng = ctx.rng
    runner = ("import sys, os\n"
              "sys.path.insert(0, %r)\n"
              "mode = sys.argv[1]\n"
              "import skepticoin.wallet as W\n"
              "import skepticoin.scripts.receive as R\n"
              "if mode == 'at_rename':\n"
              "    def boom(a, b):\n"
              "        sys.stdout.flush(); os._exit(9)\n"
              "    os.replace = boom\n"
              "    os.rename = boom\n"
              "elif mode == 'mid_write':\n"
              "    real_dump = W.Wallet.dump\n"
              "    def half(self, f):\n"
              "        import io\n"
              "        b = io.StringIO(); real_dump(self, b); f.write(b.getvalue()[:len(b.getvalue()) // 2]); f.flush()\n"
              "        sys.stdout.flush(); os._exit(9)\n"
              "    W.Wallet.dump = half\n"
              "sys.argv = ['skepticoin-receive', 'note ' + mode]\n"
              "R.main()\n" % kit.REPO)
    for mode in ("at_rename", "mid_write"):
        d = tempfile.mkdtemp(prefix="skv-receive-")
        try:
            keys = chain.Keys(rng, 4)
            w = Wallet.empty()
            for i in range(4):
                w.keypairs[keys.pks[i]] = keys.sks[i].to_string()
                w.unused_public_keys.append(keys.pks[i])
            with open(os.path.join(d, "wallet.json"), "w") as f:
                w.dump(f)
            with open(os.path.join(d, "run.py"), "w") as f:
                f.write(runner)
            shown = []
            for m_ in (mode, "none", "none"):
                p = subprocess.run([sys.executable, "run.py", m_], cwd=d, stdout=subprocess.PIPE, stderr=subprocess.PIPE,
                                   env={**os.environ, "PYTHONDONTWRITEBYTECODE": "1"}, timeout=120)
                addr = re.findall(r"SKE[0-9a-f]+PTI", p.stdout.decode(errors="replace"))
                shown.append((m_, p.returncode, addr))
            res.case(("receive-crash", mode), nontrivial=True)
            res.count("receive_script_crash:" + mode)
            all_shown = [a for _, _, addrs in shown for a in addrs]
            if len(all_shown) != len(set(all_shown)):
                res.violations.append({"kind": "the receive script showed the same address twice although unused keys remain: a run that "
                                               "died inside the save (%s) had already shown it, the next run shows it again"
                                               % mode, "runs": [(m_, rc, a) for m_, rc, a in shown]})
            if shown[1][1] != 0 or not shown[1][2]:
                res.violations.append({"kind": "after a run of the receive script that died inside the save (%s) the next run does not "
                                               "hand out an address" % mode, "runs": [(m_, rc, a) for m_, rc, a in shown]})
        finally:
            shutil.rmtree(d, ignore_errors=True)


def miner_shutdown_probe(ctx, res):
    """the mining hand-out as the user sees it: the node's own MinerWatcher.__call__ on a real wallet file, a real node and a
    scripted message queue. A miner's answer is a solution; the block is adopted and broadcast (it pays the reserved key) and then
    the store fails / the user presses Ctrl-C before the watcher has switched to a fresh key; the watcher shuts down. The next start
    (wallet.json loaded again) must not hand out the key that the broadcast block pays while unused keys remain; neither may it
    after a Ctrl-C while the miner is idle, nor after an undisturbed find (monitors only; any problem in putting the scenario
    together is counted as not-run, never reported)"""
    import sqlite3
    import skepticoin.mining as M
    from . import node, c12
    rng = ctx.rng
    names = ("configure_logging_from_args", "check_chain_dir", "read_chain_from_disk", "start_networking_peer_in_background",
             "wait_for_fresh_chain", "Process", "print", "time", "save_wallet", "open_or_init_wallet", "MAX_KNOWN_HASH_HEIGHT")
    cons_names = ("scrypt", "MAX_KNOWN_HASH_HEIGHT", "KNOWN_HASHES", "BLOCKS_BETWEEN_TARGET_READJUSTMENT",
                  "DESIRED_TARGET_READJUSTMENT_TIMESPAN", "SUBSIDY_HALVING_INTERVAL")
    for mode in ("store_fails_after_broadcast", "interrupt_after_broadcast", "interrupt_idle", "undisturbed_find"):
        saved = {n: getattr(M, n) for n in names if hasattr(M, n)}
        saved_cons = {n: getattr(consensus, n) for n in cons_names}
        halving = chain.HALVING[0]
        cwd = os.getcwd()
        d = tempfile.mkdtemp(prefix="skv-miner-")
        rn = None
        argv = sys.argv
        try:
            try:
                chain.patch(horizon=-1)
                keys = chain.Keys(rng, 5)
                tree = chain.Tree(rng, keys)
                tree.grow(rng.randrange(3, 6), fork_prob=0.0)
                rn = node.RealNode(tree.cs, tree.blocks)
                rn.add_peer(active=True)
                hd = rn.cm.coinstate.head()
                node.CLOCK[0] = hd.timestamp + 50
                os.chdir(d)
                wkeys = chain.Keys(rng, 4)
                w0 = Wallet.empty()
                for i in range(4):
                    w0.keypairs[wkeys.pks[i]] = wkeys.sks[i].to_string()
                    w0.unused_public_keys.append(wkeys.pks[i])
                with open("wallet.json", "w") as f:
                    w0.dump(f)
                # the real save_wallet / open_or_init_wallet (c12's watcher replaces save_wallet in the module: put it back)
                import skepticoin.wallet as WM
                import skepticoin.scripts.utils as U
                M.save_wallet = WM.save_wallet
                M.open_or_init_wallet = U.open_or_init_wallet
                M.configure_logging_from_args = lambda args: None
                M.check_chain_dir = lambda: None
                M.read_chain_from_disk = lambda: rn.cm.coinstate
                M.start_networking_peer_in_background = lambda args, cs: thread
                M.wait_for_fresh_chain = lambda thread_, freshness=0: None
                M.print = lambda *a, **k: None
                M.time = lambda: node.CLOCK[0]
                M.MAX_KNOWN_HASH_HEIGHT = -1

                class Thread(c12.FakeThread):
                    def stop(self):
                        pass

                    def join(self):
                        pass
                thread = Thread(rn.lp)
                rn.lp.show_stats = lambda: None

                class Proc:
                    def __init__(self, *a, **k):
                        pass

                    def start(self):
                        pass

                    def join(self):
                        pass
                M.Process = Proc
                sys.argv = ["skepticoin-mine", "--quiet"]
                watcher = M.MinerWatcher()
                sys.argv = argv
                watcher.print_stats_line = lambda ts: None
                state = {"step": 0, "block": None}

                class Q:
                    def put(self, x):
                        pass

                    def get(self_):
                        state["step"] += 1
                        k = state["step"]
                        if k == 1:
                            if mode == "interrupt_idle":
                                raise KeyboardInterrupt()
                            watcher.send_queues = [Q()]
                            found = c12.winning_nonce(rn.cm, list(rn.cm.transaction_pool), watcher.public_key, node.CLOCK[0],
                                                      rng.randrange(0, 1 << 20))
                            if found is None:
                                state["no_nonce"] = True
                                raise KeyboardInterrupt()
                            return (0, "request_scrypt_input", found)
                        if k == 2:
                            summary, height, txs = watcher.mining_args[0]
                            state["paid"] = watcher.public_key
                            if mode == "store_fails_after_broadcast":
                                def locked(block):
                                    state["block"] = block
                                    raise sqlite3.OperationalError("database is locked")
                                rn.lp.disk_interface.save_block = locked
                            elif mode == "interrupt_after_broadcast":
                                def ctrl_c(block):
                                    state["block"] = block
                                    raise KeyboardInterrupt()
                                rn.lp.disk_interface.save_block = ctrl_c
                            else:
                                real = rn.lp.disk_interface.save_block

                                def keep(block):
                                    state["block"] = block
                                    return real(block)
                                rn.lp.disk_interface.save_block = keep
                            return (0, "scrypt_output", consensus.construct_summary_hash(summary, height))
                        raise KeyboardInterrupt()
                watcher.recv_queue = Q()
            except Exception as e:
                res.count("miner_shutdown:not-run:%s:%s" % (mode, type(e).__name__))
                continue
            try:
                watcher()
            except BaseException as e:
                res.count("miner_shutdown:not-run:%s:watcher-raised-%s" % (mode, type(e).__name__))
                continue
            if state.get("no_nonce"):
                res.count("miner_shutdown:no-nonce")
                continue
            block = state["block"]
            if mode != "interrupt_idle" and block is None:
                res.count("miner_shutdown:not-run:%s:no-block" % mode)
                continue
            try:
                with open("wallet.json") as f:
                    again = Wallet.load(f)
                unused_left = len(again.unused_public_keys)
                given = []
                while again.unused_public_keys:
                    given.append(again.get_annotated_public_key("reserved for potentially mined block"))
                first = given[0] if given else None
            except Exception as e:
                res.violations.append({"kind": "after the miner shut down (%s) the wallet file cannot be loaded / hands out nothing: %r"
                                               % (mode, e)})
                continue
            res.case(("miner-shutdown", mode), nontrivial=True)
            res.count("miner_shutdown:" + mode)
            if block is not None:
                paid = [o.public_key.public_key for t in block.transactions for o in t.outputs]
                adopted = block.hash() in rn.cm.coinstate.block_by_hash
                again_paid = [k for k in given if k in paid]
                if adopted and again_paid:
                    first = again_paid[0]
                    res.violations.append({"kind": "a key handed out for mining was handed out again by the next start although unused "
                                                   "keys remain: the miner found a block paying it (adopted and broadcast), then shut "
                                                   "down (%s), and the wallet file it left gives that key out as unused" % mode,
                                           "key": first.hex(), "block": block.serialize().hex(), "unused_on_disk": unused_left})
        finally:
            sys.argv = argv
            os.chdir(cwd)
            for n, v in saved.items():
                setattr(M, n, v)
            for n, v in saved_cons.items():
                setattr(consensus, n, v)
            chain.HALVING[0] = halving
            if rn is not None:
                rn.close()
            shutil.rmtree(d, ignore_errors=True)


def run_c15(ctx):
    res = kit.Result()
    rng = ctx.rng
    ops, impl = [], []
    for si in range(ctx.scale(6, 30)):
        keys = chain.Keys(rng, rng.randrange(1, 7))
        w = fresh_wallet(keys, ops, impl)
        handed = {}          # key -> still handed out (not restored since)
        forced = []
        last_handed = [None]
        for step in range(ctx.scale(25, 60)):
            c = rng.random()
            if not forced and step % 9 == 4 and len(w.unused_public_keys) >= 1 and len(w.public_key_annotations) >= 1:
                # between two saves by the same process: one key handed out, an older one given back (same counts)
                forced = ["save_keep", "handout", "restore_older", "save_keep"]
            keep_object = False
            restore_older = False
            if forced:
                f_ = forced.pop(0)
                c = {"save_keep": 0.99, "handout": 0.1, "restore_older": 0.5}[f_]
                keep_object = f_ == "save_keep"
                restore_older = f_ == "restore_older"
            if c < 0.45:
                had_unused = len(w.unused_public_keys) > 0
                ann = "a%d" % rng.randrange(0, 5) if rng.random() < 0.8 else ""       # the empty annotation is legal
                choice = rng.randrange(0, 1000)
                import random as _r
                orig = _r.choice
                _r.choice = lambda seq: seq[choice % len(seq)]
                try:
                    import contextlib
                    with contextlib.redirect_stdout(io.StringIO()):
                        pk = w.get_annotated_public_key(ann)
                finally:
                    _r.choice = orig
                ops.append("w handout %s %d" % (ann or "EMPTY", choice))
                impl.append("ok " + pk.hex())
                res.count("handout" if had_unused else "handout_reuse")
                if had_unused:
                    if handed.get(pk):
                        res.violations.append({"kind": "a key was handed out twice while unused keys remained",
                                               "key": pk.hex(), "scenario": si, "step": step})
                    handed[pk] = True
                last_handed[0] = pk
            elif c < 0.60 and w.public_key_annotations:
                cands_ = sorted(w.public_key_annotations)
                if restore_older and len(cands_) > 1 and last_handed[0] in cands_:
                    cands_.remove(last_handed[0])
                pk = rng.choice(cands_)
                w.restore_annotated_public_key(pk, "x")
                handed[pk] = False
                ops.append("w restore " + pk.hex())
                impl.append("ok")
                res.count("restore")
            elif c < 0.65:
                pk = keys.pks[0] if rng.random() < 0.5 else bytes(64)
                if pk not in w.public_key_annotations:
                    try:
                        w.restore_annotated_public_key(pk, "x")
                        impl.append("ok")
                    except Exception:
                        impl.append("err")
                    ops.append("w restore " + pk.hex())
                    res.count("restore_unannotated")
            else:
                # save and load through the real file functions
                before = wallet_digest(w)
                save_wallet(w)
                # a restart opens the wallet the way the node's scripts do (scripts/utils.open_or_init_wallet)
                import contextlib
                import skepticoin.scripts.utils as _su
                with contextlib.redirect_stdout(io.StringIO()):
                    w2 = _su.open_or_init_wallet()
                w2_digest = wallet_digest(w2)
                spent_free = re.sub(r"spent=.*", "spent=", before)
                if w2_digest != spent_free or list(w2.keypairs.items()) != list(w.keypairs.items()) \
                        or w2.unused_public_keys != w.unused_public_keys \
                        or w2.public_key_annotations != w.public_key_annotations:
                    res.violations.append({"kind": "saving and loading does not reproduce the wallet", "before": before[:300],
                                           "after": w2_digest[:300]})
                if rng.random() < 0.4 and not keep_object:
                    w = w2              # a restart: go on with what was loaded; otherwise the process keeps its own object
                ops.append("w saveload")
                impl.append("ok")
                res.count("saveload")
            ops.append("w digest")
            impl.append(wallet_digest(w))
            res.case((si, step, impl[-1]), nontrivial=True)
        if len(res.samples) < 3:
            res.sample({"keys": len(keys.pks), "final": wallet_digest(w)[:160]})
    # ---- reported balance: total of the unspent outputs paying any wallet key (annotated or unused)
    for rep in range(ctx.scale(3, 10)):
        lines = chain.patch(horizon=-1)
        keys = chain.Keys(rng, rng.randrange(3, 7))
        tree = chain.Tree(rng, keys, genesis=chain.custom_genesis(keys, target=bytes([0x3f]) + b"\xff" * 31))
        tree.grow(rng.randrange(4, 9), fork_prob=0.3)
        cs = tree.cs
        ops += list(lines) + ["new b%d" % rep] + ["addnv b%d b%d %s" % (rep, rep, hx(b.serialize())) for b in tree.blocks]
        impl += ["ok"] * (len(ops) - len(impl))
        n_mine = rng.randrange(1, len(keys.pks))
        w = Wallet.empty()
        ops.append("w new")
        impl.append("ok")
        for i in range(n_mine):
            w.keypairs[keys.pks[i]] = keys.sks[i].to_string()
            w.unused_public_keys.append(keys.pks[i])
            ops.append("w addkey %s %s" % (keys.pks[i].hex(), keys.sks[i].to_string().hex()))
            impl.append("ok")
        want = sum(o.value for o in tree.utxo(cs.current_chain_hash).values() if o.public_key.public_key in w.keypairs)

        def check_balance(stage):
            got = w.get_balance(cs)
            ops.append("w balance b%d" % rep)
            impl.append(str(got))
            res.case(("balance", rep, stage, got), nontrivial=True)
            res.count("balance_checks")
            res.count("balance_with_unused_keys_paid" if any(
                o.public_key.public_key in w.unused_public_keys and o.value > 0 for o in tree.utxo(cs.current_chain_hash).values())
                else "balance_no_unused_key_paid")
            if got != want:
                res.violations.append({"kind": "reported balance is not the total of unspent outputs paying wallet keys",
                                       "reported": got, "expected": want, "stage": stage,
                                       "unused_keys": len(w.unused_public_keys), "handed_out": len(w.public_key_annotations)})

        # the same keys in every split between handed-out and unused: none handed out, one more at a time, all, one restored
        check_balance("none handed out")
        handed = []
        for k in range(n_mine):
            pk = w.get_annotated_public_key("recv")
            handed.append(pk)
            ops.append("w handout recv 0")
            impl.append("ok " + pk.hex())
            check_balance("%d handed out" % (k + 1))
        back = rng.choice(handed)
        w.restore_annotated_public_key(back, "recv")
        ops.append("w restore " + back.hex())
        impl.append("ok")
        check_balance("one restored")
        chain.unpatch()
    # ---- atomic save: the real system calls, and a crash after each of them
    for rep in range(ctx.scale(2, 6)):
        keys = chain.Keys(rng, rng.randrange(2, 30))
        ow = Wallet.empty()
        for i in range(len(keys.pks) // 2):
            ow.keypairs[keys.pks[i]] = keys.sks[i].to_string()
            ow.unused_public_keys.append(keys.pks[i])
        nw = Wallet.empty()
        for i in range(len(keys.pks)):
            nw.keypairs[keys.pks[i]] = keys.sks[i].to_string()
            nw.unused_public_keys.append(keys.pks[i])
        nw.public_key_annotations[nw.unused_public_keys.pop()] = "handed out"
        f = io.StringIO()
        ow.dump(f)
        old = f.getvalue()
        f = io.StringIO()
        nw.dump(f)
        new = f.getvalue()
        # every other run starts with a left-over temporary file from an earlier, interrupted save of a larger wallet
        stale = (new + '\n{"left": "over from an interrupted save", "pad": "%s"}\n' % ("x" * rng.randrange(1, 400))) if rep % 2 == 1 else None
        calls, final = strace_save(old, nw, stale)
        res.count("save_with_stale_temporary_file" if stale else "save_on_clean_directory")
        if calls is None:
            res.notes.append("strace not available: atomic save checked on the Python-level operation sequence only")
            continue
        res.count("save_syscalls", len(calls))
        if final != new:
            res.violations.append({"kind": "after save_wallet the wallet file is not the new wallet"})
        writes_direct = [c for c in calls if c[0] in ("open", "write") and c[1] == "wallet.json"]
        if writes_direct:
            res.violations.append({"kind": "save_wallet writes wallet.json in place", "calls": [c[:2] for c in writes_direct][:3]})
        shape = [c[0] for c in calls]
        if not (shape and shape[0] == "open" and shape[-1] == "rename" and calls[-1][1:] == ("wallet.json.new", "wallet.json")
                and all(s == "write" for s in shape[1:-1])):
            res.violations.append({"kind": "save_wallet is not open(new, truncate), writes, rename(new, wallet.json)",
                                   "calls": [c[:2] for c in calls][:8]})
        for n in range(len(calls) + 1):
            files = replay_prefix(old, calls, n, stale)
            content = files.get("wallet.json")
            res.case(("crash", rep, n), nontrivial=True)
            if content is None or content.decode(errors="replace") not in (old, new):
                res.violations.append({"kind": "after a crash following system call %d the wallet file is neither the complete "
                                               "old nor the complete new wallet" % n, "calls": [c[:2] for c in calls][:8]})
            if n == len(calls) and content is not None and content.decode() != new:
                res.violations.append({"kind": "after the last system call the wallet file is not the new wallet"})
            # … and the node is started again on what the crash left behind (scripts/utils.open_or_init_wallet): the wallet
            # file is still a complete wallet afterwards, and what is loaded is the previous or the new wallet
            if content is not None:
                import contextlib
                import skepticoin.scripts.utils as _su
                d_ = tempfile.mkdtemp(prefix="skv-restart-")
                cwd_ = os.getcwd()
                try:
                    for name_, data_ in files.items():
                        with open(os.path.join(d_, name_), "wb") as fh_:
                            fh_.write(data_)
                    os.chdir(d_)
                    try:
                        with contextlib.redirect_stdout(io.StringIO()):
                            w3 = _su.open_or_init_wallet()
                        f3 = io.StringIO()
                        w3.dump(f3)
                        loaded = f3.getvalue()
                    except Exception as e:
                        loaded = "start-up raised %r" % e
                    on_disk = open("wallet.json").read() if os.path.isfile("wallet.json") else None
                finally:
                    os.chdir(cwd_)
                    shutil.rmtree(d_, ignore_errors=True)
                res.count("restarts_after_a_crash")
                if on_disk not in (old, new) or loaded not in (old, new):
                    res.violations.append({"kind": "after a crash following system call %d of a save and a restart of the node, the "
                                                   "wallet file / the wallet the node loads is neither the complete previous nor the "
                                                   "complete new wallet (%s)" % (n, loaded[:80] if loaded not in (old, new) else "file"),
                                           "calls": [c[:2] for c in calls][:8]})
        res.sample({"save_wallet_system_calls": [c[:2] if c[0] != "write" else ("write", c[1], len(c[2])) for c in calls][:6]})
    receive_script_under_crash(ctx, res)
    miner_shutdown_probe(ctx, res)
    model = ctx.driver.ask(ops)
    kit.compare(res, ops, impl, model)
    res.rule = ("sequences of 25-60 operations on real Wallet objects (1-6 keys): hand-outs (with random.choice controlled), "
                "restores (also of unannotated keys), and save_wallet + Wallet.load through real files; wallet digest compared "
                "with the model after every operation; monitor: no key handed out twice while unused keys remain unless "
                "restored, file fidelity; the real save_wallet under strace: its system calls must be open(new, O_TRUNC), "
                "writes, rename(new, wallet.json) and a crash is simulated after every call; the real receive script with the "
                "process dying inside the save; the real MinerWatcher.__call__ (collaborators replaced, real wallet file, real node) "
                "to a found block followed by a store failure / Ctrl-C / nothing, then a restart: no key paid by a broadcast block "
                "is handed out again. Distinct non-trivial = operations and crash points")
    return res

"""gens — random structured values built with the repository's own constructors"""
from ipaddress import IPv6Address

from . import kit

kit.setup_env()

from skepticoin.datatypes import (  # noqa: E402
    OutputReference, Input, Output, Transaction, PowEvidence, BlockSummary, BlockHeader, Block)
from skepticoin.signing import (  # noqa: E402
    SECP256k1PublicKey, SECP256k1Signature, SignableEquivalent, CoinbaseData)
from skepticoin.networking.messages import (  # noqa: E402
    MessageHeader, HelloMessage, SupportedVersion, GetBlocksMessage, InventoryItem, InventoryMessage,
    GetDataMessage, DataMessage, GetPeersMessage, Peer, PeersMessage, DATA_BLOCK, DATA_HEADER,
    DATA_TRANSACTION)


def rb(rng, n):
    return bytes(rng.getrandbits(8) for _ in range(n))


def rint(rng, bits):
    """mostly small, sometimes boundary values"""
    c = rng.random()
    if c < 0.15:
        return rng.choice([0, 1, (1 << bits) - 1, (1 << (bits - 1)), 63, 64, 127, 128, 16383, 16384]) % (1 << bits)
    if c < 0.6:
        return rng.randrange(0, min(1 << bits, 300))
    return rng.randrange(0, 1 << bits)


def outref(rng):
    return OutputReference(rb(rng, 32), rint(rng, 32))


def signature(rng):
    c = rng.random()
    if c < 0.2:
        return SignableEquivalent()
    if c < 0.5:
        return CoinbaseData(rint(rng, 32), rb(rng, rng.choice([0, 1, 5, 200, 255, rng.randrange(0, 256)])))
    return SECP256k1Signature(rb(rng, 64))


def pubkey(rng):
    return SECP256k1PublicKey(rb(rng, 64))


def inp(rng):
    return Input(outref(rng), signature(rng))


def out(rng):
    return Output(rint(rng, 64), pubkey(rng))


def tx(rng, max_in=4, max_out=4):
    return Transaction([inp(rng) for _ in range(rng.randrange(0, max_in + 1))],
                       [out(rng) for _ in range(rng.randrange(0, max_out + 1))])


def evidence(rng):
    return PowEvidence(rb(rng, 32), rb(rng, 32), rb(rng, 32))


def summary(rng):
    h = rng.choice([rint(rng, 32), rint(rng, 16), rng.randrange(0, 1 << 70)])
    return BlockSummary(h, rb(rng, 32), rb(rng, 32), rint(rng, 32), rb(rng, 32), rint(rng, 32))


def header(rng):
    return BlockHeader(summary(rng), evidence(rng))


def block(rng, max_tx=4):
    return Block(header(rng), [tx(rng) for _ in range(rng.randrange(0, max_tx + 1))])


def msg_header(rng):
    return MessageHeader(rint(rng, 32), rint(rng, 32), rint(rng, 32), rint(rng, 64))


def ip(rng):
    # what real nodes send are IPv4-mapped addresses (::ffff:a.b.c.d); also the unspecified and the loopback address
    r = rng.random()
    if r < 0.3:
        return IPv6Address(b"\x00" * 10 + b"\xff\xff" + rb(rng, 4))
    if r < 0.36:
        return IPv6Address(rng.choice([bytes(16), bytes(15) + b"\x01", b"\x00" * 10 + b"\xff\xff\x7f\x00\x00\x01"]))
    return IPv6Address(rb(rng, 16))


def message(rng):
    k = rng.randrange(0, 9)
    if k == 0:
        return HelloMessage([SupportedVersion(rint(rng, 8)) for _ in range(rng.randrange(0, 4))],
                            ip(rng), rint(rng, 16), ip(rng), rint(rng, 16), rint(rng, 32),
                            rb(rng, rng.choice([0, 7, 255, rng.randrange(0, 256)])))
    if k == 1:
        return GetBlocksMessage([rb(rng, 32) for _ in range(rng.choice([0, 1, 3, 70]))], rb(rng, 32))
    if k == 2:
        return InventoryMessage([InventoryItem(rb(rng, 2), rb(rng, 32)) for _ in range(rng.choice([0, 1, 5, 130]))])
    if k == 3:
        return GetDataMessage(rb(rng, 2), rb(rng, 32))
    if k == 4:
        return DataMessage(DATA_BLOCK, block(rng))
    if k == 5:
        return DataMessage(DATA_TRANSACTION, tx(rng))
    if k == 6:
        return DataMessage(DATA_HEADER, header(rng))
    if k == 7:
        return GetPeersMessage()
    return PeersMessage([Peer(rint(rng, 32), ip(rng), rint(rng, 16)) for _ in range(rng.choice([0, 1, 4, 65]))])


CONSENSUS_TYPES = {
    "outref": (OutputReference, outref),
    "pk": (None, pubkey),          # decoded through PublicKey.stream_deserialize
    "input": (Input, inp),
    "output": (Output, out),
    "tx": (Transaction, tx),
    "evidence": (PowEvidence, evidence),
    "summary": (BlockSummary, summary),
    "header": (BlockHeader, header),
    "block": (Block, block),
}


def mutate(rng, bs):
    """one structural corruption of an encoding: bit flip, truncation, insertion of a padding
    byte, byte replaced by a tag-like value, trailing data"""
    if not bs:
        return rb(rng, rng.randrange(0, 4))
    b = bytearray(bs)
    k = rng.randrange(0, 7)
    i = rng.randrange(0, len(b))
    if k == 0:
        b[i] ^= 1 << rng.randrange(0, 8)
    elif k == 1:
        del b[i:]
    elif k == 2:
        b.insert(i, rng.choice([0x80, 0x80, 0x00, 0x40, 0xff]))
    elif k == 3:
        b[i] = rng.choice([0, 1, 2, 3, 0x80, 0xff])
    elif k == 4:
        b += rb(rng, rng.randrange(1, 5))
    elif k == 5:
        del b[i]
    else:
        j = rng.randrange(0, len(b))
        b[i], b[j] = b[j], b[i]
    return bytes(b)

"""C18 — checkpoints: every checkpointed height with the right and a wrong id through the real
validate_block_in_coinstate and the model's; conformance of genesis and the recorded blocks of
the real network (ids, byte-identical re-encoding, full validation with the REAL scrypt)."""
import os
import struct

from . import kit, chain
from .kit import hx, sha256d

import skepticoin.consensus as consensus
import skepticoin.cheating as cheating
from skepticoin.humans import computer, human
from skepticoin.coinstate import CoinState
from skepticoin.datatypes import Block, BlockHeader, BlockSummary, PowEvidence
from skepticoin.genesis import genesis_block_data


def fake_block(height, ident):
    s = BlockSummary(height, b"\x00" * 32, b"\x00" * 32, 0, b"\x00" * 32, 0)
    return Block(BlockHeader(s, PowEvidence(b"\x00" * 32, b"\x00" * 32, b"\x00" * 32)), [], hash=ident)


def verdict(block, cs):
    try:
        consensus.validate_block_in_coinstate(block, cs)
        return "ok"
    except Exception:
        return "rej"


def own_checkpoints(ctx, res):
    """a table of the harness's own making over a chain of its own making: nodes whose head lies below, at and beyond the
    horizon are offered, at every checkpointed height, the block with the checkpoint's id and a competitor that is valid in
    every other respect (built and mined on the real parent while no table was installed)"""
    rng = ctx.rng
    for si in range(ctx.scale(2, 8)):
        chain.patch(horizon=-1)
        keys = chain.Keys(rng, 3)
        tree = chain.Tree(rng, keys)
        n = rng.randrange(6, 10)
        for _ in range(n):
            tree.extend(n_tx=rng.choice([0, 0, 1]))
        main = list(tree.blocks)                       # heights 0..n, linear
        cps = sorted(rng.sample(range(1, n), rng.randrange(1, 4)))
        comps = {h: tree.extend(main[h - 1].hash(), n_tx=0) for h in cps}
        known = {0: human(main[0].hash())}
        known.update({h: human(main[h].hash()) for h in cps})
        horizon = max(known)
        lines = chain.patch(horizon=horizon, known=known)
        ops, impl = list(lines), ["ok"] * len(lines)
        keys_marked = 0
        for j in range(0, n + 1):
            st = CoinState.empty()
            name = "o%d_%d" % (si, j)
            ops.append("new " + name)
            impl.append("ok")
            for b in main[:j + 1]:
                st = st.add_block_no_validation(b)
                ops.append("addnv %s %s %s" % (name, name, hx(b.serialize())))
                impl.append("ok")
            ops.extend(keys.oracle_lines(keys_marked))
            impl.extend(["ok"] * (len(keys.oracle) - keys_marked))
            keys_marked = len(keys.oracle)
            for h in cps:
                if h - 1 > j:
                    continue
                for kind, blk in (("checkpointed", main[h]), ("competitor", comps[h])):
                    now = blk.timestamp + 200
                    try:
                        st.add_block(blk, now)
                        v = "ok"
                    except Exception:
                        v = "rej"
                    ops.append("add x %s %s %d" % (name, hx(blk.serialize()), now))
                    impl.append(v)
                    res.case(("own", si, j, h, kind))
                    res.count("own_table:%s:head_%s_horizon" % (kind, "below" if j < horizon else "at_or_beyond"))
                    info = {"scenario": si, "head_height": j, "height": h, "horizon": horizon, "table": known,
                            "block": blk.serialize().hex(), "chain": [b.serialize().hex() for b in main[:j + 1]]}
                    if kind == "competitor" and v == "ok":
                        res.violations.append({**info, "kind": "a competing block at a checkpointed height (another id than the "
                                               "table's) is accepted by a node whose head is at height %d" % j})
                    if kind == "checkpointed" and v != "ok":
                        res.violations.append({**info, "kind": "the block with the checkpoint's id is refused"})
        # an alternative history that never claims the checkpointed height: on the last block below the horizon, a block that
        # claims the height just above the horizon (its reward data says the same, its evidence is ground until the sample does
        # not ask for the height it skips) — valid in every respect except that its height is not its parent's plus one
        par_ = main[horizon - 1]
        view_ = chain.view(tree.cs, par_.hash())
        claimed = horizon + 1
        from . import ledger as _ledger
        cb_ = _ledger.coinbase(claimed, chain.subsidy(claimed), keys.pk(0))
        root_ = consensus.calc_merkle_root_hash([cb_])
        ts_ = par_.timestamp + 5
        skip_blk = None
        try:
            tgt_ = consensus.calc_target(view_, claimed, ts_, par_)
        except Exception:
            tgt_ = par_.target
        for nonce_ in range(60000):
            s_ = BlockSummary(claimed, par_.hash(), root_, ts_, tgt_, nonce_)
            try:
                ev_ = consensus.construct_pow_evidence(view_, s_, claimed, [cb_])
            except Exception:
                continue
            b_ = Block(BlockHeader(s_, ev_), [cb_])
            if b_.hash() < b_.target:
                skip_blk = b_
                break
        if skip_blk is not None:
            st = CoinState.empty()
            name = "o%d_skip" % si
            ops.append("new " + name)
            impl.append("ok")
            for b in main[:horizon]:
                st = st.add_block_no_validation(b)
                ops.append("addnv %s %s %s" % (name, name, hx(b.serialize())))
                impl.append("ok")
            now = skip_blk.timestamp + 200
            try:
                st.add_block(skip_blk, now)
                v = "ok"
            except Exception:
                v = "rej"
            ops.append("add x %s %s %d" % (name, hx(skip_blk.serialize()), now))
            impl.append(v)
            res.case(("own-skip", si, horizon))
            res.count("own_table:height_skipping_competitor")
            if v == "ok":
                res.violations.append({"kind": "a block on the last block below the horizon that claims the height above the horizon "
                                               "(skipping the checkpointed height %d) is accepted: an alternative history passes the "
                                               "checkpoint" % horizon, "scenario": si, "horizon": horizon, "table": known,
                                       "block": skip_blk.serialize().hex(), "chain": [b.serialize().hex() for b in main[:horizon]]})
        else:
            res.count("own_table:height_skipping_competitor_not_found")
        # a node that has no block at all yet (validating a chain from scratch): the table's block 0, another genesis, and
        # parentless competitors at the checkpointed heights
        name = "o%d_empty" % si
        ops.append("new " + name)
        impl.append("ok")
        alt = chain.custom_genesis(keys, timestamp=main[0].timestamp + 1 + si)
        offers = [("competitor", 0, alt)] + [("competitor", h, comps[h]) for h in cps] + [("checkpointed", 0, main[0])]
        for kind, h, blk in offers:
            st = CoinState.empty()
            now = blk.timestamp + 200
            try:
                st.add_block(blk, now)
                v = "ok"
            except Exception:
                v = "rej"
            if kind == "competitor":        # (the accepted block 0 comes last: the model's state stays empty until then)
                ops.append("add x %s %s %d" % (name, hx(blk.serialize()), now))
                impl.append(v)
            res.case(("own-empty", si, h, kind))
            res.count("own_table:%s:no_block_yet" % kind)
            info = {"scenario": si, "head_height": None, "height": h, "horizon": horizon, "table": known,
                    "block": blk.serialize().hex(), "chain": []}
            if kind == "competitor" and v == "ok":
                res.violations.append({**info, "kind": "a competing block at a checkpointed height (another id than the "
                                       "table's) is accepted by a node that has no block yet"})
            if kind == "checkpointed" and v != "ok":
                res.violations.append({**info, "kind": "the block with the checkpoint's id is refused by a node that has no block yet"})
        model = ctx.driver.ask(ops)
        model = [m.split(" ")[0] if m.startswith("rej") else m for m in model]
        kit.compare(res, ops, impl, model)
        chain.unpatch()


def run(ctx):
    res = kit.Result()
    rng = ctx.rng
    own_checkpoints(ctx, res)
    chain.unpatch()
    table = dict(cheating.KNOWN_HASHES)
    horizon = cheating.MAX_KNOWN_HASH_HEIGHT
    # the real table in the real module (no replacement) and in the model
    ops = ["p maxKnownHeight %d" % horizon] + ["known %d %s" % (h, v) for h, v in table.items()]
    impl = ["ok"] * len(ops)
    cs = CoinState.empty()
    if horizon != max(table):
        res.violations.append({"kind": "horizon is not the greatest checkpointed height", "horizon": horizon})
    for h, v in table.items():
        right = computer(v)
        wrongs = [bytes([right[0] ^ 1]) + right[1:], right[:-1] + bytes([right[-1] ^ 0x80]), bytes(32),
                  bytes(rng.getrandbits(8) for _ in range(32))]
        r = verdict(fake_block(h, right), cs)
        ops.append("chk %d %s" % (h, right.hex()))
        impl.append(r)
        res.case(("right", h))
        if r != "ok":
            res.violations.append({"kind": "block with the checkpoint's id rejected at a checkpointed height", "height": h})
        for w in wrongs:
            r = verdict(fake_block(h, w), cs)
            ops.append("chk %d %s" % (h, w.hex()))
            impl.append(r)
            res.case(("wrong", h, w))
            if r != "rej":
                res.violations.append({"kind": "block with a wrong id accepted at a checkpointed height", "height": h,
                                       "id": w.hex(), "checkpoint": v})
    # the wire format of the height field at every checkpointed height is the real network's (its variable-length integers
    # carry one more leading octet than the textbook encoding when the bit length is a multiple of 7; a node that writes or
    # expects anything else computes other ids than the network at those heights). Reference encoder: the harness's own.
    def network_vlq(n):
        k = n.bit_length() // 7 + 1
        return bytes(((n >> (7 * j)) & 0x7f) | (0x80 if j > 0 else 0) for j in reversed(range(k)))
    fmt_reported = 0
    for h in list(table) + [63, 64, 127, 128, 8191, 8192, 16383, 16384]:
        s_ = BlockSummary(h, b"\x11" * 32, b"\x22" * 32, 1_600_000_000, b"\x00" * 32, 7)
        tail = b"\x22" * 32 + struct.pack(b">I", 1_600_000_000) + b"\x00" * 32 + struct.pack(b">I", 7)
        want = network_vlq(h) + b"\x11" * 32
        got = s_.serialize()[:len(want)]
        res.case(("format", h))
        try:
            back = BlockSummary.deserialize(want + tail).height
        except Exception as e:
            back = repr(e)
        if (got != want or back != h) and fmt_reported < 4:
            fmt_reported += 1
            res.violations.append({"kind": "a block summary at height %d is not written / read in the real network's wire format: "
                                           "written %s, the network writes %s; reading the network's bytes gives %s"
                                           % (h, got[:6].hex(), want[:6].hex(), back), "height": h})
    res.count("checkpointed_heights", len(table))
    # heights below the horizon that are not checkpointed are skipped; above it full validation applies
    for h in [1, 499, 501, horizon - 1, horizon + 1, horizon + 500]:
        r = verdict(fake_block(h, bytes(rng.getrandbits(8) for _ in range(32))), cs)
        ops.append("chk %d %s" % (h, "ab" * 32))
        impl.append(r)
        res.case(("other", h))
    res.sample({"op": ops[len(table) + 1], "impl": impl[len(table) + 1]})

    # ---- conformance with the real network (a test, not a theorem)
    g = Block.deserialize(genesis_block_data)
    if human(g.hash()) != table.get(0):
        res.violations.append({"kind": "genesis id differs from checkpoint 0", "id": human(g.hash())})
    if g.serialize() != genesis_block_data or sha256d(g.header.serialize()) != g.hash():
        res.violations.append({"kind": "genesis does not re-encode to its bytes / id is not the header hash"})
    d = os.path.join(kit.REPO, "tests", "testdata", "chain")
    files = sorted(os.listdir(d)) if os.path.isdir(d) else []
    blocks = []
    for fn in files:
        raw = open(os.path.join(d, fn), "rb").read()
        b = Block.deserialize(raw)
        blocks.append((fn, raw, b))
        if human(b.hash()) != fn.split("-")[1] or b.height != int(fn.split("-")[0]):
            res.violations.append({"kind": "recorded block's id / height differs from its file name", "file": fn,
                                   "id": human(b.hash())})
        if b.serialize() != raw:
            res.violations.append({"kind": "recorded block does not re-encode to its bytes", "file": fn})
    # the node has validated (and mined on) other chains in this process before: anything the implementation keeps
    # process-wide (caches keyed by height, parent, ...) has seen other blocks at the same heights
    chain.patch(horizon=-1)
    warm = chain.Tree(rng, chain.Keys(rng, 3))
    warm.grow(8, fork_prob=0.4)
    res.count("other_chain_validated_first", len(warm.blocks))
    # a node that has been running for a while follows the chain as it grows: a freshly mined valid block whose timestamp is the
    # node's clock — later than the moment this process started by far more than the 30 s a timestamp may lie ahead — is
    # broadcast by a peer and must be adopted
    import time as _time
    from . import node as _node
    fresh = chain.Tree(rng, chain.Keys(rng, 3))
    fb = fresh.extend(dt=int(_time.time()) - fresh.blocks[0].timestamp + 200000 + rng.randrange(0, 10 ** 6), n_tx=0)
    fb2 = fresh.extend(fb.hash(), dt=61, n_tx=0)
    rn_ = _node.RealNode(CoinState.empty().add_block_no_validation(fresh.blocks[0]), [])
    rn_.add_peer(active=True)
    for blk_ in (fb, fb2):
        _node.CLOCK[0] = blk_.timestamp + 2
        rn_.deliver_block(0, blk_, 0)
        res.case(("fresh-block", blk_.hash()), nontrivial=True)
        if rn_.cm.coinstate.current_chain_hash != blk_.hash():
            res.violations.append({"kind": "a freshly mined valid block (timestamp 2 s behind the node's clock, which is far later than "
                                           "the moment the node was started) broadcast by a peer was not adopted: the node no longer "
                                           "follows the chain", "block": blk_.serialize().hex(), "clock": _node.CLOCK[0]})
            break
    rn_.close()
    res.count("fresh_blocks_delivered_to_a_long_running_node", 2)
    # full validation, horizon disabled, real scrypt
    lines = chain.patch(horizon=-1, scrypt=False)
    real = CoinState.empty().add_block_no_validation(g)
    ops2 = lines + ["new r", "addnv r r " + hx(genesis_block_data)]
    impl2 = ["ok"] * len(ops2)
    from skepticoin.hash import scrypt as real_scrypt
    # every later recorded block is first offered out of order (its parent is not stored yet: refused, nothing changes) — as
    # when several peers deliver a chain at different speeds — and then again in its turn
    for fn, raw, b in blocks[1:]:
        try:
            real.add_block(b, b.timestamp)
            v = "ok"
            res.violations.append({"kind": "recorded block accepted before its parent is stored", "file": fn})
        except Exception:
            v = "rej"
        ops2.append("add r r %s %d" % (hx(raw), b.timestamp))
        impl2.append(v)
        res.count("recorded_block_offered_before_its_parent")
    for fn, raw, b in blocks:
        try:
            real = real.add_block(b, b.timestamp)
            v = "ok"
        except Exception as e:
            v = "rej"
            res.violations.append({"kind": "recorded block of the real network fails full validation (real scrypt)",
                                   "file": fn, "error": repr(e)[:200]})
        pw, salt = b.header.summary.serialize(), b.height.to_bytes(8, "big")
        ops2.append("scrypt %s %s %s" % (hx(pw), hx(salt), real_scrypt(pw, salt).hex()))
        impl2.append("ok")
        ops2.append("add r r %s %d" % (hx(raw), b.timestamp))
        impl2.append(v)
        res.case(("recorded", fn))
    ops2.append("digest r full")
    impl2.append(chain.state_digest(real))
    # the same recorded blocks when a competing block for height 1 was stored first (as a download with validation
    # skipped stores it): the real chain is a side branch until it is the higher one, and must still validate
    if blocks and blocks[0][2].height == 1:
        from skepticoin.datatypes import Transaction, Input, Output, OutputReference
        from skepticoin.signing import SECP256k1PublicKey, CoinbaseData
        cb = Transaction([Input(OutputReference(b"\x00" * 32, 0), CoinbaseData(1, b"competitor"))],
                         [Output(consensus.get_block_subsidy(1), SECP256k1PublicKey(bytes(rng.getrandbits(8) for _ in range(64))))])
        r1 = blocks[0][2]
        sm = BlockSummary(1, g.hash(), consensus.calc_merkle_root_hash([cb]), r1.timestamp, r1.target, 7)
        comp = Block(BlockHeader(sm, PowEvidence(b"\x01" * 32, b"\x02" * 32, b"\x03" * 32)), [cb])
        side = CoinState.empty().add_block_no_validation(g).add_block_no_validation(comp)
        ops2 += ["new q", "addnv q q " + hx(genesis_block_data), "addnv q q " + hx(comp.serialize())]
        impl2 += ["ok"] * 3
        for fn, raw, b in blocks:
            try:
                side = side.add_block(b, b.timestamp)
                v = "ok"
            except Exception as e:
                v = "rej"
                res.violations.append({"kind": "recorded block of the real network fails full validation (real scrypt) when a "
                                               "competing block for height 1 was stored first", "file": fn,
                                       "competitor": comp.serialize().hex(), "error": repr(e)[:200]})
            ops2.append("add q q %s %d" % (hx(raw), b.timestamp))
            impl2.append(v)
            res.case(("recorded-after-competitor", fn))
        if len(blocks) > 1 and side.current_chain_hash != blocks[-1][2].hash() and not any(
                "competing block" in v_.get("kind", "") for v_ in res.violations):
            res.violations.append({"kind": "after the recorded blocks the head is not the last recorded block although its chain "
                                           "is the higher one", "competitor": comp.serialize().hex()})
        ops2.append("digest q full")
        impl2.append(chain.state_digest(side))
    res.count("recorded_blocks", len(blocks))
    # ids of real blocks are what they are also while another thread of the node hashes candidate headers (the miner watcher)
    hdrs = [g.header] + [b.header for _, _, b in blocks]
    ids_ = [g.hash().hex()] + [b.hash().hex() for _, _, b in blocks]
    extra_ = [BlockHeader(BlockSummary(7 + k_, b"\x11" * 32, b"\x22" * 32, 1_600_000_000 + k_, b"\x00" * 32, k_),
                          PowEvidence(b"\x01" * 32, b"\x02" * 32, b"\x03" * 32)) for k_ in range(6)]
    extra_ids = [sha256d(h_.serialize()).hex() for h_ in extra_]
    kit.concurrent_probe(res, "BlockHeader.hash", lambda: [
        ((lambda h_=h_: h_.hash().hex()), i_, "header at height %d" % h_.summary.height) for h_, i_ in zip(hdrs + extra_, ids_ + extra_ids)])
    res.sample({"recorded": [fn for fn, _, _ in blocks][:2], "validated_with": "real scrypt, horizon disabled"})
    chain.unpatch()
    model = ctx.driver.ask(ops + ops2)
    model = [m.split(" ")[0] if m.startswith("rej") else m for m in model]
    kit.compare(res, ops + ops2, impl + impl2, model)
    res.exhaustive = True
    res.rule = ("all %d checkpointed heights of the real table × {the checkpoint's id, 4 wrong ids} through the real "
                "validate_block_in_coinstate and the model's (same table loaded); heights around the horizon; genesis and "
                "the %d recorded blocks: ids, re-encoding, full validation with the real scrypt and horizon disabled, and "
                "the same blocks through the model with the scrypt values as oracle lines; tables of the harness's own making over "
                "chains of its own making: at every checkpointed height the checkpointed block and an otherwise valid "
                "competitor offered to nodes with heads below, at and beyond the horizon. Distinct non-trivial = "
                "(height, id) pairs and recorded blocks" % (len(table), len(blocks)))
    return res

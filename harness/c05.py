"""C05 — correspondence and monitor: see harness/ledger.py"""
from . import kit, ledger


def run(ctx):
    res = ledger.run_ledger(ctx, "C05")
    kit.optimised_interpreter_probe(res, "ledger")
    # the property's last sentence through the code path the node really assembles blocks with (MinerWatcher: a hand-out on one
    # head, the head moved by a peer's block, the next hand-out): header rules of what comes out — the C12 harness, of which only
    # the findings about the assembled block's header are C05's
    from . import c12
    r12 = c12.run(ctx)
    kit.LAST_RESULT[0] = res
    res.evaluations += r12.evaluations
    res.nontrivial |= r12.nontrivial
    res.count("miner_assembly_rounds_checked", r12.evaluations)
    for v in r12.violations:
        k = v.get("kind", "")
        # (the clock corner — a head 30 s or more ahead of the miner's clock — is the known finding D5 of C12, where the miner's
        # choice of timestamp is specified; it is not imported here)
        if "not later than its parent" in k or "target" in k or "height" in k:
            res.violations.append({**v, "kind": "the node's own block assembly (MinerWatcher): " + k})
    return res

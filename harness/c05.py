"""C05 — correspondence and monitor: see harness/ledger.py"""
from . import kit, ledger


def run(ctx):
    res = ledger.run_ledger(ctx, "C05")
    kit.optimised_interpreter_probe(res, "ledger")
    return res

"""C07 — canonical identity: correspondence (model decoder/encoder vs the real classes) and the
property monitor (re-encoding equals the bytes consumed; id = sha256d of the encoding)."""
import io
import itertools

from . import kit, gens
from .kit import hx, sha256d

from skepticoin.serialization import stream_serialize_vlq, stream_deserialize_vlq
from skepticoin.signing import PublicKey, Signature
from skepticoin.datatypes import Transaction, Block, BlockHeader, BlockSummary
from skepticoin.networking.messages import MessageHeader, Message


def impl_vlqenc(n):
    f = io.BytesIO()
    stream_serialize_vlq(f, n)
    return f.getvalue()


def impl_vlqdec(bs):
    f = io.BytesIO(bs)
    try:
        v = stream_deserialize_vlq(f)
    except Exception:
        return "err", None, None
    return "ok %d %d" % (v, f.tell()), v, f.tell()


def decode_with(tyname, bs):
    cls = {"pk": PublicKey, "sig": Signature}.get(tyname) or gens.CONSENSUS_TYPES[tyname][0]
    f = io.BytesIO(bs)
    obj = cls.stream_deserialize(f)
    return obj, f.tell()


def impl_dec(tyname, bs, res, monitor=True):
    """decode with the real class; returns the protocol line; runs the monitor"""
    try:
        obj, used = decode_with(tyname, bs)
        reenc = obj.serialize()
    except Exception:
        return "err"
    line = "ok %d %s" % (used, hx(reenc))
    ident = None
    if tyname in ("summary", "header"):
        ident = obj.hash()
    elif tyname == "tx":
        ident = obj.hash()
    elif tyname == "block":
        ident = obj.hash()
    if ident is not None:
        line += " " + ident.hex()
    if tyname == "block":
        line += " " + ",".join(t.hash().hex() for t in obj.transactions)
    if monitor:
        # the property, evaluated on the implementation alone
        if reenc != bs[:used]:
            res.violations.append({"kind": "non-canonical encoding accepted", "type": tyname, "bytes": bs.hex(),
                                   "consumed": used, "reencoded": reenc.hex()})
        if tyname == "tx" and obj.hash() != sha256d(reenc):
            res.violations.append({"kind": "id is not the hash of the encoding", "type": tyname, "bytes": bs.hex(),
                                   "id": obj.hash().hex(), "expected": sha256d(reenc).hex()})
        if tyname == "block":
            hid = sha256d(obj.header.serialize())
            if obj.hash() != hid:
                res.violations.append({"kind": "id is not the hash of the encoding", "type": tyname,
                                       "bytes": bs.hex(), "id": obj.hash().hex(), "expected": hid.hex()})
            for t in obj.transactions:
                if t.hash() != sha256d(t.serialize()):
                    res.violations.append({"kind": "transaction id is not the hash of its encoding",
                                           "type": tyname, "bytes": bs.hex()})
        # decode(encode(x)) == x  (value level)
        try:
            obj2, used2 = decode_with(tyname, reenc)
            if used2 != len(reenc) or obj2.serialize() != reenc:
                res.violations.append({"kind": "encode-then-decode changes the value", "type": tyname,
                                       "bytes": bs.hex()})
        except Exception:
            res.violations.append({"kind": "own encoding does not decode", "type": tyname, "bytes": bs.hex()})
    return line


def impl_msg(bs, res):
    f = io.BytesIO(bs)
    try:
        h = MessageHeader.stream_deserialize(f)
        m = Message.stream_deserialize(f)
        return "ok " + hx(h.serialize() + m.serialize())
    except Exception:
        return "err"


def derived_objects(ctx, res):
    """ids of objects the repository's own producers derive from other objects (built in memory, or obtained from bytes and so
    carrying a cached id): the signed form of a transaction (wallet.sign_transaction), its signable equivalent, the signed form
    signed again.  Whatever the provenance, the id is sha256d of the object's own encoding and a node decoding that encoding
    knows it under the same id."""
    from skepticoin.wallet import Wallet, sign_transaction
    from skepticoin.datatypes import Transaction, Input, Output, OutputReference
    from skepticoin.signing import SECP256k1PublicKey, SignableEquivalent
    rng = ctx.rng
    wallet = Wallet.empty()
    wallet.generate_keys(4)
    pubs = list(wallet.keypairs.keys())

    def check(what, prov, t):
        enc = t.serialize()
        res.case(b"derived" + what.encode() + prov.encode() + enc)
        res.count("derived:%s:%s" % (what, prov))
        if t.hash() != sha256d(enc):
            res.violations.append({"kind": "id of a derived transaction is not sha256d of its encoding", "object": what,
                                   "provenance": prov, "id": t.hash().hex(), "expected": sha256d(enc).hex(),
                                   "bytes": enc.hex()})
            return
        d = Transaction.deserialize(enc)
        if d.hash() != t.hash():
            res.violations.append({"kind": "the same transaction is known under two ids (producer vs. decoder of its bytes)",
                                   "object": what, "provenance": prov, "id": t.hash().hex(), "decoded_id": d.hash().hex()})

    for _ in range(ctx.scale(12, 120)):
        utxo = {}
        for _ in range(rng.randrange(1, 4)):
            utxo[OutputReference(gens.rb(rng, 32), rng.randrange(0, 3))] = Output(rng.randrange(1, 10 ** 9),
                                                                                 SECP256k1PublicKey(rng.choice(pubs)))
        outs = [Output(rng.randrange(1, 10 ** 9), SECP256k1PublicKey(rng.choice(pubs))) for _ in range(rng.randrange(1, 3))]
        unsigned = Transaction([Input(r, SignableEquivalent()) for r in utxo], outs)
        for prov in ("memory", "decoded"):
            t0 = unsigned if prov == "memory" else Transaction.deserialize(unsigned.serialize())
            check("unsigned", prov, t0)
            signed = sign_transaction(wallet, utxo, t0)
            check("signed", prov, signed)
            check("signable_equivalent", prov, (signed if prov == "memory" else Transaction.deserialize(signed.serialize()))
                  .signable_equivalent())
            again = sign_transaction(wallet, utxo, Transaction.deserialize(signed.serialize()))
            check("signed_again", prov, again)


def after_failed_encoding(ctx, res):
    """an encoding attempt that raises half-way (a field that does not fit its width, a missing signature) must leave nothing
    behind: the next encodings and ids, of objects built before and after the failure, are what they would have been"""
    from skepticoin.datatypes import Transaction, Input, Output, OutputReference
    from skepticoin.signing import CoinbaseData, SECP256k1PublicKey
    from skepticoin.networking.messages import HelloMessage, SupportedVersion, GetDataMessage, DATA_BLOCK
    from ipaddress import IPv6Address
    rng = ctx.rng

    def failing():
        k = rng.randrange(0, 4)
        if k == 0:      # coinbase data longer than its one-byte length prefix can say
            return "coinbase data of 256 bytes", Transaction(
                [Input(OutputReference(bytes(32), 0), CoinbaseData(5, gens.rb(rng, 256)))], [Output(7, gens.pubkey(rng))])
        if k == 1:      # an input without a signature object
            return "input without signature", Transaction([Input(OutputReference(gens.rb(rng, 32), 1), None)],
                                                          [Output(7, gens.pubkey(rng))])
        if k == 2:      # a value outside the field's range, after other fields have been written
            return "output value 2^64", Transaction([Input(OutputReference(gens.rb(rng, 32), 1), gens.signature(rng))],
                                                    [Output(5, gens.pubkey(rng)), Output(1 << 64, gens.pubkey(rng))])
        return "user agent of 300 bytes", HelloMessage([SupportedVersion(0)], IPv6Address(bytes(16)), 1, IPv6Address(bytes(16)), 2,
                                                        3, gens.rb(rng, 300))

    for _ in range(ctx.scale(24, 200)):
        good = [gens.tx(rng), gens.block(rng), GetDataMessage(DATA_BLOCK, gens.rb(rng, 32))]
        want = [g.serialize() for g in good]
        what, bad = failing()
        try:
            bad.serialize()
            res.count("failed_encoding:did_not_fail:" + what)
            continue
        except Exception:
            pass
        res.count("failed_encoding:" + what)
        res.case(b"after-failed" + what.encode() + want[0])
        fresh = Transaction(list(good[0].inputs), list(good[0].outputs))       # built in memory after the failure: no cached id
        if fresh.hash() != sha256d(want[0]):
            res.violations.append({"kind": "after a failed encoding (%s) a transaction built in memory gets an id that is not "
                                           "sha256d of its encoding" % what, "id": fresh.hash().hex(),
                                   "expected": sha256d(want[0]).hex(), "bytes": want[0].hex()})
            continue
        for g, w in zip(good, want):
            got = g.serialize()
            if got != w:
                res.violations.append({"kind": "after a failed encoding (%s) a %s is encoded differently than before"
                                               % (what, type(g).__name__), "before": w.hex()[:400], "after": got.hex()[:400]})
                break


def run(ctx):
    res = kit.Result()
    rng = ctx.rng
    ops, impl = [], []

    # ---- VLQ: every byte string up to a length, integers round trip
    maxlen = 3 if ctx.thorough else 2
    n_strings = 0
    for ln in range(0, maxlen + 1):
        if ln == 3:
            # all 3-byte strings whose first byte has the continuation bit (the others are
            # 1- or 2-byte encodings followed by trailing data, covered by ln ≤ 2) plus a sample
            firsts = range(128, 256)
        else:
            firsts = None
        for t in itertools.product(range(256), repeat=ln):
            if firsts is not None and t[0] < 128 and (t[1] * 7 + t[2]) % 31 != 0:
                continue
            bs = bytes(t)
            line, v, used = impl_vlqdec(bs)
            ops.append("vlqdec " + hx(bs))
            impl.append(line)
            n_strings += 1
            if v is not None:
                res.case(b"vlqdec" + bs)
                if impl_vlqenc(v) != bs[:used]:
                    res.violations.append({"kind": "non-canonical VLQ accepted", "bytes": bs.hex(), "value": v,
                                           "encoder_writes": impl_vlqenc(v).hex()})
            else:
                res.evaluations += 1
    res.count("vlq_byte_strings", n_strings)
    top = (1 << 21) if ctx.thorough else (1 << 15)
    ints = list(range(0, top)) + [rng.randrange(0, 1 << rng.randrange(1, 71)) for _ in range(3000)] + \
        [(1 << k) + d for k in range(0, 72) for d in (-1, 0, 1) if (1 << k) + d >= 0]
    for n in ints:
        e = impl_vlqenc(n)
        ops.append("vlqenc %d" % n)
        impl.append(e.hex())
        line, v, used = impl_vlqdec(e + b"\x55")
        if v != n or used != len(e):
            res.violations.append({"kind": "VLQ does not round trip", "value": n, "encoding": e.hex()})
        res.case(b"vlqenc%d" % n, nontrivial=(n > 63))
    res.count("vlq_integers", len(ints))
    res.sample({"op": "vlqdec 8040", "impl": impl_vlqdec(bytes([0x80, 0x40]))[0]})
    res.sample({"op": "vlqdec 40", "impl": impl_vlqdec(bytes([0x40]))[0]})

    # ---- hashes (validates the driver's SHA-256 / BLAKE2b against hashlib)
    import hashlib
    for ln in [0, 1, 55, 56, 63, 64, 65, 119, 127, 128, 129, 200, 1000]:
        b = gens.rb(rng, ln)
        ops.append("sha256d " + hx(b))
        impl.append(sha256d(b).hex())
        ops.append("blake2 " + hx(b))
        impl.append(hashlib.blake2b(b, digest_size=32).digest().hex())

    # ---- every consensus type: values (round trip) and byte strings (canonicity)
    n_values = ctx.scale(150, 1500)
    n_mut = ctx.scale(12, 25)
    for tyname, (cls, g) in gens.CONSENSUS_TYPES.items():
        for _ in range(n_values):
            v = g(rng)
            bs = v.serialize()
            trailing = gens.rb(rng, rng.choice([0, 0, 1, 3]))
            line = impl_dec(tyname, bs + trailing, res)
            ops.append("dec %s %s" % (tyname, hx(bs + trailing)))
            impl.append(line)
            res.case(tyname.encode() + bs)
            res.count("value:" + tyname)
            if not line.startswith("ok %d " % len(bs)):
                res.violations.append({"kind": "encode-then-decode fails or consumes a different length",
                                       "type": tyname, "bytes": bs.hex(), "got": line[:200]})
            # malformed stream around this value
            for _ in range(n_mut):
                m = gens.mutate(rng, bs)
                line = impl_dec(tyname, m, res)
                ops.append("dec %s %s" % (tyname, hx(m)))
                impl.append(line)
                res.case(tyname.encode() + m, nontrivial=line != "err")
                res.count(("mutant-accepted:" if line != "err" else "mutant-rejected:") + tyname)
    # long lists (every length prefix of two VLQ bytes and more: 128 … a few thousand): a transaction with many outputs, with
    # many inputs, a block with many transactions — legal values well under the block size limit
    from skepticoin.datatypes import Transaction as _T, Input as _I, Output as _O, OutputReference as _R, Block as _B
    for n_long in (128, 1000, 1001, ctx.scale(1300, 5000)):
        few_in = [_I(_R(gens.rb(rng, 32), 0), gens.signature(rng))]
        t_out = _T(few_in, [_O(1 + k_, gens.pubkey(rng)) for k_ in range(n_long)])
        t_in = _T([_I(_R(gens.rb(rng, 32), k_), gens.signature(rng)) for k_ in range(n_long)], [_O(5, gens.pubkey(rng))])
        b0 = gens.block(rng)
        small = gens.tx(rng)
        b_many = _B(b0.header, [_T(list(small.inputs), [_O(k_ + 1, small.outputs[0].public_key if small.outputs else gens.pubkey(rng))])
                                for k_ in range(n_long)])
        for tyname, v in (("tx", t_out), ("tx", t_in), ("block", b_many)):
            bs = v.serialize()
            line = impl_dec(tyname, bs, res)
            ops.append("dec %s %s" % (tyname, hx(bs)))
            impl.append(line)
            res.case(tyname.encode() + bs)
            res.count("long_list:%s:%d" % (tyname, n_long))
            if not line.startswith("ok %d " % len(bs)):
                res.violations.append({"kind": "encode-then-decode fails or consumes a different length (a list of %d elements)"
                                               % n_long, "type": tyname, "bytes_len": len(bs), "got": line[:200]})
    # signature union separately (all 256 tag bytes)
    for tag in range(256):
        for body in (b"", gens.rb(rng, 3), gens.rb(rng, 64), gens.rb(rng, 70), bytes([0, 0, 0, 5, 3, 1, 2, 3, 9])):
            bs = bytes([tag]) + body
            line = impl_dec("sig", bs, res)
            ops.append("dec sig " + hx(bs))
            impl.append(line)
            res.case(b"sig" + bs, nontrivial=line != "err")
            line = impl_dec("pk", bs, res)
            ops.append("dec pk " + hx(bs))
            impl.append(line)
    # targeted non-minimal length prefixes inside composite encodings (the D1 class)
    for _ in range(ctx.scale(200, 2000)):
        b = gens.block(rng)
        bs = bytearray(b.serialize())
        pos = 1  # height VLQ starts after the version byte
        variant = rng.randrange(0, 3)
        if variant == 0:
            bs.insert(pos, 0x80)
        elif variant == 1 and 64 <= b.height < 128:
            del bs[pos]            # `40` for `80 40`
        else:
            # pad the transaction-count VLQ
            hl = len(b.header.serialize())
            bs.insert(hl, 0x80)
        line = impl_dec("block", bytes(bs), res)
        ops.append("dec block " + hx(bytes(bs)))
        impl.append(line)
        res.case(b"pad" + bytes(bs), nontrivial=True)
        res.count("padded-vlq:" + ("accepted" if line != "err" else "rejected"))
    res.sample({"op": ops[-1][:160] + "…", "impl": impl[-1][:80]})

    # ---- wire messages: round trip
    for _ in range(ctx.scale(400, 4000)):
        h, m = gens.msg_header(rng), gens.message(rng)
        bs = h.serialize() + m.serialize()
        line = impl_msg(bs, res)
        ops.append("dec msg " + hx(bs))
        impl.append(line)
        res.case(b"msg" + bs)
        res.count("message:" + type(m).__name__)
        if line != "ok " + hx(bs):
            res.violations.append({"kind": "wire message does not survive encode-then-decode",
                                   "type": type(m).__name__, "bytes": bs.hex(), "got": line[:200]})
        for _ in range(3):
            mm = gens.mutate(rng, bs)
            ops.append("dec msg " + hx(mm))
            impl.append(impl_msg(mm, res))
            res.evaluations += 1

    derived_objects(ctx, res)
    after_failed_encoding(ctx, res)
    model = ctx.driver.ask(ops)
    kit.compare(res, ops, impl, model)
    # ---- ids of what comes back from the store (freely built blocks the store can hold)
    from . import c08
    c08.arbitrary_blocks(ctx, res)
    res.rule = ("every byte string of length ≤ %d to the VLQ decoder, integers 0..%d and boundary/random ones to 2^71, "
                "random structured values of every consensus type (built with the repository's constructors) with "
                "trailing data, %d structural mutants of each, all 256 tag bytes of the signature/public-key unions, "
                "blocks with padded VLQ fields, random wire messages of all 9 kinds and mutants; a case is non-trivial "
                "when the implementation accepted the bytes (distinct by content)" % (maxlen, top - 1, n_mut))
    res.exhaustive = False
    kit.optimised_interpreter_probe(res, "codec")
    return res

"""C10 — synchronisation and relay.

Part A (correspondence): the locator a node sends and the inventory it answers with, for honest
and adversarial locators over forked chains (fork depth inside and beyond the locator's dense
range, more than one batch), against the model's `locator` / `inventoryReply`.

Part B (execution on the real code; supports the tie, does not stand in for a theorem): 2-3 real
nodes with arbitrary forked chains, connected in every topology by in-memory FIFO channels, run
under seeded random interleavings of deliveries and manager steps until the fixpoint (no message
in flight, every peer answered empty within the back-off window); monitors: heads, completeness
of each head's chain, transaction flood, relay counts."""
import io
import itertools
import random as pyrandom
import selectors
import socket

from . import kit, chain, node
from .kit import hx

import skepticoin.consensus as consensus
import skepticoin.networking.remote_peer as rp
import skepticoin.networking.manager as manager_mod
import skepticoin.blockstore as blockstore
from skepticoin.networking.local_peer import LocalPeer
from skepticoin.networking.remote_peer import ConnectedRemotePeer, INCOMING, OUTGOING, MAGIC
from skepticoin.networking.messages import (
    MessageHeader, Message, GetBlocksMessage, InventoryMessage, DataMessage, DATA_BLOCK, DATA_TRANSACTION)


def real_sync(server, requester, loc, fuel):
    """the whole exchange with the real handlers on both sides: inventory, the requester's data requests, the responder's
    answers to them, the requester's block handler on each answer (in_response_to != 0), follow-up; returns the requester's
    chain state at the end, or an error string"""
    from skepticoin.networking.messages import GetDataMessage
    rpeer, speer = requester.peers[0], server.peers[0]
    for _ in range(fuel):
        items = server_items(server, loc)
        if items is None:
            return "err server"
        if not items:
            break
        n0 = len(requester.frames(rpeer))
        try:
            rpeer.handle_inventory_message_received(MessageHeader(0, 11, 0, 1), InventoryMessage(
                [rp.InventoryItem(DATA_BLOCK, h) for h in items]))
        except Exception as e:
            return "err " + type(e).__name__
        out = [m for _, m in requester.frames(rpeer)[n0:]]
        rpeer.send_backlog.clear()
        rpeer.send_buffer = b""
        for m in out:
            if isinstance(m, GetDataMessage):
                k0 = len(server.frames(speer))
                try:
                    speer.handle_get_data_message_received(MessageHeader(0, 12, 0, 1), m)
                except Exception as e:
                    return "err server " + type(e).__name__
                answers = [x for _, x in server.frames(speer)[k0:]]
                speer.send_backlog.clear()
                speer.send_buffer = b""
                for dm in answers:
                    try:
                        rpeer.handle_data_message_received(MessageHeader(0, 13, 12, 1), dm)
                    except Exception as e:
                        return "err requester " + type(e).__name__
        rpeer.send_backlog.clear()
        rpeer.send_buffer = b""
        nxt = [m for m in out if isinstance(m, GetBlocksMessage)]
        if len(nxt) != 1:
            return "err followup"
        loc = list(nxt[0].potential_start_hashes)
    return requester.cm.coinstate


# ------------------------------------------------------------------ part A

def reply_items(rn, locator_ids):
    peer = rn.peers[0]
    n0 = len(rn.frames(peer))
    try:
        peer.handle_get_blocks_message_received(MessageHeader(0, 9, 0, 1), GetBlocksMessage(list(locator_ids)))
    except Exception as e:
        return "err " + type(e).__name__
    fr = rn.frames(peer)[n0:]
    items = [m for _, m in fr if isinstance(m, InventoryMessage)]
    # drop what we just queued so the buffers do not grow
    peer.send_backlog.clear()
    peer.send_buffer = b""
    return "ok " + ",".join(i.hash[:8].hex() for i in items[0].items) if items else "err noreply"


def server_items(rn, locator_ids):
    """the items (full ids) of the inventory the real responder sends for this locator; None if it raises"""
    peer = rn.peers[0]
    n0 = len(rn.frames(peer))
    try:
        peer.handle_get_blocks_message_received(MessageHeader(0, 9, 0, 1), GetBlocksMessage(list(locator_ids)))
    except Exception:
        return None
    fr = rn.frames(peer)[n0:]
    items = [m for _, m in fr if isinstance(m, InventoryMessage)]
    peer.send_backlog.clear()
    peer.send_buffer = b""
    return [i.hash for i in items[0].items] if items else None


def real_walk(server, requester, loc, fuel):
    """the follow-up loop with the real handlers on both sides: the responder's handle_get_blocks_message_received and
    the requester's handle_inventory_message_received (whose next GetBlocks message is what is sent back);
    returns (all listed ids, ids whose data the requester asked for) or an error string"""
    listed, asked = [], []
    rpeer = requester.peers[0]
    for _ in range(fuel):
        items = server_items(server, loc)
        if items is None:
            return "err", asked
        if not items:
            break
        listed += items
        n0 = len(requester.frames(rpeer))
        try:
            rpeer.handle_inventory_message_received(MessageHeader(0, 11, 0, 1), InventoryMessage(
                [rp.InventoryItem(DATA_BLOCK, h) for h in items]))
        except Exception as e:
            return "err " + type(e).__name__, asked
        out = [m for _, m in requester.frames(rpeer)[n0:]]
        rpeer.send_backlog.clear()
        rpeer.send_buffer = b""
        rpeer.inventory_messages = []
        asked += [m.hash for m in out if isinstance(m, rp.GetDataMessage)]
        nxt = [m for m in out if isinstance(m, GetBlocksMessage)]
        if len(nxt) != 1:
            return "err followup", asked
        loc = list(nxt[0].potential_start_hashes)
    return listed, asked


def part_a(ctx, res):
    rng = ctx.rng
    for si in range(ctx.scale(4, 14)):
        batch = 5 if si % 2 == 0 else 500
        rp.GET_BLOCKS_INVENTORY_SIZE = batch
        lines = chain.patch(horizon=-1) + ["p inventorySize %d" % batch]
        keys = chain.Keys(rng, 3)
        tree = chain.Tree(rng, keys, genesis=None)
        # a long main chain and forks at several depths (inside and beyond the dense range of the locator)
        main_len = rng.randrange(14, ctx.scale(30, 60))
        for _ in range(main_len):
            tree.extend(n_tx=0)
        main = list(tree.blocks)
        for depth in [1, 3, 9, 12, main_len - 2]:
            if depth < len(main) - 1:
                parent = main[len(main) - 1 - depth].hash()
                b = tree.extend(parent, n_tx=0)
                for _ in range(rng.randrange(0, 3)):
                    b = tree.extend(b.hash(), n_tx=0)
        # a branch none of whose locator entries lies on the main chain: it leaves the main chain at height 1-3 and is
        # 10-12 blocks long (dense part entirely on the branch, first sparse entry below genesis)
        f_ = rng.randrange(1, 4)
        b = tree.extend(main[f_].hash(), n_tx=0)
        for _ in range(rng.randrange(9, 15 - f_ - 1)):
            b = tree.extend(b.hash(), n_tx=0)
        rn = node.RealNode(tree.cs, tree.blocks)
        rn.add_peer(active=True)
        rq = node.RealNode(tree.cs, tree.blocks)          # the requester of the follow-up loop
        rq.add_peer(active=True)
        ops = list(lines) + ["new t"] + ["addnv t t " + hx(b.serialize()) for b in tree.blocks] + ["node new t 0", "node peer 1 0"]
        impl = ["ok"] * len(ops)
        cs = tree.cs
        # the node's own locator, at several heads
        for head in sorted(cs.heads.keys()):
            rn.cm.set_coinstate(chain.view(cs, head))
            ops += ["sethead v t " + head.hex(), "node setstate v 1"]
            impl += ["ok", "ok"]
            msg = rn.cm.get_get_blocks_message()
            ops.append("node locator")
            impl.append("ok " + ",".join(h[:8].hex() for h in msg.potential_start_hashes))
            res.case(("locator", si, head), nontrivial=True)
            # honest locators of every other head, answered by this head
            for other in sorted(cs.heads.keys()):
                v = chain.view(cs, other)
                heights = manager_mod.get_recent_block_heights(v.head().height)
                loc = [v.by_height_at_head()[h].hash() for h in heights]
                ops.append("node invreply " + " ".join(x.hex() for x in loc))
                r = reply_items(rn, loc)
                impl.append(r)
                res.case(("honest", si, head, other), nontrivial=True)
                res.count("honest_locators")
                # (M) an empty reply to an honest locator means the requester is not behind
                if r == "ok " and v.head().height < chain.view(cs, head).head().height:
                    res.violations.append({"kind": "empty inventory although the requester is behind",
                                           "server_height": chain.view(cs, head).head().height,
                                           "requester_height": v.head().height})
                if r.startswith("ok ") and r != "ok ":
                    ids = r[3:].split(",")
                    if len(ids) > batch:
                        res.violations.append({"kind": "inventory larger than the batch size"})
                    # (M) what is listed can be used: the first listed block's parent is a block of the requester's chain
                    # (otherwise the requester receives an orphan it drops, and never gets the blocks in between)
                    first = [b_ for b_ in tree.blocks if b_.hash()[:8].hex() == ids[0]]
                    req_ids = {b_.hash() for b_ in v.by_height_at_head().values()}
                    if first and first[0].previous_block_hash not in req_ids:
                        res.violations.append({"kind": "the inventory sent for an honest locator starts with a block whose parent the "
                                                       "requester does not have (height %d)" % first[0].height,
                                               "server_height": chain.view(cs, head).head().height,
                                               "requester_height": v.head().height,
                                               "locator": [x.hex() for x in loc]})
                # the follow-up loop (real handlers on both sides) against the model's `walk`
                srv_view = chain.view(cs, head)
                fuel = srv_view.head().height + 2
                # the requester stores only its own chain (as after a restart on that branch)
                own_ids = {b_.hash() for b_ in v.by_height_at_head().values()}
                from skepticoin.coinstate import CoinState as _CS
                req_state = _CS.empty()
                for h_ in sorted(v.by_height_at_head().keys()):
                    req_state = req_state.add_block_no_validation(v.by_height_at_head()[h_])
                rq.cm.set_coinstate(req_state)
                listed, asked = real_walk(rn, rq, loc, fuel)
                ops.append("node walk %d %s" % (fuel, " ".join(x.hex() for x in loc)))
                impl.append(listed if isinstance(listed, str) else "ok " + ",".join(h[:8].hex() for h in listed))
                res.case(("walk", si, head, other), nontrivial=True)
                res.count("walks")
                if not isinstance(listed, str):
                    # (M) every block of the responder's active chain is listed or already stored by the requester,
                    # whenever the requester's head is lower than the responder's
                    if v.head().height < srv_view.head().height:
                        missing = [b_ for b_ in srv_view.by_height_at_head().values()
                                   if b_.hash() not in listed and b_.hash() not in req_state.block_by_hash]
                        if missing:
                            res.violations.append({"kind": "the follow-up loop ends without listing %d block(s) of the responder's "
                                                           "active chain that the requester lacks" % len(missing),
                                                   "server_height": srv_view.head().height, "requester_height": v.head().height,
                                                   "first_missing_height": min(b_.height for b_ in missing)})
                    # (M) data is requested for exactly the listed blocks the requester does not store
                    want = [h for h in listed if h not in req_state.block_by_hash]
                    if asked != want:
                        res.violations.append({"kind": "the requester did not ask for exactly the listed blocks it lacks",
                                               "asked": len(asked), "expected": len(want)})
                # the whole exchange (real handlers on both sides, blocks delivered as answers) against the model's `syncRun`
                rq.cm.set_coinstate(req_state)
                rq.store.write_buffer.clear()
                node.CLOCK[0] = max(b_.timestamp for b_ in tree.blocks) + 1000
                end = real_sync(rn, rq, loc, fuel)
                qn = "q%d" % len(ops)
                ops.append("new " + qn)
                impl.append("ok")
                for h_ in sorted(v.by_height_at_head().keys()):
                    ops.append("addnv %s %s %s" % (qn, qn, hx(v.by_height_at_head()[h_].serialize())))
                    impl.append("ok")
                ops.append("node sync %s %d %d %s" % (qn, fuel, node.CLOCK[0], " ".join(x.hex() for x in loc)))
                if isinstance(end, str):
                    impl.append(end)
                else:
                    impl.append("ok head=%s height=%d stored=%d buffered=%d" % (
                        end.current_chain_hash[:8].hex(), end.head().height, len(end.block_by_hash), len(rq.store.write_buffer)))
                    # (M) one requester, one server: the requester ends at least as high as the server
                    if end.head().height < srv_view.head().height:
                        res.violations.append({"kind": "after the whole exchange with one server the requester's head (height %d) "
                                                       "is lower than the server's (%d)" % (end.head().height, srv_view.head().height),
                                               "server_height": srv_view.head().height, "requester_height": v.head().height})
                res.case(("sync", si, head, other), nontrivial=True)
                res.count("whole_exchanges")
                rq.store.write_buffer.clear()
            # adversarial locators: shuffled, with unknown ids, single entries, empty
            for _ in range(ctx.scale(6, 20)):
                k = rng.randrange(0, 6)
                loc = [rng.choice(tree.blocks).hash() if rng.random() < 0.8 else bytes(rng.getrandbits(8) for _ in range(32))
                       for _ in range(k)]
                ops.append("node invreply " + " ".join(x.hex() for x in loc))
                impl.append(reply_items(rn, loc))
                res.case(("adversarial", si, tuple(loc)), nontrivial=True)
                res.count("adversarial_locators")
        rn.close()
        rq.close()
        model = ctx.driver.ask(ops)
        kit.compare(res, ops, impl, model)
    rp.GET_BLOCKS_INVENTORY_SIZE = 500


# ------------------------------------------------------------------ part B

class Net:
    """real nodes, FIFO channels between them; all scheduling is explicit"""

    def __init__(self, rng, coinstates, edges, same_host=False):
        """`same_host`: every node is reached under one address (several nodes on one machine or behind one NAT address),
        told apart by port only — nothing the property says depends on addresses being distinct"""
        node.install_clock()
        self.rng = rng
        self.nodes = []
        for cs in coinstates:
            lp = LocalPeer(disk_interface=node.QuietDisk())
            lp.chain_manager.set_coinstate(cs)
            self.nodes.append(lp)
        self.links = []       # (i, peer_at_i, j, peer_at_j)
        self.queues = {}      # (i, j) -> list of frames from i to j
        self.sent = {}        # (i, j) -> list of (kind, id) sent by i to j
        self.socks = []
        for (i, j) in edges:
            a, b = socket.socketpair()
            a.setblocking(False)
            b.setblocking(False)
            self.socks += [a, b]
            if same_host:
                pi = ConnectedRemotePeer(self.nodes[i], "127.0.0.1", 2412 + j, OUTGOING, None, a, 0)
                pj = ConnectedRemotePeer(self.nodes[j], "127.0.0.1", 40000 + 16 * i + j, INCOMING, None, b, 0)
            else:
                pi = ConnectedRemotePeer(self.nodes[i], "10.0.0.%d" % (j + 1), 2412, OUTGOING, None, a, 0)
                pj = ConnectedRemotePeer(self.nodes[j], "10.0.0.%d" % (i + 1), 40000 + i, INCOMING, None, b, 0)
            self.nodes[i].selector.register(a, selectors.EVENT_READ, data=pi)
            self.nodes[j].selector.register(b, selectors.EVENT_READ, data=pj)
            self.nodes[i].network_manager.handle_peer_connected(pi)
            self.nodes[j].network_manager.handle_peer_connected(pj)
            self.links.append((i, pi, j, pj))
            self.queues[(i, j)] = []
            self.queues[(j, i)] = []
            self.sent[(i, j)] = []
            self.sent[(j, i)] = []
        self.errors = []
        self.transferred_blocks = 0
        self.held = set()     # nodes whose traffic and manager steps are withheld (a slow / late part of the network)
        self.delivered = 0
        self.budget = 60000   # deliveries per run; honest runs of this size need a few thousand

    def close(self):
        for s in self.socks:
            try:
                s.close()
            except Exception:
                pass
        for lp in self.nodes:
            try:
                lp.selector.close()
            except Exception:
                pass

    def collect(self):
        """move what the nodes queued for sending into the channels"""
        for (i, pi, j, pj) in self.links:
            for (src, dst, p) in ((i, j, pi), (j, i, pj)):
                frames = ([p.send_buffer] if p.send_buffer else []) + list(p.send_backlog)
                p.send_buffer = b""
                p.send_backlog.clear()
                for raw in frames:
                    self.queues[(src, dst)].append(raw)
                    f = io.BytesIO(raw[8:])
                    h = MessageHeader.stream_deserialize(f)
                    m = Message.stream_deserialize(f)
                    if isinstance(m, DataMessage) and m.data_type == DATA_BLOCK:
                        self.sent[(src, dst)].append(("B", m.data.hash(), h.in_response_to))
                        self.transferred_blocks += 1
                    elif isinstance(m, DataMessage) and m.data_type == DATA_TRANSACTION:
                        self.sent[(src, dst)].append(("T", m.data.hash(), h.in_response_to))

    def in_flight(self):
        return [k for k, q in self.queues.items() if q and k[0] not in self.held and k[1] not in self.held]

    def peer_for(self, src, dst):
        for (i, pi, j, pj) in self.links:
            if (i, j) == (src, dst):
                return pj
            if (j, i) == (src, dst):
                return pi
        raise KeyError

    def deliver(self, src, dst):
        raw = self.queues[(src, dst)].pop(0)
        p = self.peer_for(src, dst)
        try:
            p.handle_receive_data(raw)
        except Exception as e:
            self.errors.append("%d->%d: %r" % (src, dst, e))
        self.collect()

    def step_net(self, i):
        try:
            self.nodes[i].network_manager.step(node.CLOCK[0])
        except Exception as e:
            self.errors.append("net step %d: %r" % (i, e))
        self.collect()

    def step_chain(self, i):
        if i in self.held:
            return
        orig = pyrandom.choice
        pyrandom.choice = lambda seq: seq[self.rng.randrange(0, len(seq))]
        try:
            self.nodes[i].chain_manager.step(node.CLOCK[0])
        except Exception as e:
            self.errors.append("chain step %d: %r" % (i, e))
        finally:
            pyrandom.choice = orig
        self.collect()

    def drain(self, with_steps=True):
        """random interleaving of deliveries (and manager steps) until nothing is in flight"""
        guard = 0
        while self.in_flight() and guard < 200000 and self.delivered < self.budget:
            guard += 1
            self.delivered += 1
            if with_steps and self.rng.random() < 0.08:
                i = self.rng.randrange(0, len(self.nodes))
                node.CLOCK[0] += self.rng.choice([0, 1, 3])
                (self.step_chain if self.rng.random() < 0.5 else self.step_net)(i)
                continue
            src, dst = self.rng.choice(sorted(self.in_flight()))
            self.deliver(src, dst)

    def run_to_fixpoint(self, max_windows=60, late=()):
        """until a whole back-off window passes in which every fetch is answered empty; the nodes in `late` take part
        only after the others have reached a fixpoint among themselves (staged schedule: one of the fair schedules)"""
        for lp_i in range(len(self.nodes)):
            self.step_net(lp_i)                      # greetings
        if late:
            self.held = set(late)
            first = self._windows(max_windows)
            self.held = set()
            if first is None:
                return None
        self.drain()
        return self._windows(max_windows)

    def _windows(self, max_windows):
        self.drain()
        for w in range(max_windows):
            if self.delivered >= self.budget:
                return None                                   # the traffic does not come to rest
            node.CLOCK[0] += 61 + self.rng.randrange(0, 30)   # past EMPTY_INVENTORY_BACKOFF and IBD_PEER_TIMEOUT
            moved = self.transferred_blocks
            heads = [lp.chain_manager.coinstate.current_chain_hash for lp in self.nodes]
            # within this window ask until nobody has anyone left to ask
            for _ in range(12):
                order = list(range(len(self.nodes)))
                self.rng.shuffle(order)
                for i in order:
                    self.step_chain(i)
                    if self.rng.random() < 0.5:
                        self.drain()
                self.drain()
                node.CLOCK[0] += 1
            if self.transferred_blocks == moved and heads == [lp.chain_manager.coinstate.current_chain_hash for lp in self.nodes]:
                return w + 1
        return None


def complete_chain(cs):
    h = cs.current_chain_hash
    n = 0
    while h != b"\x00" * 32:
        if h not in cs.block_by_hash:
            return False
        h = cs.block_by_hash[h].previous_block_hash
        n += 1
    return n == cs.head().height + 1


def part_b(ctx, res):
    rng = ctx.rng
    topologies = {2: [[(0, 1)]], 3: [[(0, 1), (1, 2)], [(0, 1), (0, 2)], [(0, 1), (1, 2), (0, 2)], [(1, 0), (2, 1)]]}
    n_runs = ctx.scale(6, 40)
    store_path = "c10_store.db"
    for ri in range(n_runs):
        n_nodes = 2 if ri % 3 == 0 else 3
        batch = 5 if ri % 2 == 0 else 500
        rp.GET_BLOCKS_INVENTORY_SIZE = batch
        chain.patch(horizon=-1)
        keys = chain.Keys(rng, 4)
        tree = chain.Tree(rng, keys, genesis=None)
        beyond = (ri % 3 == 1)
        if beyond:
            # the fork point lies between two sparse locator heights of the shorter branch, more than a batch above the
            # lower one: the first reply consists of blocks the requester already has
            batch = 5
            rp.GET_BLOCKS_INVENTORY_SIZE = batch
        common = rng.randrange(6, 14) if beyond else rng.randrange(1, 6)
        for _ in range(common):
            tree.extend(n_tx=rng.choice([0, 0, 1]))
        fork_point = tree.cs.current_chain_hash
        tips = []
        depth_kind = "beyond_dense" if beyond else rng.choice(["shallow", "deep", "multi_batch"])
        for k in range(n_nodes):
            h = fork_point
            length = {"shallow": rng.randrange(0, 6), "deep": rng.randrange(11, 20),
                      "beyond_dense": rng.choice([10, 11, 17, 18, 19, 20]) + (3 * k if k else 0),
                      "multi_batch": rng.randrange(6, 14) if batch == 5 else rng.randrange(0, 6)}[depth_kind]
            if k == 0 and rng.random() < 0.3 and not beyond:
                length = 0
            for _ in range(length):
                h = tree.extend(h, n_tx=rng.choice([0, 0, 1])).hash()
            tips.append(h)
        # each node knows the common part and its own branch only
        coinstates = []
        from skepticoin.coinstate import CoinState
        for k in range(n_nodes):
            ch, h = [], tips[k]
            while h != b"\x00" * 32:
                ch.append(tree.cs.block_by_hash[h])
                h = ch[-1].previous_block_hash
            cs = CoinState.empty()
            for b in reversed(ch):
                cs = cs.add_block_no_validation(b)
            coinstates.append(cs)
        best = max(cs.head().height for cs in coinstates)
        if blockstore.DefaultBlockStore.instance is not None:
            try:
                blockstore.DefaultBlockStore.instance.close()
            except Exception:
                pass
        import os
        if os.path.exists(store_path):
            os.remove(store_path)
        blockstore.DefaultBlockStore.instance = blockstore.BlockStore(store_path)
        blockstore.DefaultBlockStore.instance.write_blocks_to_disk([b for b in tree.blocks if b.height > 0])
        node.CLOCK[0] = max(b.timestamp for b in tree.blocks) + 100000
        edges = rng.choice(topologies[n_nodes])
        late = ()
        if beyond and (ri % 6 == 1 or rng.random() < 0.5):
            # a line; the shortest node first synchronises with the middle one (whose first reply overlaps what it has),
            # and only then does the middle one hear from the longest
            edges = [(0, 1), (1, 2)]
            late = (2,)
            res.count("staged_line")
        if ri % 6 == 2 and n_nodes == 3:
            # relay through a node that itself had to pull: a line with the longest chain at one end and the shortest at the
            # other — the far end gets the longest chain's blocks only from the middle node, which obtained them by asking
            order_ = sorted(range(3), key=lambda k_: coinstates[k_].head().height)
            coinstates = [coinstates[k_] for k_ in order_]
            tips = [tips[k_] for k_ in order_]
            edges = [(0, 1), (1, 2)]
            late = ()
            res.count("line_with_longest_at_the_far_end")
        same_host = (ri % 2 == 1)
        net = Net(rng, coinstates, edges, same_host=same_host)
        # a transaction that is broadcast too early: right after the greetings the node with the longest chain submits a spend of
        # an output that only its own branch contains; the others cannot accept it yet. It is broadcast again after convergence
        # (below) and must then reach every pool
        early_tx, early_origin = None, None
        if ri % 2 == 0 and not late:
            kbest = max(range(n_nodes), key=lambda k_: coinstates[k_].head().height)
            csb = coinstates[kbest]
            ub = csb.unspent_transaction_outs_by_hash[csb.current_chain_hash]
            elsewhere = set()
            for k_ in range(n_nodes):
                if k_ != kbest:
                    elsewhere |= {t_.hash() for b_ in coinstates[k_].block_by_hash.values() for t_ in b_.transactions}
            own_only = [(r, o) for r, o in ub.items() if r.hash not in elsewhere and o.public_key.public_key in keys.pks and o.value > 1]
            if own_only and [cs_.head().height for cs_ in coinstates].count(csb.head().height) == 1:
                for lp_i in range(n_nodes):
                    net.step_net(lp_i)
                net.drain(with_steps=False)
                r, o = own_only[0]
                early_tx = chain.make_tx(keys, ub, [r], [(o.value - 1, 2)])
                early_origin = kbest
                if net.nodes[kbest].chain_manager.add_transaction_to_pool(early_tx):
                    net.nodes[kbest].network_manager.broadcast_transaction(early_tx)
                net.collect()
                net.drain(with_steps=False)
                res.count("transaction_broadcast_before_the_others_know_its_input")
        windows = net.run_to_fixpoint(late=late)
        res.count("addresses:" + ("one host, distinct ports" if same_host else "distinct hosts"))
        info = {"run": ri, "nodes": n_nodes, "edges": edges, "batch": batch, "fork": depth_kind, "late": list(late),
                "same_host": same_host,
                "heights": [cs.head().height for cs in coinstates]}
        res.case(("net", ri, tuple(tips)), nontrivial=True)
        res.count("topology:%d-node/%d-edges" % (n_nodes, len(edges)))
        res.count("fork:" + depth_kind)
        res.count("batch:%d" % batch)
        if net.errors:
            res.violations.append({**info, "kind": "a handler raised between honest nodes: %s" % net.errors[0]})
        if windows is None:
            res.violations.append({**info, "kind": "no fixpoint reached: blocks keep moving, heads keep changing or the traffic "
                                   "does not come to rest (%d deliveries)" % net.delivered})
        else:
            res.count("windows_to_fixpoint:%d" % min(windows, 9))
        for k, lp in enumerate(net.nodes):
            cs = lp.chain_manager.coinstate
            if cs.head().height != best:
                res.violations.append({**info, "kind": "node %d's head has height %d, the greatest initial height is %d"
                                       % (k, cs.head().height, best)})
            if not complete_chain(cs):
                res.violations.append({**info, "kind": "node %d does not store the complete chain of its head" % k})
        # a valid transaction broadcast by one node once they share a head reaches every pool
        heads = {lp.chain_manager.coinstate.current_chain_hash for lp in net.nodes}
        if len(heads) == 1 and not net.errors:
            cs0 = net.nodes[0].chain_manager.coinstate
            u = cs0.unspent_transaction_outs_by_hash[cs0.current_chain_hash]
            taken = {i_.output_reference for i_ in early_tx.inputs} if early_tx is not None else set()
            sp = [(r, o) for r, o in u.items() if o.public_key.public_key in keys.pks and o.value > 1 and r not in taken]
            if sp:
                r, o = sp[0]
                tx = chain.make_tx(keys, u, [r], [(o.value - 1, 1)])
                # from a node with the fewest connections (an end of a line: the transaction has to be relayed to reach the rest)
                deg = [sum(1 for e_ in edges if k_ in e_) for k_ in range(n_nodes)]
                origin = min(range(n_nodes), key=lambda k_: (deg[k_], (k_ + ri) % n_nodes))
                lp = net.nodes[origin]
                if lp.chain_manager.add_transaction_to_pool(tx):
                    lp.network_manager.broadcast_transaction(tx)
                net.collect()
                net.drain(with_steps=False)
                for k, lpk in enumerate(net.nodes):
                    if tx.hash() not in [t.hash() for t in lpk.chain_manager.transaction_pool]:
                        res.violations.append({**info, "kind": "a broadcast transaction did not reach node %d's pool" % k})
                res.count("tx_flood_checked")
            # spends of two sibling outputs of one earlier transaction, broadcast one after the other, both reach every pool: a block
            # with a transaction that pays two outputs (a payment and its change, say) is adopted by every node first
            busy = {i_.output_reference for lp_ in net.nodes for t_ in lp_.chain_manager.transaction_pool for i_ in t_.inputs}
            sp1 = [(r, o) for r, o in u.items() if o.public_key.public_key in keys.pks and o.value >= 4 and r not in busy]
            if sp1:
                from skepticoin.datatypes import OutputReference
                r1, o1 = sp1[-1]
                split_tx = chain.make_tx(keys, u, [r1], [(o1.value // 2, 0), (o1.value - o1.value // 2, 1)])
                hb_ = cs0.block_by_hash[cs0.current_chain_hash]
                sb = chain.mine(cs0, cs0.current_chain_hash, [split_tx], keys.pk(0), hb_.timestamp + 10)
                for lpk in net.nodes:
                    lpk.chain_manager.set_coinstate(lpk.chain_manager.coinstate.add_block(sb, sb.timestamp + 5))
                u_ = net.nodes[0].chain_manager.coinstate.unspent_transaction_outs_by_hash[sb.hash()]
                sib = [OutputReference(split_tx.hash(), i_) for i_ in (0, 1)]
                origin = rng.randrange(0, n_nodes)
                lp = net.nodes[origin]
                sibs = [chain.make_tx(keys, u_, [x], [(u_[x].value - 1, 2)]) for x in sib]
                for t_ in sibs:
                    if lp.chain_manager.add_transaction_to_pool(t_):
                        lp.network_manager.broadcast_transaction(t_)
                    net.collect()
                    net.drain(with_steps=False)
                for k, lpk in enumerate(net.nodes):
                    have = [t.hash() for t in lpk.chain_manager.transaction_pool]
                    for n_, t_ in enumerate(sibs):
                        if t_.hash() not in have:
                            res.violations.append({**info, "kind": "of two spends of sibling outputs of one earlier transaction, "
                                                                   "broadcast one after the other, the %s did not reach node %d's pool"
                                                                   % (["first", "second"][n_], k), "tx": t_.serialize().hex()})
                res.count("sibling_spends_flood_checked")
        if early_tx is not None and len(heads) == 1 and not net.errors:
            cs0 = net.nodes[0].chain_manager.coinstate
            u0 = cs0.unspent_transaction_outs_by_hash[cs0.current_chain_hash]
            if all(i_.output_reference in u0 for i_ in early_tx.inputs):
                lp = net.nodes[early_origin]
                if early_tx.hash() in [t.hash() for t in lp.chain_manager.transaction_pool]:
                    lp.network_manager.broadcast_transaction(early_tx)          # the sender's wallet submits it again
                elif lp.chain_manager.add_transaction_to_pool(early_tx):
                    lp.network_manager.broadcast_transaction(early_tx)
                net.collect()
                net.drain(with_steps=False)
                for k, lpk in enumerate(net.nodes):
                    if early_tx.hash() not in [t.hash() for t in lpk.chain_manager.transaction_pool]:
                        res.violations.append({**info, "kind": "a transaction that was first broadcast before the other nodes knew its "
                                                               "input, and again after all nodes share a head on which it is valid, did "
                                                               "not reach node %d's pool" % k, "tx": early_tx.serialize().hex()})
                res.count("early_transaction_rebroadcast_checked")
        # each node relays a given block or transaction at most once (unsolicited Data per id per connection)
        for (src, dst), log in net.sent.items():
            seen = {}
            for kind, ident, irt in log:
                if irt == 0:
                    seen[(kind, ident)] = seen.get((kind, ident), 0) + 1
            for (kind, ident), n in seen.items():
                if early_tx is not None and ident == early_tx.hash() and src == early_origin:
                    n -= 1                      # (submitted twice by its sender, by this harness)
                if n > 1:
                    res.violations.append({**info, "kind": "node %d relayed %s %s to node %d %d times"
                                           % (src, "block" if kind == "B" else "transaction", ident[:6].hex(), dst, n)})
        if len(res.samples) < 4:
            res.sample({**info, "windows": windows, "blocks_transferred": net.transferred_blocks})
        net.close()
    rp.GET_BLOCKS_INVENTORY_SIZE = 500
    try:
        blockstore.DefaultBlockStore.instance.close()
    except Exception:
        pass
    chain.unpatch()


# ------------------------------------------------------------------ part C

def part_c(ctx, res):
    """the fetch scheduler: the real ChainManager.step on a real node with several connections, under a chosen clock and a
    chosen random.choice; between steps the scheduler-relevant fields of a connection change (set directly, or through the
    real empty-inventory handler), the head moves; against the model's chainStep. Monitors (the property's side): a step
    sends at most one request, only to a greeted connection, carrying the node's own locator; a due step with an eligible
    connection and no unexpired request does ask."""
    from skepticoin.networking.remote_peer import InventoryMessageState
    from skepticoin.networking.messages import InventoryItem
    import skepticoin.networking.params as nparams
    rng = ctx.rng
    for si in range(ctx.scale(8, 40)):
        lines = chain.patch(horizon=-1)
        keys = chain.Keys(rng, 2)
        tree = chain.Tree(rng, keys, genesis=None)
        for _ in range(rng.randrange(1, 24)):
            tree.extend(n_tx=0)
        rn = node.RealNode(tree.cs, tree.blocks)
        ops = list(lines) + ["new t"] + ["addnv t t " + hx(b.serialize()) for b in tree.blocks] + ["node new t 0"]
        n_peers = rng.choice([0, 1, 2, 3, 4])
        for k in range(n_peers):
            act, outg = rng.random() < 0.75, rng.random() < 0.5
            rn.add_peer(active=act, outgoing=outg)
            ops.append("node peer %d %d" % (act, outg))
        impl = ["ok"] * len(ops)
        head_ts = tree.cs.head().timestamp
        started = head_ts + rng.choice([-100000, -1000, 0, 10, 250, 400, 100000])
        rn.cm.started_at = started
        rn.cm.actively_fetching_blocks_from_peers = []
        ops.append("fetch new %d" % started)
        impl.append("ok")
        now = started + rng.choice([0, 30, 59, 60, 61, 500])

        def line():
            fl = ",".join("%d:%d" % (t, rn.peers.index(p)) for t, p in rn.cm.actively_fetching_blocks_from_peers)
            return "fetching=%s waiting=%s" % (fl, "".join("1" if p.waiting_for_inventory else "0" for p in rn.peers))

        for step in range(rng.randrange(6, 30)):
            r = rng.random()
            if n_peers and r < 0.35:
                c = rng.randrange(n_peers)
                waiting = rng.random() < 0.4
                npend = rng.choice([0, 0, 1, 3])
                last = rng.choice([0, now - 61, now - 60, now - 59, now - rng.randrange(0, 200)])
                p = rn.peers[c]
                p.waiting_for_inventory = waiting
                p.inventory_messages = ([InventoryMessageState(rn.header(), InventoryMessage(
                    [InventoryItem(DATA_BLOCK, bytes([i + 1]) * 32) for i in range(npend)]))] if npend else [])
                p.last_empty_inventory_response_at = last
                ops.append("fetch peer %d %d %d %d" % (c, waiting, npend, last))
                impl.append("ok")
                res.count("set_peer_fields")
            elif n_peers and r < 0.5:
                c = rng.randrange(n_peers)
                p = rn.peers[c]
                if p.hello_received:
                    node.CLOCK[0] = now
                    try:
                        p.handle_inventory_message_received(rn.header(1, 1), InventoryMessage([]))
                        out = "ret " + line()
                    except Exception:
                        out = "exc"
                    ops.append("fetch emptyinv %d %d" % (c, now))
                    impl.append(out)
                    res.count("empty_inventory")
            elif r < 0.6:
                b = tree.extend(n_tx=0)
                rn.cm.set_coinstate(tree.cs)
                ops += ["addnv t t " + hx(b.serialize()), "node setstate t 1"]
                impl += ["ok", "ok"]
                res.count("head_moves")
            now += rng.choice([0, 1, 29, 30, 59, 60, 61, 120, 301])
            if rng.random() < 0.3:
                now -= now % 60
            pick = rng.randrange(0, 8)
            before = [len(rn.frames(p)) for p in rn.peers]
            due = rn.cm.should_actively_fetch_blocks(now)
            unexpired = [t for t, _p in rn.cm.actively_fetching_blocks_from_peers if now < t]
            eligible = [k for k, p in enumerate(rn.peers) if p.hello_sent and p.hello_received
                        and now > p.last_empty_inventory_response_at + nparams.EMPTY_INVENTORY_BACKOFF]
            own_locator = [h for h in rn.cm.get_get_blocks_message().potential_start_hashes]
            orig = pyrandom.choice
            pyrandom.choice = lambda seq: seq[pick % len(seq)]
            try:
                rn.cm.step(now)
                err = None
            except Exception as e:
                err = e
            finally:
                pyrandom.choice = orig
            sent = []
            info = {"scenario": si, "step": step, "now": now, "pick": pick, "peers": n_peers}
            for k, p in enumerate(rn.peers):
                fr = rn.frames(p)
                for it in fr[before[k]:]:
                    if it != "PARTIAL" and isinstance(it[1], GetBlocksMessage):
                        sent.append("%d<-GB:%s" % (k, ",".join(h[:8].hex() for h in it[1].potential_start_hashes)))
                        if not (p.hello_sent and p.hello_received):
                            res.violations.append({**info, "kind": "a fetch request went to a connection that is not greeted"})
                        if it[1].potential_start_hashes != own_locator:
                            res.violations.append({**info, "kind": "a fetch request does not carry the node's own locator"})
                    else:
                        sent.append("%d<-other" % k)
            if len(sent) > 1:
                res.violations.append({**info, "kind": "one manager step sent %d messages" % len(sent)})
            if err is None and due and eligible and not unexpired and not sent:
                res.violations.append({**info, "kind": "a due step with an eligible connection (%s) and no unexpired request "
                                       "did not ask anyone" % eligible})
            ops.append("fetch step %d %d" % (now, pick))
            impl.append("err" if err is not None else "ok sent=%s %s" % (";".join(sent), line()))
            res.case(("fetch", si, step), nontrivial=bool(n_peers))
            res.count("fetch_step:" + ("asked" if sent else "due_silent" if due else "not_due"))
        rn.close()
        model = ctx.driver.ask(ops)
        model = [m.split(" ", 1)[0] if m.startswith("err") else m for m in model]
        kit.compare(res, ops, impl, model)
    chain.unpatch()


def run(ctx):
    res = kit.Result()
    part_a(ctx, res)
    part_c(ctx, res)
    part_b(ctx, res)
    # what a node queues for a peer (inventories, blocks, transactions) must reach the peer's socket, complete and in order
    chain.patch(horizon=-1)
    keys_ = chain.Keys(ctx.rng, 4)
    tree_ = chain.Tree(ctx.rng, keys_)
    tree_.grow(5, fork_prob=0.2)
    node.write_path_probe(res, ctx.rng, node.probe_messages(tree_, keys_, ctx.rng), "inventories, blocks and transactions")
    chain.unpatch()
    res.rule = ("A: the node's locator and its inventory reply (real handle_get_blocks_message_received / "
                "get_get_blocks_message) for honest locators of every other tip and adversarial locators over chains with "
                "forks at depths 1, 3, 9, 12 and near genesis, batch size 5 and 500, against the model. B (execution, not a "
                "theorem): 2-3 real nodes holding a common prefix plus their own branch (shallow, beyond the dense range, "
                "more than one batch), every topology incl. incoming/outgoing orientation, FIFO channels, seeded random "
                "interleavings of deliveries and manager steps, run to the fixpoint (a back-off window with only empty "
                "replies); monitors: every head at the greatest initial height, complete chains, transaction flood reaches "
                "every pool, at most one unsolicited relay per id and connection, no handler raises. C: the real "
                "ChainManager.step on a node with 0-4 connections (greeted or not), chosen clock (around the 60 s marks, the "
                "back-off and the time-outs) and chosen random.choice, connection fields changed between steps directly or "
                "through the real empty-inventory handler, head moves; against the model's chainStep; monitors: at most one "
                "request per step, to a greeted connection, with the node's own locator; a due step with an eligible "
                "connection and no unexpired request asks. Distinct non-trivial = locators, scheduler steps and network runs")
    return res

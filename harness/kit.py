"""kit — shared machinery of the correspondence harness.

Runs under /venv/bin/python with the repository under test first on sys.path
(SKEPTICOIN_REPO overrides /repo for mutation rehearsal).  Nothing here edits the repository:
every adaptation is a run-time replacement of a module attribute.
"""
import hashlib
import io
import json
import logging
import os
import random
import shutil
import subprocess
import sys
import tempfile
import time

VERIF = os.path.dirname(os.path.dirname(os.path.abspath(__file__)))
REPO = os.environ.get("SKEPTICOIN_REPO", "/repo")
DRV = os.path.join(VERIF, "lean", ".lake", "build", "bin", "drv")

_scratch = None


def setup_env():
    """scratch working directory (chain.db, wallet.json, peers.json land in the cwd), import path"""
    global _scratch
    if _scratch is None:
        _scratch = tempfile.mkdtemp(prefix="skv-")
        os.chdir(_scratch)
        os.environ["PYTHONDONTWRITEBYTECODE"] = "1"
        sys.dont_write_bytecode = True
        if REPO not in sys.path:
            sys.path.insert(0, REPO)
        logging.disable(logging.CRITICAL)
        import atexit
        atexit.register(cleanup)
    return _scratch


def cleanup():
    global _scratch
    if _scratch and os.path.isdir(_scratch):
        try:
            os.chdir("/")
        except OSError:
            pass
        shutil.rmtree(_scratch, ignore_errors=True)
    _scratch = None


def hx(b):
    return b.hex() if b else "-"


def sha256d(b):
    return hashlib.sha256(hashlib.sha256(b).digest()).digest()


class OwnBlockRejected(Exception):
    """the repository's own block assembly produced a block that its own full validation rejects
    (C05 last sentence / C12): raised by the chain builder with the evidence attached"""

    def __init__(self, violation):
        super().__init__(violation.get("kind"))
        self.violation = violation


class PropertyViolation(Exception):
    """raised by shared builders when the implementation visibly violates a property while a scenario is being
    set up; `props` are the properties whose predicate it is"""

    def __init__(self, props, violation):
        super().__init__(violation.get("kind"))
        self.props = props
        self.violation = violation


FOCUS = None          # the property the running check decides (set by ./check)
SIDE = []             # predicates of OTHER properties seen failing while scenarios were being set up


def side_or_raise(props, violation):
    """a shared builder saw the implementation violate a property: abort with it when it is the property being
    decided; otherwise note it (the check reports a broken obligation unless its own monitors find a failing input)
    and let the scenario continue, so that the monitors of the property being decided still get to see the state"""
    if FOCUS is None or FOCUS in props:
        raise PropertyViolation(props, violation)
    if len(SIDE) < 20:
        SIDE.append((props, violation))


class Driver:
    """the Lean model behind its line protocol; batch mode: all lines in, all lines out"""

    def __init__(self):
        if not os.path.exists(DRV):
            raise RuntimeError("driver not built: %s" % DRV)

    def ask(self, lines):
        if not lines:
            return []
        data = ("\n".join(lines) + "\n").encode()
        p = subprocess.run([DRV], input=data, stdout=subprocess.PIPE, stderr=subprocess.PIPE)
        if p.returncode != 0:
            raise RuntimeError("driver failed (%d): %s" % (p.returncode, p.stderr.decode()[-2000:]))
        out = p.stdout.decode().split("\n")
        if out and out[-1] == "":
            out.pop()
        if len(out) != len(lines):
            raise RuntimeError("driver returned %d lines for %d operations" % (len(out), len(lines)))
        return out


LAST_RESULT = [None]     # the Result a harness was filling when it aborted (its violations are not lost)


class Result:
    """what a harness run reports to ./check"""

    def __init__(self):
        LAST_RESULT[0] = self
        self.evaluations = 0
        self.nontrivial = set()       # digests of distinct non-trivial cases
        self.samples = []
        self.rule = ""
        self.distribution = {}
        self.disagreements = []       # model vs implementation: dicts with op / impl / model
        self.violations = []          # the property's predicate failed on the implementation
        self.known = []               # violations matched by a known finding
        self.exhaustive = False
        self.notes = []

    def count(self, key, n=1):
        self.distribution[key] = self.distribution.get(key, 0) + n

    def case(self, digest_src, nontrivial=True):
        self.evaluations += 1
        if nontrivial:
            if not isinstance(digest_src, bytes):
                digest_src = repr(digest_src).encode()
            self.nontrivial.add(hashlib.sha256(digest_src).digest()[:12])

    def sample(self, s, limit=6):
        if len(self.samples) < limit:
            self.samples.append(s)

    def merge(self, other):
        self.evaluations += other.evaluations
        self.nontrivial |= other.nontrivial
        for s in other.samples:
            self.sample(s)
        for k, v in other.distribution.items():
            self.count(k, v)
        self.disagreements += other.disagreements
        self.violations += other.violations
        self.known += other.known
        self.notes += other.notes
        self.exhaustive = self.exhaustive and other.exhaustive


def compare(res, ops, impl_out, model_out, limit=5):
    """diff the two output streams; record the first few differing operations"""
    for op, a, b in zip(ops, impl_out, model_out):
        if a != b:
            if len(res.disagreements) < limit:
                res.disagreements.append({"op": op[:4000], "impl": a[:4000], "model": b[:4000]})
            else:
                res.disagreements.append(None)
    return res


class Ctx:
    def __init__(self, prop, tier, seed):
        self.prop = prop
        self.tier = tier
        self.seed = seed
        self.rng = random.Random((seed * 1000003) ^ hash_str(prop))
        self.driver = Driver()
        self.deadline = None

    @property
    def thorough(self):
        return self.tier == "thorough"

    def scale(self, quick, thorough):
        return thorough if self.thorough else quick


def hash_str(s):
    return int.from_bytes(hashlib.sha256(s.encode()).digest()[:6], "big")


def now():
    return time.time()


def optimised_interpreter_probe(res, what):
    """the scenarios of harness/probe_opt.py in a child interpreter started with -O (a node may be started that way)"""
    p = subprocess.run([sys.executable, "-O", "-m", "harness.probe_opt", what], cwd=VERIF, stdout=subprocess.PIPE,
                       stderr=subprocess.PIPE, env={**os.environ, "PYTHONDONTWRITEBYTECODE": "1", "PYTHONOPTIMIZE": "1"},
                       timeout=600)
    line = [l for l in p.stdout.decode(errors="replace").splitlines() if l.startswith("PROBE ")]
    res.case(("python -O", what), nontrivial=True)
    res.count("optimised_interpreter_probe:" + what)
    if not line:
        raise RuntimeError("the probe under python -O did not report: %s" % p.stderr.decode(errors="replace")[-400:])
    out = json.loads(line[-1][6:])
    if "error" in out:
        raise RuntimeError("the probe under python -O failed: %s" % out["error"])
    if not out.get("optimised"):
        raise RuntimeError("the probe did not run with assertions disabled")
    for f in out["findings"]:
        res.violations.append({"kind": "in an interpreter started with -O (assert statements compiled out): " + f,
                               "replay": "cd /verif && SKEPTICOIN_REPO=%s %s -O -m harness.probe_opt %s" % (REPO, sys.executable, what)})


def concurrent_probe(res, tag, make_jobs, seconds=2.0, threads=4):
    """functions the properties treat as functions, called from several threads of one process at once (a node has a networking
    thread, a miner-watcher thread and whatever the embedding program runs): `make_jobs()` returns a fresh list of
    (callable, expected result, description); the callables of one round run concurrently with a very small thread switch
    interval, round after round for `seconds`; every result must equal the expected one. A sampled search, not a proof: it
    finds shared scratch state only with high probability."""
    import threading
    old = sys.getswitchinterval()
    sys.setswitchinterval(1e-6)
    deadline = time.time() + seconds
    rounds = wrong = 0
    first = None
    try:
        while time.time() < deadline and first is None:
            jobs = make_jobs()
            out = [None] * len(jobs)
            barrier = threading.Barrier(min(threads, len(jobs)))

            def work(idx):
                try:
                    barrier.wait(timeout=5)
                except Exception:
                    pass
                for j in range(idx, len(jobs), threads):
                    try:
                        out[j] = ("ok", jobs[j][0]())
                    except BaseException as e:
                        out[j] = ("raised", repr(e))
            ts = [threading.Thread(target=work, args=(i,), daemon=True) for i in range(min(threads, len(jobs)))]
            for t in ts:
                t.start()
            for t in ts:
                t.join(30)
            rounds += 1
            for j, (fn, want, what) in enumerate(jobs):
                if out[j] != ("ok", want):
                    wrong += 1
                    if first is None:
                        first = (what, out[j], want)
    finally:
        sys.setswitchinterval(old)
    res.case(("concurrent", tag), nontrivial=True)
    res.count("concurrent_probe_rounds:" + tag, rounds)
    if first is not None:
        what, got, want = first
        res.violations.append({"kind": "called from %d threads of one process at once, %s gave %s instead of %s (%s)"
                                       % (threads, tag, str(got)[:160], str(want)[:120], what)})

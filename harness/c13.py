"""C13 — pending pool: interleavings of submissions (valid, conflicting, malformed, already mined,
spending an output of another fork) with head changes (extension, fork switches) on the real
ChainManager, against the model; the monitor re-validates the whole pool after every step."""
from . import kit, chain, node
from .kit import hx

import skepticoin.consensus as consensus
from skepticoin.datatypes import Transaction, Output, Input, OutputReference
from skepticoin.signing import SignableEquivalent


def pool_problems(cm):
    cs, pool = cm.coinstate, cm.transaction_pool
    out = []
    seen = set()
    for t in pool:
        try:
            consensus.validate_non_coinbase_transaction_by_itself(t)
            consensus.validate_non_coinbase_transaction_in_coinstate(t, cs.current_chain_hash, cs)
        except Exception as e:
            out.append("pending transaction %s is not valid at the head: %r" % (t.hash()[:6].hex(), e))
        for i in t.inputs:
            k = (i.output_reference.hash, i.output_reference.index)
            if k in seen:
                out.append("two pending transactions spend the same output")
            seen.add(k)
    return out


def valid_at(cs, t):
    try:
        consensus.validate_non_coinbase_transaction_in_coinstate(t, cs.current_chain_hash, cs)
        return True
    except Exception:
        return False


def overlapping_submission(res, rng, keys, tree, cm, si):
    """a two-thread schedule (the node's networking thread submits a transaction while the miner thread / a block handler
    changes the head): the submitting thread is held inside its in-state validation, the other thread then installs a head
    that mines a rival spend of the same output, and only then is the first thread let go.  Whichever of the two wins the
    manager's lock, afterwards every pending transaction must be valid at the head.  Runs last in a scenario (the model is
    not driven through it)."""
    import threading
    import skepticoin.networking.manager as manager_mod
    head = cm.coinstate.current_chain_hash
    if head != tree.cs.current_chain_hash and head not in tree.cs.block_by_hash:
        return
    utxo = cm.coinstate.unspent_transaction_outs_by_hash[head]
    in_pool = {i.output_reference for t in cm.transaction_pool for i in t.inputs}
    free = [(r, o) for r, o in utxo.items() if o.public_key.public_key in keys.pks and o.value > 1 and r not in in_pool]
    if not free:
        res.count("overlap:no_material")
        return
    r0, o0 = free[0]
    tx = chain.make_tx(keys, utxo, [r0], [(o0.value - 1, 1)])
    rival = chain.make_tx(keys, utxo, [r0], [(o0.value, 2)])
    keep = [t for t in cm.transaction_pool if valid_at(cm.coinstate, t)][:1]
    blk = tree.extend(head, txs=keep + [rival])
    view = chain.view(tree.cs, blk.hash())
    name = "validate_non_coinbase_transaction_in_coinstate"
    orig = getattr(manager_mod, name, None)
    if orig is None:
        res.count("overlap:no_hook_point")
        return
    in_validation, resume = threading.Event(), threading.Event()
    submitter = []

    def held(*a, **kw):
        if threading.current_thread() in submitter and not in_validation.is_set():
            in_validation.set()
            resume.wait(5)
        return orig(*a, **kw)

    errors = []

    def run_a():
        try:
            cm.add_transaction_to_pool(tx)
        except Exception as e:      # noqa
            errors.append(repr(e))

    def run_b():
        try:
            cm.set_coinstate(view)
        except Exception as e:      # noqa
            errors.append(repr(e))

    ta, tb = threading.Thread(target=run_a), threading.Thread(target=run_b)
    submitter.append(ta)
    setattr(manager_mod, name, held)
    try:
        ta.start()
        reached = in_validation.wait(2)
        tb.start()
        tb.join(0.3)
        b_overtook = not tb.is_alive()
        resume.set()
        ta.join(10)
        tb.join(10)
    finally:
        setattr(manager_mod, name, orig)
        resume.set()
    res.case(("overlap", si, tx.hash()), nontrivial=reached)
    res.count("overlap:" + ("head change ran during the validation" if (reached and b_overtook) else
                            "head change waited for the submission" if reached else "validation not reached"))
    if ta.is_alive() or tb.is_alive():
        res.violations.append({"kind": "a submission overlapping a head change did not finish (deadlock)", "scenario": si})
        return
    for msg in pool_problems(cm):
        res.violations.append({"kind": msg, "scenario": si, "after": "a submission overlapping a head change: the submitting "
                               "thread was inside its validation when another thread installed a head that mines a rival spend",
                               "tx": tx.serialize().hex(), "new_head": blk.serialize().hex(),
                               "head_change_overtook_submission": b_overtook, "errors": errors})


def run(ctx):
    res = kit.Result()
    rng = ctx.rng
    for si in range(ctx.scale(4, 16)):
        lines = chain.patch(horizon=-1)
        keys = chain.Keys(rng, 5)
        tree = chain.Tree(rng, keys)
        tree.grow(rng.randrange(5, 9), fork_prob=0.3)
        rn = node.RealNode(tree.cs, tree.blocks)
        rn.add_peer(active=True)
        rn.add_peer(active=True)
        ops = list(lines) + keys.oracle_lines() + ["new t"] + ["addnv t t " + hx(b.serialize()) for b in tree.blocks]
        ops += ["node new t 0", "node peer 1 0", "node peer 1 0"]
        impl = ["ok"] * len(ops)
        sig_mark = len(keys.oracle)
        cm = rn.cm
        mined_txs = [t for b in tree.blocks for t in b.transactions[1:]]
        for step in range(ctx.scale(60, 120)):
            head = cm.coinstate.current_chain_hash
            utxo = cm.coinstate.unspent_transaction_outs_by_hash[head]
            in_pool = {i.output_reference for t in cm.transaction_pool for i in t.inputs}
            c = rng.random()
            kind, tx = None, None
            if step in (20, 45) and head != tree.cs.current_chain_hash:
                # (first bring the node to the tree's head, validated)
                cm.set_coinstate(tree.cs)
                ops.append("sethead v t " + tree.cs.current_chain_hash.hex())
                impl.append("ok")
                ops.append("node setstate v 1")
                impl.append("ok")
                head = cm.coinstate.current_chain_hash
            if step in (20, 45) and head == tree.cs.current_chain_hash and head in tree.own:
                # a head change backwards, twice per scenario: a block adopted unvalidated during a bulk download, a spend of that
                # block's reward admitted on top of it, then a refused block — the node falls back to its last validated state,
                # where the spend's input does not exist
                from . import ledger as _ledger
                blk = tree.extend(head, n_tx=0)
                node.CLOCK[0] = blk.timestamp + 5
                rr = rn.deliver_block(1, blk, 41)
                ops.append("addnv t t " + hx(blk.serialize()))
                impl.append("ok")
                ops.append("node block 1 41 %s %d" % (hx(blk.serialize()), node.CLOCK[0]))
                impl.append(rr)
                u2 = tree.utxo(blk.hash())
                mine = [(r, o) for r, o in u2.items() if r.hash == blk.transactions[0].hash() and o.public_key.public_key in keys.pks
                        and o.value > 1]
                if mine and cm.coinstate.current_chain_hash == blk.hash():
                    r, o = mine[0]
                    tx = chain.make_tx(keys, u2, [r], [(o.value - 1, 0)])
                    r_ = rn.deliver_tx(1, tx)
                    ops.extend(keys.oracle_lines(sig_mark))
                    impl.extend(["ok"] * (len(keys.oracle) - sig_mark))
                    sig_mark = len(keys.oracle)
                    ops.append("node tx 1 " + hx(tx.serialize()))
                    impl.append(r_)
                    res.count("spend_of_an_unvalidated_block's_reward_admitted" if tx.hash() in [t.hash() for t in cm.transaction_pool]
                              else "spend_of_an_unvalidated_block's_reward_refused")
                    bad = _ledger.make_candidate(_ledger.Crafter(tree), "reward_plus1", blk.hash(), [])
                    if bad is not None:
                        node.CLOCK[0] = max(node.CLOCK[0], bad[0].timestamp + 5)
                        rr = rn.deliver_block(1, bad[0], 0)
                        ops.extend(keys.oracle_lines(sig_mark))
                        impl.extend(["ok"] * (len(keys.oracle) - sig_mark))
                        sig_mark = len(keys.oracle)
                        ops.append("node block 1 0 %s %d" % (hx(bad[0].serialize()), node.CLOCK[0]))
                        impl.append(rr)
                        res.count("fall_back_to_the_last_validated_state" if cm.coinstate.current_chain_hash != blk.hash()
                                  else "refused_block_without_fall_back")
                ops.append("node digest")
                impl.append(rn.digest())
                res.case((si, step, "fall_back"), nontrivial=True)
                for msg in pool_problems(cm):
                    res.violations.append({"kind": msg, "scenario": si, "step": step, "after": "fall back after a refused block"})
                continue
            if c < 0.65:
                sub = rng.random()
                sp = [(r, o) for r, o in utxo.items() if o.public_key.public_key in keys.pks and o.value > 0]
                free = [(r, o) for r, o in sp if r not in in_pool]
                forced_bad = None
                if step in (10, 30, 50) and len(free) >= 2:
                    sub, forced_bad = 0.8, ["fee_covers_bad_last", "fee_covers_ghost_last", "fee_covers_bad_last"][(step // 20) % 3]
                if sub < 0.40 and free:
                    k = rng.randrange(1, min(3, len(free)) + 1)
                    rng.shuffle(free)
                    ch = free[:k]
                    tot = sum(o.value for _, o in ch)
                    fee = min(rng.choice([0, 1, 10]), tot - 1)
                    tx = chain.make_tx(keys, utxo, [r for r, _ in ch], [(tot - fee, rng.randrange(0, 5))])
                    kind = "valid"
                elif sub < 0.55 and in_pool:
                    r = rng.choice(sorted(in_pool, key=lambda x: (x.hash, x.index)))
                    if r in utxo and utxo[r].public_key.public_key in keys.pks:
                        extra = [x for x, _ in free[:1]]
                        tot = utxo[r].value + sum(utxo[x].value for x in extra)
                        tx = chain.make_tx(keys, utxo, [r] + extra, [(tot, 0)])
                        kind = "conflicting"
                elif sub < 0.65 and mined_txs:
                    tx = rng.choice(mined_txs)
                    kind = "already_mined"
                elif sub < 0.75 and cm.transaction_pool:
                    tx = rng.choice(cm.transaction_pool)
                    kind = "resubmitted"
                elif sub < 0.85 and free:
                    r, o = free[0]
                    bad = rng.choice(["overspend", "zero", "wrongkey", "nosig", "noinputs", "dupref", "halfsigned", "halfsigned",
                                      "fee_covers_bad_last", "fee_covers_ghost_last"])
                    if forced_bad is not None:
                        bad = forced_bad
                    if bad.startswith("fee_covers") and len(free) < 2:
                        bad = "wrongkey"
                    same_key = [(r2, o2) for r2, o2 in free[1:] if o2.public_key.public_key == o.public_key.public_key]
                    if bad == "halfsigned" and not same_key:
                        bad = "wrongkey"
                    if bad == "overspend":
                        tx = chain.make_tx(keys, utxo, [r], [(o.value + 1, 0)])
                    elif bad == "zero":
                        tx = chain.make_tx(keys, utxo, [r], [(o.value, 0), (0, 1)])
                    elif bad == "wrongkey":
                        tx = chain.make_tx(keys, utxo, [r], [(o.value, 0)],
                                           signer_override={0: (keys.index_of(o.public_key.public_key) + 1) % 5})
                    elif bad == "nosig":
                        t0 = chain.make_tx(keys, utxo, [r], [(o.value, 0)])
                        tx = Transaction([Input(r, SignableEquivalent())], t0.outputs)
                    elif bad == "halfsigned":
                        # two outputs of one key spent together: the first input carries the owner's signature, the last one
                        # 64 bytes that are no signature of anything
                        r2, o2 = same_key[0]
                        t0 = chain.make_tx(keys, utxo, [r, r2], [(o.value + o2.value, 0)])
                        from skepticoin.signing import SECP256k1Signature
                        tx = Transaction([t0.inputs[0], Input(r2, SECP256k1Signature(bytes(rng.getrandbits(8) for _ in range(64))))],
                                         t0.outputs)
                    elif bad == "fee_covers_bad_last":
                        # two inputs, outputs worth no more than the first: the last input is signed by a foreign key
                        r2, o2 = free[1]
                        tx = chain.make_tx(keys, utxo, [r, r2], [(o.value, 0)],
                                           signer_override={1: (keys.index_of(o2.public_key.public_key) + 1) % 5})
                    elif bad == "fee_covers_ghost_last":
                        # … or refers to an output that does not exist
                        from skepticoin.datatypes import OutputReference as _OR
                        ghost = _OR(bytes([0x66]) * 32, 2)
                        tx = chain.make_tx(keys, {**dict(utxo.items()), ghost: Output(7, keys.pk(1))}, [r, ghost], [(o.value, 0)])
                    elif bad == "noinputs":
                        tx = Transaction([], [Output(5, keys.pk(0))])
                    else:
                        tx = chain.make_tx(keys, utxo, [r, r], [(o.value, 0)])
                    kind = "malformed:" + bad
                else:
                    # an output that exists only on another fork
                    for h2, u2 in cm.coinstate.unspent_transaction_outs_by_hash.items():
                        cand = [(r, o) for r, o in u2.items() if r not in utxo and o.public_key.public_key in keys.pks]
                        if cand:
                            r, o = cand[0]
                            tx = chain.make_tx(keys, u2, [r], [(o.value, 0)])
                            kind = "other_fork"
                            break
                if tx is None:
                    continue
                # the bound on a transaction's encoded size, at its edge: for one submission in six the configured bound is set to
                # the very size of the transaction (still admissible) or to one byte less (too big: refused)
                size_limit = None
                if step % 6 == 1 and kind in ("valid", "conflicting", "other_fork"):
                    exact = (step % 12 == 1)
                    size_limit = len(tx.serialize()) - (0 if exact else 1)
                    if not exact:
                        kind = "malformed:one_byte_over_the_size_bound"
                    from .c19 import patch_everywhere
                    saved_limit = patch_everywhere("MAX_BLOCK_SIZE", size_limit)
                    ops.append("p maxBlockSize %d" % size_limit)
                    impl.append("ok")
                    res.count("size_bound_at_the_transaction:" + ("exact" if exact else "one_less"))
                before = list(cm.transaction_pool)
                try:
                    r_ = rn.deliver_tx(1, tx)
                finally:
                    if size_limit is not None:
                        for m_, v_ in saved_limit:
                            m_.MAX_BLOCK_SIZE = v_
                if r_ == "exc":
                    res.count("exception:" + type(rn.last_exception).__name__)
                    res.notes.append("%s: %r" % (kind, rn.last_exception))
                ops.extend(keys.oracle_lines(sig_mark))
                impl.extend(["ok"] * (len(keys.oracle) - sig_mark))
                sig_mark = len(keys.oracle)
                ops.append("node tx 1 " + hx(tx.serialize()))
                impl.append(r_)
                if size_limit is not None:
                    ops.append("p maxBlockSize 200000")
                    impl.append("ok")
                after = list(cm.transaction_pool)
                admitted = len(after) == len(before) + 1
                res.count("submit:" + kind.split(":")[0])
                res.count("admitted" if admitted else "refused")
                if kind in ("conflicting", "other_fork") or kind.startswith("malformed"):
                    if admitted:
                        res.violations.append({"kind": "a %s transaction was admitted to the pool" % kind,
                                               "tx": tx.serialize().hex(), "scenario": si, "step": step})
                if not admitted and after != before:
                    res.violations.append({"kind": "a refused submission changed the pool", "tx": tx.serialize().hex()})
            else:
                # head change: extend the head (possibly mining some pool transactions), or switch to another tip
                before = list(cm.transaction_pool)
                sub = rng.random()
                if sub < 0.3 and head == tree.cs.current_chain_hash and head in tree.own:
                    # the head is extended by a block that arrives as the answer to the node's own request (bulk
                    # download): it is adopted without full validation, the last fully validated state stays behind
                    take = [t for t in before if rng.random() < 0.6 and valid_at(cm.coinstate, t)]
                    if not take:
                        t_ = tree.random_tx(head)
                        take = [t_] if t_ is not None and not ({i.output_reference for i in t_.inputs} & in_pool) else []
                    blk = tree.extend(head, txs=take)
                    mined_txs += take
                    kind = "extend_by_reply"
                    node.CLOCK[0] = blk.timestamp + 5
                    rr = rn.deliver_block(1, blk, 41)
                    ops.extend(keys.oracle_lines(sig_mark))
                    impl.extend(["ok"] * (len(keys.oracle) - sig_mark))
                    sig_mark = len(keys.oracle)
                    ops.append("addnv t t " + hx(blk.serialize()))
                    impl.append("ok")
                    ops.append("node block 1 41 %s %d" % (hx(blk.serialize()), node.CLOCK[0]))
                    impl.append(rr)
                    after = list(cm.transaction_pool)
                    want = [t for t in before if valid_at(cm.coinstate, t)]
                    res.count("head:" + kind)
                    if cm.coinstate.current_chain_hash != blk.hash():
                        res.count("reply-block-not-adopted")
                    if [t.hash() for t in after] != [t.hash() for t in want]:
                        res.violations.append({"kind": "after a head change the pool is not the old pool filtered by validity at the new head",
                                               "scenario": si, "step": step, "head_change": kind,
                                               "pool": [t.hash().hex() for t in after], "expected": [t.hash().hex() for t in want]})
                    # right away: the transactions the new head has mined, and a spend of one of the outputs it spent
                    for t_ in take[:2]:
                        b4 = list(cm.transaction_pool)
                        r_ = rn.deliver_tx(1, t_)
                        ops.append("node tx 1 " + hx(t_.serialize()))
                        impl.append(r_)
                        if len(cm.transaction_pool) != len(b4):
                            res.violations.append({"kind": "a transaction already mined in the current head was admitted to the pool",
                                                   "tx": t_.serialize().hex(), "scenario": si, "step": step})
                        res.count("submit:mined_in_unvalidated_head")
                elif sub < 0.5:
                    take = [t for t in before if rng.random() < 0.5 and valid_at(cm.coinstate, t)]
                    # the extending block may also carry a *different* spend of an output that a pending transaction spends
                    # (mined elsewhere): the pending one is then invalid at the new head although it is not in the block
                    victims = [t for t in before if t not in take and valid_at(cm.coinstate, t)
                               and t.inputs[0].output_reference in utxo
                               and utxo[t.inputs[0].output_reference].public_key.public_key in keys.pks
                               and utxo[t.inputs[0].output_reference].value > 0]
                    if victims and rng.random() < 0.6:
                        a = rng.choice(victims)
                        r0 = a.inputs[0].output_reference
                        taken_refs = {i.output_reference for t in take for i in t.inputs}
                        if r0 not in taken_refs:
                            for pay_to in range(5):
                                rival = chain.make_tx(keys, utxo, [r0], [(utxo[r0].value, pay_to)])
                                if rival.hash() != a.hash():
                                    take = take + [rival]
                                    res.count("extension_mines_a_rival_of_a_pending_spend")
                                    break
                    blk = tree.extend(head, txs=take)
                    mined_txs += take
                    kind = "extend"
                elif sub < 0.75:
                    parent = rng.choice(tree.blocks[-5:]).hash()
                    blk = tree.extend(parent)
                    kind = "fork_block"
                else:
                    blk = None
                    kind = "switch"
                if kind == "extend_by_reply":
                    pass
                elif blk is not None:
                    ops.append("addnv t t " + hx(blk.serialize()))
                    impl.append("ok")
                    ops.extend(keys.oracle_lines(sig_mark))
                    impl.extend(["ok"] * (len(keys.oracle) - sig_mark))
                    sig_mark = len(keys.oracle)
                    new_head = blk.hash() if kind == "extend" else rng.choice(sorted(tree.cs.heads.keys()))
                else:
                    new_head = rng.choice(sorted(tree.cs.heads.keys()))
                if kind != "extend_by_reply":
                    view = chain.view(tree.cs, new_head)
                    cm.set_coinstate(view)
                    ops.append("sethead v t " + new_head.hex())
                    impl.append("ok")
                    ops.append("node setstate v 1")
                    impl.append("ok")
                    after = list(cm.transaction_pool)
                    want = [t for t in before if valid_at(view, t)]
                    res.count("head:" + kind)
                res.count("evicted", len(before) - len(after))
                if kind != "extend_by_reply" and [t.hash() for t in after] != [t.hash() for t in want]:
                    res.violations.append({"kind": "after a head change the pool is not the old pool filtered by validity at the new head",
                                           "scenario": si, "step": step, "head_change": kind,
                                           "pool": [t.hash().hex() for t in after], "expected": [t.hash().hex() for t in want]})
            ops.append("node digest")
            impl.append(rn.digest())
            res.case((si, step, kind), nontrivial=True)
            for msg in pool_problems(cm):
                res.violations.append({"kind": msg, "scenario": si, "step": step, "after": kind})
            if len(res.samples) < 4:
                res.sample({"step": kind, "pool_size": len(cm.transaction_pool)})
        overlapping_submission(res, rng, keys, tree, cm, si)
        rn.close()
        model = ctx.driver.ask(ops)
        kit.compare(res, ops, impl, model)
    chain.unpatch()
    res.rule = ("the real ChainManager (through handle_transaction_received and set_coinstate) on random forked trees: "
                "interleavings of submissions — valid multi-input spends, spends conflicting with the pool, malformed ones "
                "(overspend, zero output, wrong key, placeholder signature, no inputs, repeated reference), already mined, "
                "resubmitted, spending an output of another fork — with head changes (extension mining part of the pool, "
                "blocks on forks, switches between tips); pool, served state and peers' queues compared with the model after "
                "every step; the monitor re-validates every pending transaction at the head, checks pairwise disjoint "
                "references and that each head change filters the pool. Distinct non-trivial = steps")
    return res

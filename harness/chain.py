"""chain — building valid (and deliberately invalid) chains with the repository's own code.

Run-time replacements (nothing in the repository is edited):
  consensus.scrypt                    -> sha256(password + salt)   (the driver's default scrypt)
  consensus.MAX_KNOWN_HASH_HEIGHT/KNOWN_HASHES -> configurable horizon (default: none)
  consensus.BLOCKS_BETWEEN_TARGET_READJUSTMENT / DESIRED_TARGET_READJUSTMENT_TIMESPAN -> optional
"""
import hashlib
import struct

from . import kit

kit.setup_env()

import ecdsa  # noqa: E402
import immutables  # noqa: E402
import skepticoin.consensus as consensus  # noqa: E402
from skepticoin.coinstate import CoinState  # noqa: E402
from skepticoin.datatypes import (  # noqa: E402
    Block, BlockHeader, BlockSummary, Input, Output, OutputReference, Transaction, PowEvidence)
from skepticoin.signing import SECP256k1PublicKey, SECP256k1Signature, CoinbaseData, SignableEquivalent  # noqa: E402
from skepticoin.genesis import genesis_block_data  # noqa: E402
from skepticoin import params as P  # noqa: E402

_ORIG = {}


def fast_scrypt(password, salt):
    return hashlib.sha256(password + salt).digest()


# public keys that are not curve points (nobody can spend what is paid to them): an arbitrary one and the all-zero key
GARBAGE_KEYS = (b"\x05" * 64, b"\x00" * 64)


def keyless_signature_for(message, pk_bytes):
    """the first small k whose pair python-ecdsa itself would accept for this 'key' if it skipped the on-curve check"""
    for k in range(2, 200):
        sig = keyless_signature(message, k)
        try:
            vk = ecdsa.VerifyingKey.from_string(pk_bytes, curve=ecdsa.SECP256k1, validate_point=False)
            if vk.verify(sig, message):
                return sig
        except Exception:
            continue
    return keyless_signature(message, 7)


def keyless_signature(message, k=7):
    """a pair (r, s) = ((kG).x, sha1(message)/k) — what verifies under a 'key' whose point arithmetic degenerates (the
    all-zero key treated as the identity) if the point is never checked to lie on the curve; no private key involved"""
    import hashlib as _h
    g, n = ecdsa.SECP256k1.generator, ecdsa.SECP256k1.order
    z = int.from_bytes(_h.sha1(message).digest(), "big")
    r = (g * k).x() % n
    sv = (z * pow(k, -1, n)) % n
    return r.to_bytes(32, "big") + sv.to_bytes(32, "big")


HALVING = [1_050_000]      # the halving interval in force (documented value unless a run shortens it)


def subsidy(h):
    """the documented schedule, written out here (not the repository's function): 10 coin halved by integer division"""
    e = h // HALVING[0]
    return 0 if e >= 64 else (10 * 100_000_000) // (2 ** e)


def patch(horizon=-1, known=None, interval=None, timespan=None, scrypt=True, halving=None):
    """install the run-time replacements; returns the driver lines that configure the model alike"""
    for name in ("scrypt", "MAX_KNOWN_HASH_HEIGHT", "KNOWN_HASHES", "BLOCKS_BETWEEN_TARGET_READJUSTMENT",
                 "DESIRED_TARGET_READJUSTMENT_TIMESPAN", "SUBSIDY_HALVING_INTERVAL"):
        _ORIG.setdefault(name, getattr(consensus, name))
    lines = []
    if scrypt:
        consensus.scrypt = fast_scrypt
    else:
        consensus.scrypt = _ORIG["scrypt"]
    consensus.MAX_KNOWN_HASH_HEIGHT = horizon
    consensus.KNOWN_HASHES = dict(known or {})
    lines.append("p maxKnownHeight %d" % horizon)
    for h, v in (known or {}).items():
        lines.append("known %d %s" % (h, v))
    consensus.BLOCKS_BETWEEN_TARGET_READJUSTMENT = interval or _ORIG["BLOCKS_BETWEEN_TARGET_READJUSTMENT"]
    consensus.DESIRED_TARGET_READJUSTMENT_TIMESPAN = timespan or _ORIG["DESIRED_TARGET_READJUSTMENT_TIMESPAN"]
    lines.append("p retargetInterval %d" % consensus.BLOCKS_BETWEEN_TARGET_READJUSTMENT)
    lines.append("p retargetTimespan %d" % consensus.DESIRED_TARGET_READJUSTMENT_TIMESPAN)
    consensus.SUBSIDY_HALVING_INTERVAL = halving or _ORIG["SUBSIDY_HALVING_INTERVAL"]
    HALVING[0] = consensus.SUBSIDY_HALVING_INTERVAL
    lines.append("p halvingInterval %d" % consensus.SUBSIDY_HALVING_INTERVAL)
    return lines


def unpatch():
    for k, v in _ORIG.items():
        setattr(consensus, k, v)
    if "SUBSIDY_HALVING_INTERVAL" in _ORIG:
        HALVING[0] = _ORIG["SUBSIDY_HALVING_INTERVAL"]


class Keys:
    """deterministic key pairs; every signature made is recorded as an oracle line for the driver"""

    def __init__(self, rng, n=6):
        self.sks = []
        for i in range(n):
            if i == 1 and n >= 2:
                # the second key is the negation of the first: the same x coordinate (first 32 bytes of the encoding), the
                # other y — two different keys that agree in half of their bytes
                d = ecdsa.SECP256k1.order - self.sks[0].privkey.secret_multiplier
                sk = ecdsa.SigningKey.from_secret_exponent(d, curve=ecdsa.SECP256k1)
            else:
                sk = ecdsa.SigningKey.from_secret_exponent(rng.randrange(1, 2 ** 200), curve=ecdsa.SECP256k1)
            self.sks.append(sk)
        self.pks = [sk.verifying_key.to_string() for sk in self.sks]
        self.oracle = []          # (pk, msg, sig) that verify
        self._seen = set()

    def pk(self, i):
        return SECP256k1PublicKey(self.pks[i % len(self.pks)])

    def index_of(self, pk_bytes):
        return self.pks.index(pk_bytes)

    def sign(self, i, message):
        sig = self.sks[i % len(self.sks)].sign_deterministic(message, hashfunc=hashlib.sha1)
        self.note(self.pks[i % len(self.pks)], message, sig)
        return sig

    def note(self, pk, message, sig):
        key = (pk, message, sig)
        if key not in self._seen:
            self._seen.add(key)
            self.oracle.append(key)

    def oracle_lines(self, start=0):
        return ["sig %s %s %s" % (pk.hex(), kit.hx(m), s.hex()) for (pk, m, s) in self.oracle[start:]]


def verifies(pk_bytes, message, sig_bytes):
    """python-ecdsa's verdict, independent of skepticoin's wrappers"""
    try:
        vk = ecdsa.VerifyingKey.from_string(pk_bytes, curve=ecdsa.SECP256k1)
        return bool(vk.verify(sig_bytes, message))
    except Exception:
        return False


def make_tx(keys, utxo, refs, outputs, signer_override=None, resign=True):
    """spend `refs` (OutputReference list, owned by keys) into `outputs` [(value, key index | raw 64-byte key)]"""
    outs = [Output(v, keys.pk(k) if isinstance(k, int) else SECP256k1PublicKey(k)) for (v, k) in outputs]
    unsigned = Transaction([Input(r, SignableEquivalent()) for r in refs], outs)
    message = unsigned.signable_equivalent().serialize()
    inputs = []
    for n, r in enumerate(refs):
        if signer_override is not None and n in signer_override:
            ki = signer_override[n]
        else:
            ki = keys.index_of(utxo[r].public_key.public_key)
        inputs.append(Input(r, SECP256k1Signature(keys.sign(ki, message))))
    return Transaction(inputs, outs)


def view(cs, at_hash):
    """the same stored blocks, with `at_hash` as the active head (to build on any stored parent)"""
    return CoinState(cs.block_by_hash, cs.unspent_transaction_outs_by_hash, cs.block_by_height_by_hash,
                     cs.heads, at_hash)


def mine(cs, parent_hash, txs, miner_pk, timestamp, data=b"", start_nonce=0, max_tries=200000):
    """a block on `parent_hash` that passes full validation (id below target)"""
    v = view(cs, parent_hash)
    for nonce in range(start_nonce, start_nonce + max_tries):
        b = consensus.construct_block_for_mining(v, list(txs), miner_pk, timestamp, data, nonce % (1 << 32))
        if b.hash() < b.target:
            return b
    raise RuntimeError("no nonce found")


def finish_block(cs, summary, txs):
    """recompute evidence for an edited summary / transaction list (no nonce search)"""
    ev = consensus.construct_pow_evidence(cs, summary, summary.height, txs)
    return Block(BlockHeader(summary, ev), txs)


def remine(cs, summary, txs, max_tries=200000):
    """nonce search for an edited summary (keeps every other field as given)"""
    for nonce in range(max_tries):
        s = BlockSummary(summary.height, summary.previous_block_hash, summary.merkle_root_hash, summary.timestamp,
                         summary.target, nonce)
        b = finish_block(cs, s, txs)
        if b.hash() < b.target:
            return b
    raise RuntimeError("no nonce found")


def wire_transaction(inputs, outs):
    """a transaction as it arrives from the wire, with any 64-bit pattern in its amount fields: built with place-holder amounts,
    the place-holders replaced in the encoding, decoded by the node's decoder. `outs`: (amount 0 ≤ v < 2^64, public key object)"""
    marks = [0x0101010101010100 + i for i in range(len(outs))]
    raw = Transaction(list(inputs), [Output(m, pk) for m, (_, pk) in zip(marks, outs)]).serialize()
    for m, (v, _) in zip(marks, outs):
        mb = m.to_bytes(8, "big")
        assert raw.count(mb) == 1
        raw = raw.replace(mb, v.to_bytes(8, "big"))
    return Transaction.deserialize(raw)


def genesis_block():
    return Block.deserialize(genesis_block_data)


def custom_genesis(keys, timestamp=1_700_000_000, target=b"\xff" * 32):
    """a genesis block with an easy target (for chains that never touch the block store)"""
    cb = Transaction([Input(OutputReference(b"\x00" * 32, 0), CoinbaseData(0, b"verif"))],
                     [Output(consensus.get_block_subsidy(0), keys.pk(0))])
    root = consensus.calc_merkle_root_hash([cb])
    for nonce in range(100000):
        s = BlockSummary(0, b"\x00" * 32, root, timestamp, target, nonce)
        ev = consensus.construct_pow_evidence(CoinState.empty(), s, 0, [cb])
        b = Block(BlockHeader(s, ev), [cb])
        if b.hash() < b.target:
            return b
    raise RuntimeError("no nonce")


# ---------------------------------------------------------------- canonical digest (same text as drv)

def _short(b):
    return b[:8].hex()


_MAP_DIGESTS = {}      # digests of immutable maps (immutables.Map values are shared between chain states), by identity


def _memo(kind, m, compute):
    if type(m) is not immutables.Map:
        return compute(m)            # anything that could be changed in place is digested afresh every time
    key = (kind, id(m))
    hit = _MAP_DIGESTS.get(key)
    if hit is not None and hit[0] is m:
        return hit[1]
    d = compute(m)
    if len(_MAP_DIGESTS) > 200000:
        _MAP_DIGESTS.clear()
    _MAP_DIGESTS[key] = (m, d)
    return d


def utxo_digest(u):
    return _memo("u", u, _utxo_digest)


def index_digest(m):
    return _memo("i", m, _index_digest)


def _utxo_digest(u):
    rows = sorted(r.hash + struct.pack(">I", r.index) + struct.pack(">Q", o.value) + o.public_key.public_key
                  for r, o in u.items())
    return _short(hashlib.sha256(b"".join(rows)).digest())


def _index_digest(m):
    rows = sorted(struct.pack(">Q", h) + b.hash() for h, b in m.items())
    return _short(hashlib.sha256(b"".join(rows)).digest())


def balance_digest(p):
    rows = sorted(k.public_key + str(bal.value).encode() + b";" +
                  b"".join(r.hash + struct.pack(">I", r.index) for r in bal.output_references)
                  for k, bal in p.items())
    return _short(hashlib.sha256(b"".join(rows)).digest())


def state_digest(cs, full=True):
    head = cs.current_chain_hash.hex() if cs.current_chain_hash else "none"
    tips = ",".join(h.hex() for h in sorted(cs.heads.keys()))
    ids = sorted(cs.block_by_hash.keys())
    per = []
    for i in ids:
        u = utxo_digest(cs.unspent_transaction_outs_by_hash[i]) if i in cs.unspent_transaction_outs_by_hash else "missing"
        ix = index_digest(cs.block_by_height_by_hash[i]) if i in cs.block_by_height_by_hash else "missing"
        if full:
            try:
                bal = balance_digest(cs.public_key_balances_by_hash[i])
            except Exception:
                bal = "error"
        else:
            bal = "-"
        per.append("%s:%s:%s:%s" % (_short(i), u, ix, bal))
    return "head=%s tips=%s n=%d %s" % (head, tips, len(ids), "|".join(per))


class Tree:
    """a growing block tree with spends; every block passes full validation when built"""

    def __init__(self, rng, keys, genesis=None, t0=None):
        self.rng = rng
        self.keys = keys
        g = genesis or genesis_block()
        self.cs = CoinState.empty().add_block_no_validation(g)
        self.own = {g.hash(): self.apply_own({}, g)}    # the harness's own ledger per block (never read from the node)
        self.blocks = [g]                 # arrival order
        self.t0 = t0 or (g.timestamp + 100)
        self.spent_in_branch = {}         # not needed: utxo per block comes from cs

    @staticmethod
    def apply_own(parent_ledger, b):
        """independent bookkeeping: the parent's unspent outputs minus what the block's spends use, plus its outputs"""
        u = dict(parent_ledger)
        for n, tx in enumerate(b.transactions):
            if n > 0:
                for i in tx.inputs:
                    u.pop(i.output_reference, None)
            for k, o in enumerate(tx.outputs):
                u[OutputReference(tx.hash(), k)] = o
        return u

    def utxo(self, h):
        """unspent outputs at block h according to the harness's own ledger"""
        return self.own[h]

    def spendable(self, h):
        """outputs at block h owned by one of our keys"""
        return [(r, o) for r, o in self.utxo(h).items() if o.public_key.public_key in self.keys.pks]

    def random_tx(self, parent_hash, exclude=(), max_in=3, fee_choices=(0, 0, 1, 5, 1000)):
        cands = [(r, o) for r, o in self.spendable(parent_hash) if r not in exclude]
        if not cands:
            return None
        self.rng.shuffle(cands)
        k = self.rng.randrange(1, min(max_in, len(cands)) + 1)
        chosen = cands[:k]
        total = sum(o.value for _, o in chosen)
        if total == 0:
            return None               # only zero-valued outputs picked: nothing can be paid out of them
        fee = min(self.rng.choice(fee_choices), total - 1)
        rest = total - fee
        n_out = self.rng.randrange(1, 4)
        outs = []
        for i in range(n_out - 1):
            if rest <= 1:
                break
            v = self.rng.randrange(1, rest)
            outs.append((v, self.rng.randrange(0, len(self.keys.pks))))
            rest -= v
        outs.append((rest, self.rng.randrange(0, len(self.keys.pks))))
        if self.rng.random() < 0.25 and outs[-1][0] >= 2:
            # twins: the same amount to the same key twice in one transaction (two outputs that compare equal)
            v_, k_ = outs.pop()
            outs += [(v_ // 2, k_), (v_ // 2, k_)] + ([(v_ % 2, k_)] if v_ % 2 else [])
        return make_tx(self.keys, self.utxo(parent_hash), [r for r, _ in chosen], outs)

    def random_txs(self, parent_hash, n):
        txs, used = [], set()
        for _ in range(n):
            t = self.random_tx(parent_hash, exclude=used)
            if t is None:
                break
            used |= {i.output_reference for i in t.inputs}
            txs.append(t)
        return txs

    def extend(self, parent_hash=None, n_tx=None, dt=None, miner=None, txs=None, _retry=False, data_len=None):
        parent_hash = parent_hash or self.cs.current_chain_hash
        parent = self.cs.block_by_hash[parent_hash]
        if txs is None:
            txs = self.random_txs(parent_hash, self.rng.randrange(0, 3) if n_tx is None else n_tx)
        ts = parent.timestamp + (dt if dt is not None else self.rng.randrange(1, 200))
        miner_pk = self.keys.pk(self.rng.randrange(0, len(self.keys.pks)) if miner is None else miner)
        # coinbase data of any legal length: mostly short, with the lengths at which its encoding is as long as other
        # kinds of signature field (65 bytes = 6 + 59) and the limits over-represented
        r_ = self.rng.random()
        n_data = 0 if r_ < 0.35 else self.rng.choice([1, 58, 59, 60, 199, 200]) if r_ < 0.6 else self.rng.randrange(0, 201)
        if data_len is not None:
            n_data = data_len
        data = bytes(self.rng.getrandbits(8) for _ in range(n_data))
        try:
            shape = self.rng.random()
            if shape < 0.15 and not _retry:
                # a reward of another legal shape than the node's own assembler produces: several outputs, one of them of
                # value zero (reward outputs are not range-checked, only their sum is bounded), or claiming less than allowed
                b = self.mine_shaped(parent_hash, txs, miner_pk, ts, data, "zero_extra" if shape < 0.08 else
                                     ("split" if shape < 0.12 else "under"))
            else:
                b = mine(self.cs, parent_hash, txs, miner_pk, ts, data=data)
        except RuntimeError:
            raise
        except Exception as e:
            if kit.FOCUS is not None and kit.FOCUS not in ("C05", "C12") and txs and not _retry:
                if len(kit.SIDE) < 20:
                    kit.SIDE.append((["C12"], {"kind": "block assembly raised on spends valid at the parent: %r" % e}))
                return self.extend(parent_hash, dt=dt, miner=miner, txs=[], _retry=True)
            raise kit.OwnBlockRejected({"kind": "the node's own block assembly raised on transactions valid at the parent",
                                        "error": repr(e)[:300], "parent": parent_hash.hex(),
                                        "txs": [t.serialize().hex() for t in txs],
                                        "chain": [x.serialize().hex() for x in self.blocks]})
        try:
            self.cs = self.cs.add_block(b, ts + 10)
        except Exception as e:
            if kit.FOCUS is not None and kit.FOCUS not in ("C05", "C12") and txs and not _retry:
                # not this check's predicate: note it and go on with a block that carries the reward only, so that the
                # monitors of the property being decided still see the rest of the scenario
                if len(kit.SIDE) < 20:
                    kit.SIDE.append((["C05", "C12"], {"kind": "own assembly rejected: %r" % e, "block": b.serialize().hex()}))
                return self.extend(parent_hash, dt=dt, miner=miner, txs=[], _retry=True)
            raise kit.OwnBlockRejected({
                "kind": "a block produced by the node's own assembly (id below target) is rejected by its own full validation",
                "error": repr(e)[:300], "block": b.serialize().hex(), "now": ts + 10, "height": b.height,
                "retarget_interval": consensus.BLOCKS_BETWEEN_TARGET_READJUSTMENT,
                "chain": [x.serialize().hex() for x in self.blocks]})
        self.own[b.hash()] = self.apply_own(self.own[parent_hash], b)
        self.blocks.append(b)
        self.audit(b)
        return b

    def mine_shaped(self, parent_hash, txs, miner_pk, ts, data, shape):
        v = view(self.cs, parent_hash)
        parent = self.cs.block_by_hash[parent_hash]
        h = parent.height + 1
        u = self.own[parent_hash]
        fees = sum(sum(u[i.output_reference].value for i in t.inputs) - sum(o.value for o in t.outputs) for t in txs)
        total = subsidy(h) + fees
        other = self.keys.pk(self.rng.randrange(0, len(self.keys.pks)))
        if shape == "zero_extra" or total < 4:
            outs = [Output(total, miner_pk), Output(0, other)]
            if self.rng.random() < 0.5:
                outs.reverse()
        elif shape == "split":
            outs = [Output(total - 1, miner_pk), Output(1, other)]
        else:
            outs = [Output(total - 3, miner_pk)]
        cb = Transaction([Input(OutputReference(b"\x00" * 32, 0), CoinbaseData(h, data))], outs)
        all_txs = [cb] + list(txs)
        for nonce in range(200000):
            s = consensus.construct_minable_summary(v, all_txs, ts, nonce)
            ev = consensus.construct_pow_evidence(v, s, h, all_txs)
            b = Block(BlockHeader(s, ev), all_txs)
            if b.hash() < b.target:
                return b
        raise RuntimeError("no nonce found")

    def refs_by_key(self, head):
        """for every key, the unspent references paying it at `head`, in the order in which they were created along
        head's chain (the order a wallet scans them in) — the harness's own bookkeeping"""
        ch, h = [], head
        while h != b"\x00" * 32:
            b = self.cs.block_by_hash[h]
            ch.append(b)
            h = b.previous_block_hash
        out = {}
        for b in reversed(ch):
            for n, tx in enumerate(b.transactions):
                if n > 0:
                    spent = {i.output_reference for i in tx.inputs}
                    for k in out:
                        out[k] = [r for r in out[k] if r not in spent]
                for k, o in enumerate(tx.outputs):
                    out.setdefault(o.public_key.public_key, []).append(OutputReference(tx.hash(), k))
        return out

    def adopt(self, b):
        """a valid block produced elsewhere (the node's miner) joins the tree"""
        self.cs = self.cs.add_block_no_validation(b)
        self.own[b.hash()] = self.apply_own(self.own[b.previous_block_hash], b)
        self.blocks.append(b)

    def audit(self, b):
        """the node's ledger state at the new block against the harness's own ledger"""
        want = {(r.hash, r.index): (o.value, o.public_key.public_key) for r, o in self.own[b.hash()].items()}
        parent_total = sum(o.value for o in self.own[b.previous_block_hash].values()) if b.previous_block_hash in self.own else 0
        got = {(r.hash, r.index): (o.value, o.public_key.public_key)
               for r, o in self.cs.unspent_transaction_outs_by_hash[b.hash()].items()}
        if got != want:
            sub = subsidy(b.height)
            info = {"block": b.serialize().hex(), "height": b.height, "chain": [x.serialize().hex() for x in self.blocks],
                    "unspent_total": sum(v for v, _ in got.values()),
                    "parent_total_plus_subsidy": parent_total + sub}
            props = ["C03"]
            kind = "the unspent set recorded at a block is not its parent's set with the block applied"
            if info["unspent_total"] > info["parent_total_plus_subsidy"]:
                props.append("C02")
                kind += " (and its total exceeds the parent's total plus the subsidy)"
            kit.side_or_raise(props, {**info, "kind": kind})

    def grow(self, n, fork_prob=0.3):
        for _ in range(n):
            if self.rng.random() < fork_prob and len(self.blocks) > 1:
                parent = self.rng.choice(self.blocks[max(0, len(self.blocks) - 6):]).hash()
            else:
                parent = self.cs.current_chain_hash
            self.extend(parent)
        return self

"""registry — per property: Lean modules holding its theorems, the regenerated functions its
code-level theorems depend on, and the harness module that runs the correspondence + monitor."""

PROPS = {
    "C07": dict(
        lean_core=["Props.C07"], lean_code=[], gen_funcs=[], harness="c07",
        assumptions=["SHA-256 of the driver validated against hashlib on every run; theorems hold for every hash function",
                     "Python `cached_hash or …`: an empty cached hash is not modelled (hashes are 32 bytes)"]),
    "C11": dict(
        lean_core=["Props.GenTie.Params", "Props.C11"], lean_code=[], gen_funcs=[], harness="c11",
        assumptions=["sockets deliver a byte stream in order (TCP); `bad` = handle_message_data raises"]),
    "C16": dict(
        lean_core=["Props.GenTie.Params", "Props.C16"], lean_code=["Props.GenTie.Subsidy", "Props.C16Code"],
        gen_funcs=["get_block_subsidy", "validate_sashimi_range"], harness="c16",
        assumptions=["Python int arithmetic is exact (unbounded)"]),
}

"""registry — per property: Lean modules holding its theorems, the regenerated functions its
code-level theorems depend on, and the harness module that runs the correspondence + monitor."""

PROPS = {
    "C07": dict(
        lean_core=["Props.C07"], lean_code=["Props.GenTie.Vlq"],
        gen_funcs=["stream_serialize_vlq", "stream_deserialize_vlq"], harness="c07",
        assumptions=["SHA-256 of the driver validated against hashlib on every run; theorems hold for every hash function",
                     "Python `cached_hash or …`: an empty cached hash is not modelled (hashes are 32 bytes)"]),
    "C11": dict(
        lean_core=["Props.GenTie.Params", "Props.C11"], lean_code=[], gen_funcs=[], harness="c11",
        assumptions=["sockets deliver a byte stream in order (TCP); `bad` = handle_message_data raises"]),
    "C16": dict(
        lean_core=["Props.GenTie.Params", "Props.C16"], lean_code=["Props.GenTie.Subsidy", "Props.C16Code", "Props.GenTie.CoinbaseRule"],
        gen_funcs=["get_block_subsidy", "validate_sashimi_range", "coinbase_in_state_ok"], harness="c16",
        code_deps={"Props.GenTie.Subsidy": ["get_block_subsidy", "validate_sashimi_range"],
                   "Props.C16Code": ["get_block_subsidy", "validate_sashimi_range"],
                   "Props.GenTie.CoinbaseRule": ["get_block_subsidy", "validate_sashimi_range", "coinbase_in_state_ok"]},
        assumptions=["Python int arithmetic is exact (unbounded)"]),
    "C01": dict(
        lean_core=["Props.C01"], lean_code=["Props.GenTie.SpendRule", "Props.GenTie.SpendByItselfRule", "Props.GenTie.BlockByItselfRule"],
        gen_funcs=["spend_in_state_ok", "spend_by_itself_ok", "block_by_itself_ok", "validate_sashimi_range", "get_block_subsidy"], harness="c01",
        code_deps={"Props.GenTie.SpendRule": ["spend_in_state_ok"],
                   "Props.GenTie.SpendByItselfRule": ["spend_by_itself_ok", "validate_sashimi_range", "get_block_subsidy"],
                   "Props.GenTie.BlockByItselfRule": ["block_by_itself_ok"],
                   "Props.GenTie.TargetRule": ["calc_target_rule"]},
        assumptions=["signature validity is an oracle in the driver (each listed triple is checked with python-ecdsa by the harness)",
                     "scrypt replaced by sha256(password+salt) in harness and driver",
                     "full validation = add_block above the checkpoint horizon (horizon lowered to -1 or 2 in the harness)"]),
    "C02": dict(
        lean_core=["Props.GenTie.Params", "Props.C16", "Props.C02"],
        lean_code=["Props.GenTie.Subsidy", "Props.GenTie.CoinbaseRule", "Props.GenTie.SpendByItselfRule", "Props.GenTie.SpendRule",
                   "Props.GenTie.FeeRule"],
        gen_funcs=["get_block_subsidy", "validate_sashimi_range", "coinbase_in_state_ok", "spend_by_itself_ok", "spend_in_state_ok",
                   "transaction_fee"], harness="c02",
        code_deps={"Props.GenTie.Subsidy": ["get_block_subsidy", "validate_sashimi_range"],
                   "Props.GenTie.SpendByItselfRule": ["spend_by_itself_ok", "validate_sashimi_range", "get_block_subsidy"],
                   "Props.GenTie.SpendRule": ["spend_in_state_ok"], "Props.GenTie.FeeRule": ["transaction_fee"],
                   "Props.GenTie.CoinbaseRule": ["get_block_subsidy", "validate_sashimi_range", "coinbase_in_state_ok"]},
        assumptions=["as C01"]),
    "C05": dict(
        lean_core=["Props.GenTie.Params", "Props.C05"],
        lean_code=["Props.GenTie.Target", "Props.C05Code", "Props.GenTie.SummaryRule", "Props.GenTie.HeaderRule", "Props.GenTie.BlockRule",
                   "Props.GenTie.BlockByItselfRule", "Props.GenTie.TargetRule"],
        gen_funcs=["calculate_new_target", "select_block_height", "summary_in_state_ok", "header_by_itself_ok", "block_in_state_ok",
                   "block_by_itself_ok", "calc_target_rule"], harness="c05",
        code_deps={"Props.GenTie.Target": ["calculate_new_target", "select_block_height"],
                   "Props.C05Code": ["calculate_new_target", "select_block_height"],
                   "Props.GenTie.SummaryRule": ["summary_in_state_ok"], "Props.GenTie.HeaderRule": ["header_by_itself_ok"],
                   "Props.GenTie.BlockRule": ["block_in_state_ok"], "Props.GenTie.BlockByItselfRule": ["block_by_itself_ok"],
                   "Props.GenTie.TargetRule": ["calc_target_rule"]},
        assumptions=["as C01", "elapsed time passed to calculate_new_target is non-negative (timestamps increase along validated chains)"]),
    "C03": dict(
        lean_core=["Props.C03", "Props.C03Balance"], lean_code=[], gen_funcs=[], harness="c03",
        assumptions=["immutables.Map behaves as a finite map; iteration order is not observed",
                     "histories: parents before children, distinct ids (WFArrivals)"]),
    "C04": dict(
        lean_core=["Props.C04"], lean_code=["Props.GenTie.Head"], gen_funcs=["get_total_work", "head_switches"], harness="c04",
        assumptions=["histories: parents before children, distinct ids, height = parent's + 1 (WFArrivals)"]),
    "C17": dict(
        lean_core=["Props.C17"], lean_code=[], gen_funcs=[], harness="c17",
        assumptions=["node hash has 32-byte output (true of SHA-256); no leaf/inner domain separation — stated as the LeafIsInner disjunct"]),
    "C18": dict(
        lean_core=["Props.GenTie.Params", "Props.C18"], lean_code=["Props.GenTie.BlockRule"], gen_funcs=["block_in_state_ok"], harness="c18",
        assumptions=["recorded blocks of the real network: conformance test, not a theorem",
                     "the first sentence of the property is read as the verdict of validate_block_in_coinstate"]),
    "C06": dict(
        lean_core=["Props.C06"], lean_code=[], gen_funcs=[], harness="c06",
        assumptions=["partial: flips of a continuation bit of the VLQ height are covered by execution only (see Props/C06.lean)",
                     "collisions of sha256d / blake2 / scrypt appear as explicit disjuncts, nothing is assumed of them"]),
    "C09": dict(
        lean_core=["Props.GenTie.Params", "Props.C13", "Props.C09"], lean_code=["Props.GenTie.HandleBlockRule"],
        gen_funcs=["handle_block_effects"], harness="c09",
        assumptions=["'outside bulk download' = in_response_to = 0 in the message header",
                     "store modelled as insert-or-ignore by id; the real SQLite store is exercised by the correspondence",
                     "Inv: a node that only ever received unsolicited blocks (served state = last validated, empty write buffer)"]),
    "C13": dict(
        lean_core=["Props.GenTie.Params", "Props.C13"], lean_code=["Props.GenTie.PoolRule", "Props.GenTie.TxHandlerRule"],
        gen_funcs=["set_coinstate_effects", "add_to_pool_effects", "handle_tx_effects"], harness="c13",
        code_deps={"Props.GenTie.PoolRule": ["set_coinstate_effects", "add_to_pool_effects"],
                   "Props.GenTie.TxHandlerRule": ["handle_tx_effects"]},
        assumptions=["_cleanup catches only ValidateTransactionError; other exceptions cannot arise for a pooled transaction and are treated as eviction in the model"]),
    "C12": dict(
        lean_core=["Props.GenTie.Params", "Props.C13", "Props.C02", "Props.C12", "Props.C12Reach"],
        lean_code=["Props.GenTie.MinerRule"], gen_funcs=["miner_found_effects"], harness="c12",
        assumptions=["partial: the clock corner head.timestamp >= clock + 30 is the known finding D5",
                     "candidate fits in one block (hsize); head id is not all zeros and its by-height index is stored (true of every state built from well-formed arrivals)"]),
    "C20": dict(
        lean_core=["Props.GenTie.Params", "Props.C13", "Props.C09", "Props.C11", "Props.C20"],
        lean_code=["Props.GenTie.TxHandlerRule", "Props.GenTie.PoolRule", "Props.GenTie.HandleBlockRule"],
        gen_funcs=["handle_tx_effects", "set_coinstate_effects", "add_to_pool_effects", "handle_block_effects"], harness="c20",
        code_deps={"Props.GenTie.TxHandlerRule": ["handle_tx_effects"],
                   "Props.GenTie.PoolRule": ["set_coinstate_effects", "add_to_pool_effects"],
                   "Props.GenTie.HandleBlockRule": ["handle_block_effects"]},
        assumptions=["per message: valid messages earlier in a stream have their legitimate effects",
                     "thread interleavings between the miner thread and the networking thread are not exhibited by the model"]),
    "C14": dict(
        lean_core=["Props.GenTie.Params", "Props.C14"], lean_code=["Props.GenTie.SpendPlanRule"], gen_funcs=["create_spend"], harness="c14",
        assumptions=["ECDSA signatures are randomised: the model emits which key must sign which message, the harness verifies the implementation's signatures with python-ecdsa",
                     "partial: transactions above MAX_BLOCK_SIZE (about 1,979 inputs) are the known finding D7"]),
    "C15": dict(
        lean_core=["Props.GenTie.Params", "Props.C15"], lean_code=["Props.GenTie.WalletSaveRule", "Props.GenTie.WalletKeysRule"],
        gen_funcs=["save_wallet_effects", "hand_out_effects", "restore_effects"], harness="c15",
        code_deps={"Props.GenTie.WalletSaveRule": ["save_wallet_effects"],
                   "Props.GenTie.WalletKeysRule": ["hand_out_effects", "restore_effects"]},
        assumptions=["restore_annotated_public_key is the documented inverse of a hand-out", "JSON text layer is CPython's; the hex layer is modelled",
                     "atomicity with respect to process crashes (rename is atomic, writes append); OS crashes are not modelled"]),
    "C19": dict(
        lean_core=["Props.GenTie.Params", "Props.C19"], lean_code=["Props.GenTie.Heights", "Props.GenTie.PeerBookRule", "Props.GenTie.HelloRule"],
        gen_funcs=["is_time_to_connect", "get_recent_block_heights", "peer_connected_effects", "peer_disconnected_effects", "hello_effects"], harness="c19",
        code_deps={"Props.GenTie.Heights": ["is_time_to_connect", "get_recent_block_heights"],
                   "Props.GenTie.PeerBookRule": ["peer_connected_effects", "peer_disconnected_effects"],
                   "Props.GenTie.HelloRule": ["hello_effects"]},
        assumptions=["the platform selector limit (512 sockets) is not reached", "rename is atomic with respect to process crashes"]),
    "C08": dict(
        lean_core=["Props.GenTie.Params", "Props.C08"], lean_code=["Props.GenTie.FlushRule"], gen_funcs=["flush_effects"], harness="c08",
        assumptions=["SQLite: insert-or-ignore, immediate foreign keys, explicit transactions; an unordered SELECT returns rows in insertion (rowid) order",
                     "partial: histories in which a transaction id occurs in two stored blocks are the known finding D2"]),
    "C10": dict(
        lean_core=["Props.GenTie.Params", "Props.C09", "Props.C10", "Props.C10Follow", "Props.C10Walk"], lean_code=["Props.GenTie.Heights", "Props.GenTie.GetBlocksRule"],
        gen_funcs=["get_recent_block_heights", "is_time_to_connect", "get_blocks_range"], harness="c10",
        code_deps={"Props.GenTie.Heights": ["get_recent_block_heights", "is_time_to_connect"],
                   "Props.GenTie.GetBlocksRule": ["get_blocks_range"]},
        assumptions=["partial: convergence under every interleaving is a liveness statement that is validated by execution on the real code (seeded schedules), not proved",
                     "all nodes of a run share one block store file (the store is a module-level singleton)",
                     "thread interleavings of the real NetworkingThread are not exhibited"]),
}

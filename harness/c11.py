"""C11 — framing: the real MessageReceiver (with a recording peer) against the model's frame
parser, on framed streams and corrupted ones, under exhaustive and random fragmentations."""
import itertools
import struct

from . import kit, gens
from .kit import hx

import skepticoin.networking.remote_peer as rp
from skepticoin.networking.remote_peer import MessageReceiver, MAGIC
from skepticoin.networking.params import MAX_MESSAGE_SIZE


class RecordingPeer:
    def __init__(self):
        self.got = []

    def handle_message_received(self, header, message):
        self.got.append(header.serialize() + message.serialize())


class RawReceiver(MessageReceiver):
    """records the raw payload handed to handle_message_data, then runs the real decoding"""

    def __init__(self, peer):
        super().__init__(peer)
        self.payloads = []
        self.handed = []

    def handle_message_data(self, message_data):
        self.handed.append(bytes(message_data))     # every frame handed over, decodable or not
        super().handle_message_data(message_data)   # raises if undecodable
        self.payloads.append(message_data)


def impl_feed(chunks):
    peer = RecordingPeer()
    r = RawReceiver(peer)
    err = "none"
    for c in chunks:
        try:
            r.receive(c)
        except Exception as e:
            s = str(e)
            err = "magic" if "magic" in s else ("toobig" if "MAX_MESSAGE_SIZE" in s else "handler")
            break
    ps = ",".join(hx(p) for p in r.payloads)
    LAST_HANDED[0] = r.handed
    return "%s %s" % (ps if ps else ".", err), r.payloads, err


LAST_HANDED = [[]]


def reference_frames(s, limit):
    """the harness's own reading of the wire format: the bodies of the complete frames of a stream, up to the first wrong magic
    or over-limit length"""
    out, pos = [], 0
    while len(s) - pos >= 4:
        if s[pos:pos + 4] != MAGIC:
            return out, "magic"
        if len(s) - pos < 8:
            break
        (ln,) = struct.unpack(b">I", s[pos + 4:pos + 8])
        if ln > limit:
            return out, "toobig"
        if len(s) - pos - 8 < ln:
            break
        out.append(s[pos + 8:pos + 8 + ln])
        pos += 8 + ln
    return out, "none"


def frame(payload):
    return MAGIC + struct.pack(b">I", len(payload)) + payload


_TOOBIG = [0]
EXPECT_REFUSED_AFTER = [None]      # for streams with an over-limit length: the number of frames delivered before the refusal


def make_stream(rng, kind):
    """a byte stream: framed valid messages, optionally followed/interrupted by a corruption"""
    parts = []
    n = rng.randrange(1, 5 if kind != "long" else 7) if kind != "short" else 1
    for _ in range(n):
        while True:
            m = gens.message(rng)
            p = gens.msg_header(rng).serialize() + m.serialize()
            if len(p) < (140 if kind != "long" else 3000) and (kind != "short" or len(p) < 60):
                break
        parts.append(frame(p))
    s = b"".join(parts)
    EXPECT_REFUSED_AFTER[0] = None
    if kind == "badmagic":
        k = rng.randrange(0, len(parts) + 1)
        pos = rng.randrange(0, 4)
        junk = bytearray(frame(b"\x00" * rng.randrange(0, 6)))
        junk[pos] ^= 1 << rng.randrange(0, 8)
        s = b"".join(parts[:k]) + bytes(junk) + b"".join(parts[k:])
    elif kind == "toobig":
        k = rng.randrange(0, len(parts) + 1)
        # every over-limit length in turn: just over, the sign bit of a 32-bit field, the all-ones value
        _TOOBIG[0] += 1
        ln = [MAX_MESSAGE_SIZE + 1, 2 ** 32 - 1, 2 ** 31, 2 ** 31 - 1, 2 ** 32 - 16, MAX_MESSAGE_SIZE + 2][_TOOBIG[0] % 6]
        s = b"".join(parts[:k]) + MAGIC + struct.pack(b">I", ln) + gens.rb(rng, rng.randrange(0, 9))
        EXPECT_REFUSED_AFTER[0] = k
    elif kind == "atlimit":
        # a length exactly at the limit is not refused: the receiver waits for the body
        s = s + MAGIC + struct.pack(b">I", MAX_MESSAGE_SIZE) + gens.rb(rng, 5)
    elif kind == "pastend":
        s = s + MAGIC + struct.pack(b">I", rng.randrange(10, 500)) + gens.rb(rng, 5)
    elif kind == "zerolen":
        k = rng.randrange(0, len(parts) + 1)
        s = b"".join(parts[:k]) + frame(b"") + b"".join(parts[k:])
    elif kind == "garbagepayload":
        k = rng.randrange(0, len(parts) + 1)
        s = b"".join(parts[:k]) + frame(gens.rb(rng, rng.randrange(1, 60))) + b"".join(parts[k:])
    elif kind == "mutated":
        s = gens.mutate(rng, s)
    elif kind == "tail_badmagic":
        # the stream ends in the first 4-7 bytes of a next frame whose magic is wrong: refused as soon as 4 bytes are there
        bad = bytearray(MAGIC)
        bad[rng.randrange(0, 4)] ^= 1 << rng.randrange(0, 8)
        s = s + bytes(bad) + gens.rb(rng, rng.randrange(0, 4))
    elif kind == "tail_toobig":
        # … or in exactly the 8 header bytes of a next frame whose length is over the limit
        _TOOBIG[0] += 1
        s = s + MAGIC + struct.pack(b">I", [2 ** 32 - 1, MAX_MESSAGE_SIZE + 1, 2 ** 31][_TOOBIG[0] % 3])
        EXPECT_REFUSED_AFTER[0] = len(parts)
    elif kind == "toobig_wrap":
        # an over-limit length field of 2^32 - k in front of a perfectly valid message followed by k more bytes (what a
        # length read as a negative number would slice off)
        _TOOBIG[0] += 1
        k_ = [1, 16, 4][_TOOBIG[0] % 3]
        m = gens.message(rng)
        valid = gens.msg_header(rng).serialize() + m.serialize()
        s = s + MAGIC + struct.pack(b">I", 2 ** 32 - k_) + valid + gens.rb(rng, k_)
        EXPECT_REFUSED_AFTER[0] = len(parts)
    elif kind == "toobig_magicbytes":
        # an over-limit length field whose bytes are bytes of the magic itself (a doubled magic and the like), in front of
        # what would be a perfectly valid frame if those bytes were dropped
        _TOOBIG[0] += 1
        lb = [MAGIC, MAGIC[:1] * 4, MAGIC[::-1], MAGIC[:1] + b"\x00\x00\x05", MAGIC[3:] + MAGIC[1:2] + gens.rb(rng, 2),
              MAGIC[1:3] + b"\x00\x01"][_TOOBIG[0] % 6]
        m = gens.message(rng)
        valid = gens.msg_header(rng).serialize() + m.serialize()
        s = s + MAGIC + lb + struct.pack(b">I", len(valid)) + valid
        EXPECT_REFUSED_AFTER[0] = len(parts)
    elif kind == "tail_partial":
        # … or in an incomplete, so far well-formed header: not refused, the receiver waits
        s = s + (MAGIC + struct.pack(b">I", rng.randrange(0, 300)))[:rng.randrange(1, 8)]
    return s


def cuts(stream, points):
    out, last = [], 0
    for p in points:
        out.append(stream[last:p])
        last = p
    out.append(stream[last:])
    return out


def socket_path(ctx, res):
    """the same property through the node's real read path: a non-blocking socket pair, the selector and
    LocalPeer.handle_remote_peer_selector_event (recv of at most 1024 bytes per call); a long well-formed stream of
    GetPeers frames (each is answered with one Peers frame, which is how deliveries are counted), written in pieces whose
    sizes include exact multiples of the read size; monitors only"""
    import select
    import selectors
    from . import chain, node
    from skepticoin.networking.messages import GetPeersMessage, PeersMessage, MessageHeader
    rng = ctx.rng
    chain.patch(horizon=-1)
    tree = chain.Tree(rng, chain.Keys(rng, 2))
    n_frames = 110
    stream = b"".join(node.frame(MessageHeader(0, 1 + i, 0, 7), GetPeersMessage()) for i in range(n_frames))
    L = len(stream)
    plans = [[L], [1024, L - 1024], [2048, L - 2048], [1023, L - 1023], [1025, L - 1025], [8, 1024, L - 1032],
             [8, 2048, L - 2056], [1024, 1024, L - 2048], [L - 1024, 1024], [L - 2048, 2048], [512, 512, L - 1024]]
    for _ in range(ctx.scale(10, 60)):
        a = rng.randrange(1, L - 1)
        b = rng.randrange(a, L)
        plans.append([a, b - a, L - b] if b > a else [a, L - a])
    # the same on a connection that has not greeted yet: the stream starts with the greeting, and the cuts fall inside it
    from skepticoin.networking.messages import HelloMessage, SupportedVersion
    from ipaddress import IPv6Address
    hello = node.frame(MessageHeader(0, 1, 0, 7), HelloMessage([SupportedVersion(0)], IPv6Address(bytes(16)), 0,
                                                                IPv6Address(bytes(16)), 2500, 987654321, b"x"))
    H = len(hello)
    fresh_plans = [[1], [3], [4], [5], [8], [9], [H - 1], [H], [H + 1], [H + 7], [1, 1], [4, 4], [H - 1, 1], [2, H]]
    for _ in range(ctx.scale(6, 40)):
        fresh_plans.append(sorted(rng.sample(range(1, H + 30), rng.choice([1, 2, 3]))))
    tagged = [(False, p_) for p_ in plans] + [(True, cuts_) for cuts_ in fresh_plans]
    stream_greeted = stream
    # … and a backlog of more than a thousand small frames waiting in the socket when the node gets to read it (one write, and
    # two halves): however much one read returns, every frame is extracted
    n_long = 1100
    long_stream = b"".join(node.frame(MessageHeader(0, 1 + i, 0, 7), GetPeersMessage()) for i in range(n_long))
    tagged += [("long", [len(long_stream)]), ("long", [len(long_stream) // 2, len(long_stream) - len(long_stream) // 2])]
    for fresh, plan in tagged:
        n_frames = 110
        if fresh == "long":
            fresh, stream_greeted_, n_frames = False, long_stream, n_long
            res.count("socket_path_backlog_of_1100_frames")
        else:
            stream_greeted_ = stream_greeted
        stream_greeted, stream_saved = stream_greeted_, stream_greeted
        if fresh:
            stream = hello + stream_greeted
            L = len(stream)
            points = [0] + [x for x in plan if 0 < x < L] + [L]
            plan = [b_ - a_ for a_, b_ in zip(points, points[1:])]
        else:
            stream = stream_greeted
            L = len(stream)
        plan = [x for x in plan if x > 0]
        rn = node.RealNode(tree.cs, tree.blocks)
        c = rn.add_peer(active=not fresh)
        if fresh:
            rn.peers[c].hello_sent = True
            res.count("socket_path_ungreeted_connection")
        peer, other = rn.peers[c], rn.sockets[c]
        other.setblocking(True)
        pos, dropped = 0, False
        for size in plan:
            other.sendall(stream[pos:pos + size])
            pos += size
            # read events for as long as the kernel reports the socket readable (what the event loop does)
            for _guard in range(4096):
                try:
                    key = rn.lp.selector.get_key(peer.sock)
                except (KeyError, ValueError):
                    dropped = True
                    break
                if not select.select([peer.sock], [], [], 0)[0]:
                    break
                rn.lp.handle_remote_peer_selector_event(key, selectors.EVENT_READ)
            if dropped:
                break
        answered = sum(1 for f in rn.frames(peer) if f != "PARTIAL" and isinstance(f[1], PeersMessage))
        still = any(q is peer for q in rn.lp.network_manager.connected_peers.values())
        res.case(("socket", tuple(plan)), nontrivial=True)
        res.count("socket_path_fragmentations")
        if answered != n_frames or not still or dropped:
            res.violations.append({"kind": "through the real socket read path a well-formed stream of %d frames written in "
                                           "pieces of %s bytes delivered %d frames, connection %s"
                                           % (n_frames, plan, answered, "kept" if still and not dropped else "DROPPED"),
                                   "pieces": plan, "stream": stream.hex()})
        rn.close()
        stream_greeted = stream_saved
    # a well-formed frame the node does not serve (a request for a transaction) in the middle of the stream: whatever the node
    # does with it, it does the same under every fragmentation — here: it answers what precedes it and drops the connection
    from skepticoin.networking.messages import GetDataMessage, DATA_TRANSACTION
    parts_ = [node.frame(MessageHeader(0, 1, 0, 7), GetPeersMessage()),
              node.frame(MessageHeader(0, 2, 0, 7), GetDataMessage(DATA_TRANSACTION, bytes(range(32)))),
              node.frame(MessageHeader(0, 3, 0, 7), GetPeersMessage()),
              node.frame(MessageHeader(0, 4, 0, 7), GetPeersMessage())]
    sb_ = b"".join(parts_)
    a1_, a2_ = len(parts_[0]), len(parts_[0]) + len(parts_[1])
    plans_ = [[len(sb_)], [a2_, len(sb_) - a2_], [a2_, 1, len(sb_) - a2_ - 1], [a2_ - 1, 1, len(sb_) - a2_], [a1_, a2_ - a1_, len(sb_) - a2_],
              [a2_ + 8, len(sb_) - a2_ - 8], [a2_, len(parts_[2]), len(parts_[3])]]
    for _ in range(ctx.scale(8, 40)):
        x_ = sorted(rng.sample(range(1, len(sb_)), rng.choice([1, 2, 3])))
        plans_.append([b_ - a_ for a_, b_ in zip([0] + x_, x_ + [len(sb_)])])
    outcomes_ = []
    for plan in plans_:
        rn = node.RealNode(tree.cs, tree.blocks)
        c = rn.add_peer(active=True)
        peer, other = rn.peers[c], rn.sockets[c]
        other.setblocking(True)
        pos = 0
        for size in plan:
            try:
                other.sendall(sb_[pos:pos + size])
            except OSError:
                break
            pos += size
            for _guard in range(64):
                try:
                    key = rn.lp.selector.get_key(peer.sock)
                except (KeyError, ValueError):
                    break
                if not select.select([peer.sock], [], [], 0)[0]:
                    break
                rn.lp.handle_remote_peer_selector_event(key, selectors.EVENT_READ)
        answered = sum(1 for f in rn.frames(peer) if f != "PARTIAL" and isinstance(f[1], PeersMessage))
        still = any(q is peer for q in rn.lp.network_manager.connected_peers.values())
        outcomes_.append((answered, still))
        res.case(("socket-unserved", tuple(plan)), nontrivial=True)
        res.count("socket_path_unserved_request_fragmentations")
        rn.close()
    kept_short = [i for i, (a_, st_) in enumerate(outcomes_) if st_ and a_ != 3]
    if kept_short:
        res.violations.append({"kind": "a stream with a well-formed request the node does not serve: the connection is kept, but only "
                                       "%d of the 3 answerable frames were delivered (the frames behind the unserved request never are)"
                                       % outcomes_[kept_short[0]][0], "stream": sb_.hex(), "pieces": plans_[kept_short[0]]})
    if len(set(outcomes_)) != 1:
        k_ = next(i for i, o_ in enumerate(outcomes_) if o_ != outcomes_[0])
        res.violations.append({"kind": "a stream with a well-formed request the node does not serve: written in one piece the node "
                                       "answers %d frame(s) and %s the connection, written in pieces of %s bytes it answers %d and %s it"
                                       % (outcomes_[0][0], "keeps" if outcomes_[0][1] else "drops", plans_[k_], outcomes_[k_][0],
                                          "keeps" if outcomes_[k_][1] else "drops"), "stream": sb_.hex(), "pieces": plans_[k_]})
    chain.unpatch()


def near_limit(ctx, res):
    """frames whose legal length is at or just below the limit, followed by more frames: the limit is configured small (in
    every loaded module that holds the constant, and in the model) so that such frames are a few hundred bytes; every 2-way
    cut and random cuts.  What is buffered at any moment (header bytes, the start of the next frame) is not what the limit
    is about."""
    import sys
    rng = ctx.rng
    saved = []
    for limit in (ctx.scale((260,), (260, 1000)) ):
        for mn, m in list(sys.modules.items()):
            if mn.startswith("skepticoin") and m is not None and hasattr(m, "MAX_MESSAGE_SIZE"):
                saved.append((m, getattr(m, "MAX_MESSAGE_SIZE")))
                setattr(m, "MAX_MESSAGE_SIZE", limit)
        try:
            ops, impl = [], []
            for below in (0, 1, 5, 9):
                def padded(n):
                    while True:
                        p_ = gens.msg_header(rng).serialize() + gens.message(rng).serialize()
                        if len(p_) <= n:
                            return p_ + gens.rb(rng, n - len(p_))      # what follows the message inside a frame is ignored
                big = padded(limit - below)
                small = [gens.msg_header(rng).serialize() + gens.message(rng).serialize() for _ in range(2)]
                small = [x for x in small if len(x) <= limit]
                s = frame(small[0]) + frame(big) + b"".join(frame(x) for x in small[1:]) if small else frame(big)
                whole_line, payloads, err = impl_feed([s])
                ops.append("frames %d %s" % (limit, hx(s)))
                impl.append(whole_line)
                res.count("near_limit_streams")
                if err != "none" or len(payloads) != 1 + len(small):
                    res.violations.append({"kind": "a well-formed stream with a frame of %d bytes (limit %d) was not delivered whole: "
                                                   "%d message(s), outcome %s" % (limit - below, limit, len(payloads), err),
                                           "stream": s.hex(), "limit": limit})
                n = len(s)
                pts_list = [[a] for a in range(0, n + 1)] + [sorted(rng.randrange(0, n + 1) for _ in range(rng.randrange(2, 6)))
                                                             for _ in range(30)]
                for pts in pts_list:
                    chunks = cuts(s, pts)
                    line, _, _ = impl_feed(chunks)
                    ops.append("frames %d %s" % (limit, " ".join(hx(c) for c in chunks)))
                    impl.append(line)
                    res.case(("near-limit", limit, below, tuple(pts)), nontrivial=True)
                    if line != whole_line:
                        res.violations.append({"kind": "extraction depends on fragmentation (a frame of legal length %d, limit %d)"
                                                       % (limit - below, limit), "chunks": [c.hex() for c in chunks],
                                               "limit": limit, "fragmented": line[-120:], "unfragmented": whole_line[-120:]})
                        break
            # … and frames whose length is over the limit with their whole body present (possible only because the limit is
            # small here): refused at that point — the frames before it delivered, nothing after — wherever the cuts fall
            for over in (1, 2, 137):
                pre = [gens.msg_header(rng).serialize() + gens.message(rng).serialize() for _ in range(2)]
                pre = [x for x in pre if len(x) <= limit][:rng.randrange(0, 3)]
                while True:
                    body = gens.msg_header(rng).serialize() + gens.message(rng).serialize()
                    if len(body) <= limit + over:
                        break
                body = body + gens.rb(rng, limit + over - len(body))            # a decodable message, padded to limit + over
                tail = gens.msg_header(rng).serialize() + gens.message(rng).serialize()
                s = b"".join(frame(x) for x in pre) + frame(body) + (frame(tail) if len(tail) <= limit else b"")
                whole_line, payloads, err = impl_feed([s])
                ops.append("frames %d %s" % (limit, hx(s)))
                impl.append(whole_line)
                res.count("over_limit_with_whole_body")
                if err != "toobig" or len(payloads) != len(pre):
                    res.violations.append({"kind": "a frame announcing %d bytes (limit %d) whose whole body was present was not refused "
                                                   "at that point: %d message(s) delivered (%d precede it), outcome %s"
                                                   % (limit + over, limit, len(payloads), len(pre), err),
                                           "stream": s.hex(), "limit": limit})
                n = len(s)
                for pts in [[a] for a in range(0, n + 1, 1 if n < 700 else 3)] + \
                        [sorted(rng.randrange(0, n + 1) for _ in range(rng.randrange(2, 6))) for _ in range(30)]:
                    chunks = cuts(s, pts)
                    line, _, _ = impl_feed(chunks)
                    ops.append("frames %d %s" % (limit, " ".join(hx(c) for c in chunks)))
                    impl.append(line)
                    res.case(("over-limit-body", limit, over, tuple(pts)), nontrivial=True)
                    if line != whole_line:
                        res.violations.append({"kind": "extraction depends on fragmentation (a frame announcing %d bytes, limit %d, with "
                                                       "its whole body present)" % (limit + over, limit),
                                               "chunks": [c.hex() for c in chunks], "limit": limit,
                                               "fragmented": line[-120:], "unfragmented": whole_line[-120:]})
                        break
            model = ctx.driver.ask(ops)
            kit.compare(res, ops, impl, model)
        finally:
            for m, v in saved:
                setattr(m, "MAX_MESSAGE_SIZE", v)
            saved = []


def run(ctx):
    res = kit.Result()
    rng = ctx.rng
    socket_path(ctx, res)
    near_limit(ctx, res)
    ops, impl = [], []
    kinds = ["plain", "badmagic", "toobig", "atlimit", "pastend", "zerolen", "garbagepayload", "mutated", "long", "short", "short",
             "tail_badmagic", "tail_toobig", "tail_partial", "tail_badmagic", "toobig_wrap", "toobig_wrap",
             "toobig_magicbytes", "toobig_magicbytes"]

    def one(chunks, stream_id, whole_line):
        line, payloads, err = impl_feed(chunks)
        ops.append("frames %d %s" % (MAX_MESSAGE_SIZE, " ".join(hx(c) for c in chunks if True)))
        impl.append(line)
        res.case(("frag", stream_id, tuple(len(c) for c in chunks)), nontrivial=len(chunks) > 1)
        # (M) monitor: the outcome depends only on the bytes
        if line != whole_line:
            res.violations.append({"kind": "extraction depends on fragmentation", "chunks": [c.hex() for c in chunks],
                                   "fragmented": line[:300], "unfragmented": whole_line[:300]})

    n_streams = ctx.scale(36, 150)
    exhaustive_limit = ctx.scale(400, 1500)
    sid = 0
    for i in range(n_streams):
        kind = kinds[i % len(kinds)]
        s = make_stream(rng, kind)
        sid += 1
        whole_line, payloads, err = impl_feed([s])
        ops.append("frames %d %s" % (MAX_MESSAGE_SIZE, hx(s)))
        impl.append(whole_line)
        # (M) monitor: every complete well-formed frame is handed over exactly once and in order — up to and including the first
        # one whose decoding is refused, and none after a wrong magic / over-limit length
        ref, ref_end = reference_frames(s, MAX_MESSAGE_SIZE)
        handed = LAST_HANDED[0]
        expect = ref if err != "handler" else ref[:len(handed)]
        if handed != expect or (err == "none" and ref_end != "none") or (err in ("magic", "toobig") and ref_end != err):
            res.violations.append({"kind": "frames handed over differ from the complete well-formed frames of the stream: %d handed "
                                           "over, %d in the stream (outcome %s, the stream ends with %s)"
                                           % (len(handed), len(ref), err, ref_end),
                                   "stream": s.hex(), "handed": [h.hex()[:80] for h in handed][:8]})
        res.count("stream:" + kind)
        res.count("outcome:" + err)
        if EXPECT_REFUSED_AFTER[0] is not None and (err != "toobig" or len(payloads) != EXPECT_REFUSED_AFTER[0]):
            res.violations.append({"kind": "a frame announcing a length over the limit was not refused at that point: %d message(s) "
                                           "delivered (%d precede it), outcome %s" % (len(payloads), EXPECT_REFUSED_AFTER[0], err),
                                   "stream": s.hex()})
        res.case(("stream", s))
        if i < 3:
            res.sample({"kind": kind, "stream_len": len(s), "result": whole_line[-60:]})
        n = len(s)
        if n <= exhaustive_limit:
            for a in range(0, n + 1):           # all 2-way cuts
                one(cuts(s, [a]), sid, whole_line)
            if n <= ctx.scale(90, 200):          # all 3-way cuts
                for a, b in itertools.combinations_with_replacement(range(0, n + 1), 2):
                    one(cuts(s, [a, b]), sid, whole_line)
                res.count("streams_all_3way")
            res.count("streams_all_2way")
        for _ in range(ctx.scale(20, 60)):      # random k-way cuts, byte-by-byte, empty reads
            k = rng.randrange(1, min(n, 12) + 1)
            pts = sorted(rng.randrange(0, n + 1) for _ in range(k))
            one(cuts(s, pts), sid, whole_line)
        one([bytes([b]) for b in s] if n < 400 else cuts(s, list(range(0, n, 7))), sid, whole_line)
    model = ctx.driver.ask(ops)
    kit.compare(res, ops, impl, model)
    res.rule = ("streams of 1-6 framed messages built from the repository's message classes, plain and corrupted "
                "(wrong magic at each position, length = limit / limit+1 / 2^32-1 / running past the end, zero length, "
                "undecodable payload, random mutation, a stream ending in the first 4-7 bytes of a frame with a wrong magic / in the 8 "
                "header bytes of an over-limit frame / in an incomplete well-formed header); every 2-way cut of streams ≤ %d bytes, every 3-way cut of the "
                "shorter ones, random k-way cuts and byte-by-byte delivery, through the real MessageReceiver.receive "
                "and real message decoding; compared with the model's parser and with the unfragmented outcome. "
                "Non-trivial = a fragmentation into ≥ 2 chunks (distinct by stream and cut points)" % exhaustive_limit)
    return res

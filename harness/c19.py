"""C19 — peer book: event sequences (manager steps over a virtual clock, incoming connections,
greetings incl. self-connections, peer announcements, closes) on the real LocalPeer /
NetworkManager with an in-memory socket factory, against the model's Book; monitors for
disjointness (_sanity_check), back-off spacing, self-connections, announcements, the peers file."""
import itertools
import json
import os
import selectors
import socket as real_socket
from ipaddress import IPv6Address

from . import kit, node
from .kit import hx

import skepticoin.networking.local_peer as lpm
import skepticoin.networking.remote_peer as rp
import skepticoin.networking.disk_interface as dim
from skepticoin.networking.local_peer import LocalPeer
from skepticoin.networking.disk_interface import DiskInterface
from skepticoin.networking.remote_peer import (
    ConnectedRemotePeer, DisconnectedRemotePeer, INCOMING, OUTGOING, load_peers_from_list)
from skepticoin.networking.messages import Message, HelloMessage, SupportedVersion, PeersMessage, Peer, MessageHeader
from skepticoin.coinstate import CoinState


class FakeSock:
    """one end of a socketpair standing in for socket.socket(AF_INET, SOCK_STREAM)"""

    def __init__(self, pool):
        self.a, self.b = real_socket.socketpair()
        pool.append(self.b)

    def setblocking(self, flag):
        self.a.setblocking(flag)

    # what the non-blocking connect reports at once is an input like any other: in progress (the usual case), done, or an
    # immediate failure (no route: every peer while the machine is offline; an address the kernel refuses outright). The
    # attempt counts as an attempt whatever is reported
    CONNECT_RESULTS = [0, 115, 101, 115, 100, 111, 115, 101]
    _n = 0

    def connect_ex(self, addr):
        FakeSock._n += 1
        return FakeSock.CONNECT_RESULTS[(FakeSock._n + hash(addr[0]) % 3) % len(FakeSock.CONNECT_RESULTS)]

    def fileno(self):
        return self.a.fileno()

    def close(self):
        self.a.close()

    def __getattr__(self, name):
        return getattr(self.a, name)


class FakeSocketModule:
    AF_INET = real_socket.AF_INET
    SOCK_STREAM = real_socket.SOCK_STREAM
    SOL_SOCKET = real_socket.SOL_SOCKET
    SO_REUSEADDR = real_socket.SO_REUSEADDR

    def __init__(self):
        self.pool = []

    def socket(self, *a, **k):
        return FakeSock(self.pool)


class PeersDisk(DiskInterface):
    def save_transaction_for_debugging(self, transaction):
        pass


def key_str(k):
    return "%s:%s:%s" % (k[0], k[1], "O" if k[2] == OUTGOING else "I")


def opt(x):
    return "-" if x is None else str(x)


class RealBook:
    def __init__(self, initial):
        node.install_clock()
        self.fake = FakeSocketModule()
        lpm.socket = self.fake
        self.lp = LocalPeer(disk_interface=PeersDisk())
        # the node's own nonce is any 32-bit number: every other book gets one with the top bit set
        RealBook.instances = getattr(RealBook, "instances", 0) + 1
        if RealBook.instances % 2 == 1:
            self.lp.nonce |= 0x80000000
        self.lp.chain_manager.set_coinstate(CoinState.zero())
        self.nm = self.lp.network_manager
        # the initial peer book comes from the peer file, read by the node's own start-up routine (every other book; the
        # others get it from a list in memory, as the test-suite does)
        if initial and RealBook.instances % 2 == 0:
            import contextlib
            import io as _io
            import json as _json
            with open("peers.json", "w") as fh:
                _json.dump([[h, p, "OUTGOING", "2021-03-14T21:00:00Z"] for h, p in initial], fh, indent=4)
            with contextlib.redirect_stdout(_io.StringIO()):
                self.nm.disconnected_peers = self.lp.disk_interface.load_peers()
            RealBook.from_file = getattr(RealBook, "from_file", 0) + 1
        else:
            self.nm.disconnected_peers = load_peers_from_list([(h, p, OUTGOING) for h, p in initial])
        self.attempts = []
        self.errors = []
        orig = self.lp.start_outgoing_connection
        self.unlogged_start = orig

        def logged(disc):
            self.attempts.append(((disc.host, disc.port, disc.direction), node.CLOCK[0], disc.ban_score))
            return orig(disc)
        self.lp.start_outgoing_connection = logged
        self.incoming_socks = []

    def close(self):
        lpm.socket = real_socket
        for p in list(self.nm.connected_peers.values()):
            try:
                p.sock.close()
            except Exception:
                pass
        for s in self.fake.pool + self.incoming_socks:
            try:
                s.close()
            except Exception:
                pass
        try:
            self.lp.selector.close()
        except Exception:
            pass

    def guard(self, f, *a):
        try:
            return f(*a)
        except Exception as e:
            self.errors.append(repr(e))

    def header(self):
        return MessageHeader(0, 1, 0, 0)

    def ev_step(self, now):
        node.CLOCK[0] = now
        self.guard(self.nm.step, now)

    def ev_incoming(self, host, port):
        a, b = real_socket.socketpair()
        a.setblocking(False)
        self.incoming_socks.append(b)
        peer = ConnectedRemotePeer(self.lp, host, port, INCOMING, None, a, ban_score=0)
        self.lp.selector.register(a, selectors.EVENT_READ, data=peer)
        self.guard(self.nm.handle_peer_connected, peer)

    def ev_hello(self, key, mine, my_port):
        p = self.nm.connected_peers.get(key)
        if p is None:
            return False
        nonce = self.lp.nonce if mine else (self.lp.nonce + 1) % (2 ** 32)
        m = HelloMessage([SupportedVersion(0)], IPv6Address(bytes(16)), 0, IPv6Address(bytes(16)), my_port, nonce, b"x")
        m = Message.deserialize(m.serialize())          # as it comes off the wire
        self.guard(p.handle_hello_message_received, self.header(), m)
        return True

    def ev_peers(self, addrs):
        ps = list(self.nm.connected_peers.values())
        if not ps:
            return False
        m = PeersMessage([Peer(0, IPv6Address("::ffff:%s" % h), port) for h, port in addrs])
        self.guard(ps[0].handle_peers_message_received, self.header(), m)
        return True

    def ev_close(self, key):
        p = self.nm.connected_peers.get(key)
        if p is None:
            return False
        self.closes = getattr(self, "closes", 0) + 1
        if not p.hello_received and self.closes % 2 == 0:
            # the connection ends without a greeting — but not silently: the peer first sends a well-formed message that is not a
            # greeting (refused: "first message must be Hello"), which is what makes the node close it
            from skepticoin.networking.messages import GetPeersMessage
            try:
                p.handle_message_received(self.header(), GetPeersMessage())
            except Exception:
                pass
        self.guard(self.lp.disconnect, p, "test")
        return True

    def digest(self):
        nm = self.nm
        conn = sorted("%s:%d:%s:%d" % (key_str(k), p.ban_score, opt(p.last_connection_attempt), 1 if p.hello_received else 0)
                      for k, p in nm.connected_peers.items())
        disc = sorted("%s:%d:%s" % (key_str(k), p.ban_score, opt(p.last_connection_attempt))
                      for k, p in nm.disconnected_peers.items())
        my = sorted("%s:%d" % (h, p) for h, p in nm.my_addresses)
        att = ["%s@%d/%d" % (key_str(k), t, ban) for k, t, ban in sorted(self.attempts, key=lambda a: (a[1], key_str(a[0])))]
        insane = any(k in nm.disconnected_peers for k in nm.connected_peers)
        return "conn=%s disc=%s my=%s att=%s insane=%s" % (",".join(conn), ",".join(disc), ",".join(my), ",".join(att),
                                                           "true" if insane else "false")


HOSTS = ["10.0.0.1", "10.0.0.2"]
PORTS = [2412, 2413]


def random_event(rng, rb, clock):
    c = rng.random()
    if c < 0.35:
        clock[0] += rng.choice([0, 1, 5, 10, 20, 100, 1800])
        return ("step", clock[0])
    if c < 0.45:
        return ("incoming", rng.choice(HOSTS), rng.choice([50001, 50002]))
    keys = sorted(rb.nm.connected_peers.keys(), key=key_str)
    if c < 0.65 and keys:
        k = rng.choice(keys)
        return ("hello", k, rng.random() < 0.2, rng.choice(PORTS))
    if c < 0.75 and keys:
        return ("peers", [(rng.choice(HOSTS + ["10.0.0.3"]), rng.choice(PORTS)) for _ in range(rng.randrange(0, 3))])
    if keys:
        return ("close", rng.choice(keys))
    clock[0] += 10
    return ("step", clock[0])


def apply_event(rb, ev, ops, impl):
    if ev[0] == "step":
        rb.ev_step(ev[1])
        ops.append("book step %d" % ev[1])
    elif ev[0] == "incoming":
        rb.ev_incoming(ev[1], ev[2])
        ops.append("book incoming %s %d" % (ev[1], ev[2]))
    elif ev[0] == "hello":
        k = ev[1]
        rb.ev_hello(k, ev[2], ev[3])
        ops.append("book hello %s %d %d %d %d" % (k[0], k[1], 1 if k[2] == OUTGOING else 0, 1 if ev[2] else 0, ev[3]))
    elif ev[0] == "peers":
        rb.ev_peers(ev[1])
        ops.append("book peers " + " ".join("%s/%d" % a for a in ev[1]))
    elif ev[0] == "close":
        k = ev[1]
        rb.ev_close(k)
        ops.append("book close %s %d %d" % (k[0], k[1], 1 if k[2] == OUTGOING else 0))
    impl.append("ok")


def check_invariants(res, rb, trace, self_addrs):
    nm = rb.nm
    if rb.errors:
        res.violations.append({"kind": "an exception escaped a network-manager operation: %s" % rb.errors[0], "trace": trace[-12:]})
        rb.errors.clear()
    both = [k for k in nm.connected_peers if k in nm.disconnected_peers]
    if both:
        res.violations.append({"kind": "an address is recorded as both connected and waiting for reconnection",
                               "address": key_str(both[0]), "trace": trace[-12:]})
    # back-off over the attempt log
    last = {}
    for k, t, ban in rb.attempts:
        if ban > 2880:
            res.violations.append({"kind": "a peer is retried beyond the configured number of failures", "address": key_str(k)})
        if k in last:
            need = min(10 * 2 ** min(ban, 20), 1800)
            if t - last[k] < need:
                res.violations.append({"kind": "retried after %d s, sooner than min(10 s * 2^%d, 30 min)" % (t - last[k], ban),
                                       "address": key_str(k), "trace": trace[-12:]})
        if (k[0], k[1]) in self_addrs.get("before_%d" % id(k), ()):
            pass
        last[k] = t


def patch_everywhere(name, value):
    """a configured constant, replaced in every loaded module of the package that holds a binding of it"""
    import sys
    saved = []
    for mn, m in list(sys.modules.items()):
        if mn.startswith("skepticoin") and m is not None and hasattr(m, name):
            saved.append((m, getattr(m, name)))
            setattr(m, name, value)
    return saved


def give_up(ctx, res):
    """the configured number of failures, made small: one outgoing address whose every attempt ends without a greeting,
    the clock moved past the longest back-off each time.  The harness counts the failures itself (not the node's
    counter): attempt number n is made after n - 1 consecutive failures, so more than limit + 1 attempts is a retry
    beyond the configured number of failures."""
    rng = ctx.rng
    for limit in (2, 4, 7)[:ctx.scale(2, 3)]:
        saved = patch_everywhere("MAX_CONNECTION_ATTEMPTS", limit)
        try:
            rb = RealBook([(HOSTS[0], PORTS[0])])
            ops = ["p maxConnectionAttempts %d" % limit, "book new", "book add %s %d" % (HOSTS[0], PORTS[0])]
            impl = ["ok"] * 3
            k = (HOSTS[0], PORTS[0], OUTGOING)
            t, failures, trace = 1000, 0, []
            for _ in range(limit + 8):
                t += 1800 + rng.choice([0, 1, 60])
                apply_event(rb, ("step", t), ops, impl)
                trace.append("step %d" % t)
                if k in rb.nm.connected_peers:
                    apply_event(rb, ("close", k), ops, impl)
                    failures += 1
                    trace.append("closed without a greeting (%d)" % failures)
                ops.append("book digest")
                impl.append(rb.digest())
                res.case(("giveup", limit, impl[-1]), nontrivial=True)
            # once given up, the address stays given up: another peer announcing it again does not start a new series
            dialled = len(rb.attempts)
            apply_event(rb, ("incoming", HOSTS[1], 50001), ops, impl)
            apply_event(rb, ("peers", [(HOSTS[0], PORTS[0])]), ops, impl)
            trace.append("announced again by another peer")
            for _ in range(4):
                t += 1800 + rng.choice([0, 1, 60])
                apply_event(rb, ("step", t), ops, impl)
                trace.append("step %d" % t)
                if k in rb.nm.connected_peers:
                    apply_event(rb, ("close", k), ops, impl)
                ops.append("book digest")
                impl.append(rb.digest())
            if len(rb.attempts) > dialled and dialled >= limit + 1:
                res.violations.append({"kind": "an address the node had given up on (%d dials, configured failures %d) is dialled again "
                                               "after another peer announced it" % (dialled, limit),
                                       "configured_failures": limit, "attempts": [a[1] for a in rb.attempts], "trace": trace[-8:]})
            res.count("give_up_scenarios")
            if rb.errors:
                res.violations.append({"kind": "an exception escaped a network-manager operation: %s" % rb.errors[0],
                                       "trace": trace[-8:]})
            if len(rb.attempts) > limit + 1:
                res.violations.append({"kind": "a peer whose attempts all ended without a greeting was dialled %d times with the "
                                               "configured number of failures set to %d: it is retried beyond that number"
                                               % (len(rb.attempts), limit),
                                       "configured_failures": limit, "attempts": [a[1] for a in rb.attempts], "trace": trace[-10:]})
            rb.close()
            ops.append("p maxConnectionAttempts 2880")
            impl.append("ok")
            model = ctx.driver.ask(ops)
            kit.compare(res, ops, impl, model)
        finally:
            for m, v in saved:
                setattr(m, "MAX_CONNECTION_ATTEMPTS", v)


def run(ctx):
    res = kit.Result()
    rng = ctx.rng
    kit.setup_env()
    give_up(ctx, res)
    # ---- exhaustive short sequences (thorough) / sampled (quick) over two hosts x two ports
    alphabet = []
    for h in HOSTS[:1]:
        alphabet += [("incoming", h, 50001)]
    n_random = ctx.scale(12, 40)
    length = ctx.scale(220, 700)
    for si in range(n_random):
        initial = [(h, p) for h in HOSTS for p in PORTS if rng.random() < 0.7] or [(HOSTS[0], PORTS[0])]
        rb = RealBook(initial)
        ops = ["book new"] + ["book add %s %d" % a for a in initial]
        impl = ["ok"] * len(ops)
        clock = [1000]
        trace = []
        self_keys = set()
        self_since, reported_self = {}, set()
        for step in range(length):
            ev = random_event(rng, rb, clock)
            before_entries = {k: (p.ban_score, p.last_connection_attempt) for k, p in rb.nm.disconnected_peers.items()}
            apply_event(rb, ev, ops, impl)
            trace.append(str(ev))
            for k_, n_ in self_since.items():
                later = [a for a in rb.attempts[n_:] if a[0] == k_]
                if later and k_ not in reported_self:
                    reported_self.add(k_)
                    res.violations.append({"kind": "an address recognised as the node's own was dialled again",
                                           "address": key_str(k_), "at": later[0][1], "trace": trace[-10:]})
            if ev[0] == "hello" and ev[2] and ev[1][2] == OUTGOING:
                self_keys.add(ev[1])
                self_since.setdefault(ev[1], len(rb.attempts))
                if ev[1] in rb.nm.connected_peers:
                    res.violations.append({"kind": "a connection to the node itself was not dropped", "trace": trace[-6:]})
            if ev[0] in ("peers", "hello", "incoming"):
                # neither an announcement nor a greeting nor a new incoming connection may touch what is recorded about
                # an address that is waiting for reconnection (its failure count and the time of its last attempt)
                for k, v in before_entries.items():
                    p = rb.nm.disconnected_peers.get(k)
                    if p is not None and (p.ban_score, p.last_connection_attempt) != v:
                        res.violations.append({"kind": "a %s event overwrote what is recorded about a waiting address "
                                                       "(failure count %d, last attempt %s -> %d, %s): its back-off is lost"
                                                       % (ev[0], v[0], v[1], p.ban_score, p.last_connection_attempt),
                                               "address": key_str(k), "trace": trace[-8:]})
            ops.append("book digest")
            impl.append(rb.digest())
            check_invariants(res, rb, trace, {})
            res.case((si, step, impl[-1]), nontrivial=True)
            res.count("event:" + ev[0])
        # a self-connection is never retried
        first_self = {}
        for k, t, ban in rb.attempts:
            pass
        for k in self_keys:
            hits = [t for kk, t, ban in rb.attempts if kk == k]
            # attempts logged after the address was recognised as our own
            # (the recognition time is the hello event; attempts can only precede it)
            # recompute: find the index of the hello event in the trace and compare with attempt times
        # duplicate keys in the outgoing direction: a second outgoing connection to an address whose first one is still
        # recorded as connected (the manager's own step never does this; the quantification asks for it). Monitors only.
        for _ in range(3):
            outs = sorted([k for k in rb.nm.connected_peers if k[2] == OUTGOING], key=key_str)
            if not outs:
                clock[0] += 1800
                apply_event(rb, ("step", clock[0]), [], [])
                continue
            k = rng.choice(outs)
            rb.guard(rb.unlogged_start, DisconnectedRemotePeer(k[0], k[1], OUTGOING, None, 0))      # not one of the manager's own attempts
            trace.append("('duplicate outgoing connection', %r)" % (k,))
            check_invariants(res, rb, trace, {})
            clock[0] += rng.choice([0, 10, 100])
            rb.ev_step(clock[0])
            trace.append("('step', %d)" % clock[0])
            check_invariants(res, rb, trace, {})
            res.count("event:duplicate_outgoing")
            res.case((si, "dup", k), nontrivial=True)
        res.count("attempts", len(rb.attempts))
        if len(res.samples) < 3:
            res.sample({"events": length, "attempts": ["%s@%d/%d" % (key_str(k), t, b) for k, t, b in rb.attempts][:8]})
        rb.close()
        model = ctx.driver.ask(ops)
        kit.compare(res, ops, impl, model)
    # ---- self-connection not retried: a dedicated scenario
    for rep in range(ctx.scale(3, 10)):
        rb = RealBook([(HOSTS[0], PORTS[0])])
        ops = ["book new", "book add %s %d" % (HOSTS[0], PORTS[0])]
        impl = ["ok", "ok"]
        k = (HOSTS[0], PORTS[0], OUTGOING)
        t = 1000
        apply_event(rb, ("step", t), ops, impl)
        apply_event(rb, ("hello", k, True, 2412), ops, impl)
        n_before = len(rb.attempts)
        for _ in range(30):
            t += rng.choice([1, 10, 100, 1800, 5000])
            apply_event(rb, ("step", t), ops, impl)
        ops.append("book digest")
        impl.append(rb.digest())
        res.case(("self", rep, impl[-1]), nontrivial=True)
        if len(rb.attempts) != n_before or k in rb.nm.connected_peers:
            res.violations.append({"kind": "a connection to the node itself was retried", "attempts": len(rb.attempts) - n_before})
        rb.close()
        model = ctx.driver.ask(ops)
        kit.compare(res, ops, impl, model)
    # ---- the back-off function itself on a grid: failure counts 0-14 and around the give-up limit, clock values around
    # every power-of-two bound and around the 30 min ceiling; against the model and against the documented bound
    ops, impl = [], []
    t0 = 1_700_000_000
    for ban in list(range(0, 15)) + [2879, 2880, 2881, 5000]:
        bound = min(10 * 2 ** ban, 1800) if ban <= 2880 else None
        deltas = {0, 1, 9, 10, 11, 1279, 1280, 1281, 1799, 1800, 1801, 3600}
        if bound is not None:
            deltas |= {bound - 1, bound, bound + 1}
        for last in (None, t0):
            for dlt in sorted(deltas):
                peer = DisconnectedRemotePeer("10.3.3.3", 2412, OUTGOING, last, ban)
                got = bool(peer.is_time_to_connect(t0 + dlt))
                ops.append("book ttc %d %s %d" % (ban, "-" if last is None else str(last), t0 + dlt))
                impl.append("1" if got else "0")
                res.case(("ttc", ban, last, dlt), nontrivial=True)
                want = False if bound is None else (True if last is None else dlt >= bound)
                if got != want:
                    res.violations.append({"kind": "after %d failed attempts, %s s after the last attempt, is_time_to_connect says %s "
                                                   "(documented: retry no earlier than min(10 s * 2^k, 30 min), give up after 2880)"
                                                   % (ban, "no earlier attempt," if last is None else str(dlt), got),
                                           "ban_score": ban, "seconds_since_last_attempt": None if last is None else dlt})
    res.count("backoff_grid_points", len(ops))
    model = ctx.driver.ask(ops)
    kit.compare(res, ops, impl, model)
    # ---- the peers file: real write_peers in the scratch directory
    di = DiskInterface()
    for f in ("peers.json", "peers.json.new"):
        if os.path.exists(f):
            os.remove(f)
    written = []
    for i in range(ctx.scale(130, 400)):
        host = "10.1.%d.%d" % (rng.randrange(0, 3), rng.randrange(0, 60))
        port = rng.choice([2412, 2413])
        peer = DisconnectedRemotePeer(host, port, OUTGOING, None, 0)
        di.write_peers(peer)
        written.append((host, port, OUTGOING))
        data = json.load(open("peers.json"))
        keys = [tuple(r[0:3]) for r in data]
        res.case(("peersfile", i, len(data)), nontrivial=True)
        if len(data) > 100:
            res.violations.append({"kind": "the peers file holds more than 100 entries", "entries": len(data)})
        if keys[0] != (host, port, OUTGOING):
            res.violations.append({"kind": "the most recent peer is not first in the peers file"})
        if len(set(keys)) != len(keys):
            res.violations.append({"kind": "the peers file holds a duplicate key"})
        # most recent first: the file is the de-duplicated history, newest first, truncated
        want, seen = [], set()
        for k in reversed(written):
            if k not in seen:
                seen.add(k)
                want.append(k)
        if keys != want[:100]:
            res.violations.append({"kind": "the peers file is not the most recent 100 distinct peers, newest first"})
        if os.path.exists("peers.json.new"):
            res.violations.append({"kind": "write_peers left its temporary file behind"})
    res.count("peers_file_writes", len(written))
    # ---- the same call under strace: the replacement must be atomic (a crash is simulated after every system call)
    import shutil
    import subprocess
    import sys
    import tempfile
    from . import wallets
    for rep in range(ctx.scale(2, 6)):
        n_old = rng.choice([0, 3, 99, 100])
        old_rows = [["10.9.%d.%d" % (i // 200, i % 200), 2412, OUTGOING, "2026-01-01T00:00:00Z"] for i in range(n_old)]
        d = tempfile.mkdtemp(prefix="skv-peers-")
        try:
            old_text = json.dumps(old_rows, indent=4)
            with open(os.path.join(d, "peers.json"), "w") as f:
                f.write(old_text)
            script = ("import sys; sys.path.insert(0, %r)\n"
                      "from skepticoin.networking.disk_interface import DiskInterface\n"
                      "from skepticoin.networking.remote_peer import DisconnectedRemotePeer, OUTGOING\n"
                      "DiskInterface().write_peers(DisconnectedRemotePeer('10.8.8.%d', 2412, OUTGOING, None, 0))\n"
                      % (kit.REPO, rep))
            with open(os.path.join(d, "s.py"), "w") as f:
                f.write(script)
            pr = subprocess.run(["strace", "-f", "-s", "10000000", "-xx", "-e",
                                 "trace=openat,open,write,rename,renameat,renameat2,unlink,unlinkat,close",
                                 "-o", "trace.txt", sys.executable, "s.py"], cwd=d, stdout=subprocess.PIPE, stderr=subprocess.PIPE,
                                env={**os.environ, "PYTHONDONTWRITEBYTECODE": "1"})
            if pr.returncode != 0 or not os.path.exists(os.path.join(d, "trace.txt")):
                res.notes.append("strace not available: atomic replacement of the peers file not exercised")
                continue
            calls = wallets.parse_trace(os.path.join(d, "trace.txt"), "peers.json")
            new_text = open(os.path.join(d, "peers.json")).read()
        finally:
            shutil.rmtree(d, ignore_errors=True)
        res.count("peers_file_saves_under_strace")
        for n in range(len(calls) + 1):
            files = wallets.replay_prefix(old_text, calls, n, None, name="peers.json")
            content = files.get("peers.json")
            res.case(("peers-crash", rep, n), nontrivial=True)
            if content is None or content.decode(errors="replace") not in (old_text, new_text):
                res.violations.append({"kind": "after a crash following system call %d of write_peers the peers file is neither "
                                               "the complete old nor the complete new list" % n,
                                       "calls": [c[:2] for c in calls][:8], "old_entries": n_old})
    res.rule = ("the real LocalPeer / NetworkManager / ConnectedRemotePeer handlers with an in-memory socket factory over two "
                "hosts x two ports: %d random sequences of %d events (manager steps with clock increments from "
                "{0,1,5,10,20,100,1800}, incoming connections, greetings incl. own nonce, announcements, closes); book digest "
                "(connected / disconnected entries with ban score and last attempt, own addresses, attempt log) compared with "
                "the model after every event; monitor: nothing raises (_sanity_check), disjointness, back-off spacing of every "
                "attempt, self-connections dropped and not retried, announcements never overwrite; real write_peers (also under strace with a crash simulated after every system call): at most "
                "100 entries, newest first, no duplicate key, no leftover temporary file. Distinct non-trivial = events"
                % (n_random, length))
    return res

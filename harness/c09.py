"""C09 — relay path: sequences of deliveries (valid blocks on any fork, duplicates, orphans, broken
blocks) to one real node with the real block store attached and three peers; against the model's
handleBlockReceived; monitors for 'only valid blocks enter', 'stored', 'relayed once', 'no trace'."""
from . import kit, chain, node, ledger
from .kit import hx

import skepticoin.consensus as consensus


def setup(ctx, rng, res, n_pool=2):
    lines = chain.patch(horizon=-1)
    keys = chain.Keys(rng, 5)
    tree = chain.Tree(rng, keys)           # real genesis: the store always holds it
    tree.grow(rng.randrange(6, 12), fork_prob=0.3)
    # an output paying a key that is not a curve point: a later spend of it makes signature checking raise something
    # other than a validation error (class bad_curve_point)
    sp = [(r, o) for r, o in tree.spendable(tree.cs.current_chain_hash) if o.value > 10]
    if sp:
        r, o = sp[0]
        tree.extend(txs=[chain.make_tx(keys, tree.utxo(tree.cs.current_chain_hash), [r], [(o.value - 10, 0), (5, chain.GARBAGE_KEYS[0]), (5, chain.GARBAGE_KEYS[1])])])
    rn = node.RealNode(tree.cs, tree.blocks)
    rn.add_peer(active=True)
    rn.add_peer(active=True, outgoing=True)
    rn.add_peer(active=False)
    ops = list(lines) + keys.oracle_lines() + ["new t"] + ["addnv t t " + hx(b.serialize()) for b in tree.blocks]
    ops += ["node new t 0", "node peer 1 0", "node peer 1 1", "node peer 0 0"]
    impl = ["ok"] * len(ops)
    # pending transactions valid at the head
    head = tree.cs.current_chain_hash
    used = set()
    for _ in range(n_pool):
        t = tree.random_tx(head, exclude=used)
        if t is None:
            break
        used |= {i.output_reference for i in t.inputs}
        ops.extend(keys.oracle_lines(len([o for o in ops if o.startswith("sig ")])))
        impl.extend(["ok"] * (len(ops) - len(impl)))
        r = rn.deliver_tx(1, t)
        ops.append("node tx 1 " + hx(t.serialize()))
        impl.append(r)
    ops.append("node digest")
    impl.append(rn.digest())
    return keys, tree, rn, ops, impl


def one_off_fault(res, rng, tree, rn, accepted_ids, si, unvalidated_pending=False):
    """'an error while applying it': a valid block whose validation raises once (injected), then the same block again
    without the fault, then a child of it; monitors only (the operations are not sent to the model)"""
    head = rn.cm.coinstate.current_chain_hash
    if head not in tree.own or unvalidated_pending:
        return
    b1 = tree.extend(head)
    b2 = tree.extend(b1.hash())
    node.CLOCK[0] = b2.timestamp + 5
    real = consensus.validate_block_in_coinstate
    fired = []

    def faulty(block, coinstate):
        if not fired:
            fired.append(1)
            raise RuntimeError("injected one-off fault while validating")
        return real(block, coinstate)
    import skepticoin.networking.remote_peer as rp_
    saved = getattr(rp_, "validate_block_in_coinstate", None)
    consensus.validate_block_in_coinstate = faulty
    if saved is not None:
        rp_.validate_block_in_coinstate = faulty
    try:
        before = rn.digest()
        rn.deliver_block(0, b1, 0)
        if fired and rn.digest() != before:
            res.violations.append({"kind": "a delivery that failed with an error while it was being applied left a trace",
                                   "scenario": si, "block": b1.serialize().hex()})
    finally:
        consensus.validate_block_in_coinstate = real
        if saved is not None:
            rp_.validate_block_in_coinstate = saved
    if not fired:
        res.count("one_off_fault:not-reached")
        return
    res.count("one_off_fault:run")
    for blk, what in ((b1, "the same block delivered again after the one-off error"), (b2, "its child")):
        rn.deliver_block(0, blk, 0)
        info = {"scenario": si, "block": blk.serialize().hex(), "delivery": what}
        if blk.hash() not in rn.cm.coinstate.block_by_hash:
            res.violations.append({**info, "kind": "a valid block was not accepted after an earlier one-off error (%s)" % what})
        elif blk.hash() not in rn.disk_ids() or rn.store.write_buffer:
            res.violations.append({**info, "kind": "an accepted block was not written to the block store (%s)" % what})
        else:
            accepted_ids.append(blk.hash())
        res.case(("fault", si, blk.hash()), nontrivial=True)


def run(ctx):
    res = kit.Result()
    rng = ctx.rng
    n_scen = ctx.scale(4, 16)
    n_deliv = ctx.scale(70, 120)
    broken_classes = [c for c in ledger.classes_for("all") if c not in ledger.EXPECT_VALID and c != "orphan"]
    from .c19 import patch_everywhere
    for si in range(n_scen):
        keys, tree, rn, ops, impl = setup(ctx, rng, res)
        # the configured batch size (inventories, block requests) made smaller than the trees are high in every other scenario:
        # nothing about unsolicited deliveries depends on it
        small_batch = 3 if si % 2 == 1 else None
        saved_batch = patch_everywhere("GET_BLOCKS_INVENTORY_SIZE", small_batch) if small_batch else []
        if small_batch:
            ops.append("p inventorySize %d" % small_batch)
            impl.append("ok")
            res.count("scenarios_with_batch_size_3")
        cr = ledger.Crafter(tree)
        known = {b.hash() for b in tree.blocks}         # what the node has
        held_back = []                                  # valid blocks built but not yet delivered (orphans' parents)
        accepted_ids = []
        sig_mark = len(keys.oracle)
        forced_curve = False
        unvalidated_pending = [False]
        forced_next = []
        for di in range(n_deliv):
            choice = rng.random()
            kind = None
            blk = None
            known = set(rn.cm.coinstate.block_by_hash)          # what the node holds now (a roll-back may have dropped blocks)
            forgotten = [b for b in tree.blocks if b.hash() not in known and b.previous_block_hash in known]
            irt = 0
            if di == 4:
                # two more greeted peers join; the first of them is half-disconnected at once — its socket is no longer registered
                # with the selector while the peer is still listed as connected (what a disconnect that fails half-way leaves
                # behind): queueing the next relayed block for it raises inside the relay loop (once, while its queue is empty),
                # and the peer after it must get its frame all the same
                broken_ = rn.add_peer(active=True)
                rn.add_peer(active=True)
                ops += ["node peer 1 0", "node peer 1 0"]
                impl += ["ok", "ok"]
                try:
                    rn.lp.selector.unregister(rn.peers[broken_].sock)
                    res.count("half_disconnected_peer_in_the_relay_loop")
                except Exception:
                    pass
            if di == 5 or (di == 25 and si % 2 == 0):
                # a reorganisation by overtaking, once or twice per scenario: a competitor of the head (same height, not the head)
                # and then a child of the competitor, which becomes the new head although its parent never was the head
                head_now = rn.cm.coinstate.current_chain_hash
                hb_now = rn.cm.coinstate.block_by_hash[head_now]
                if hb_now.height > 0 and head_now == tree.cs.current_chain_hash and hb_now.previous_block_hash in known:
                    sib = tree.extend(hb_now.previous_block_hash, n_tx=0)
                    forced_next.append(("valid_competitor_of_head", sib))
                    forced_next.append(("valid_overtaking_child", tree.extend(sib.hash(), n_tx=0)))
            if forced_next:
                kind, blk = forced_next.pop(0)
                res.count("forced:" + kind)
                kind = "valid"
            elif choice < 0.08 and tree.cs.current_chain_hash in known:
                # a valid block that arrives as the answer to the node's own request: adopted without full validation
                blk = tree.extend(tree.cs.current_chain_hash)
                kind, irt = "reply_valid", 41
            elif choice < 0.16 and forgotten:
                # a block the node once held and lost in a roll-back is delivered again
                blk = forgotten[0]
                kind = "redelivered_after_rollback"
            elif choice < 0.30:
                # a new valid block on the head or on a fork
                parent = tree.cs.current_chain_hash if rng.random() < 0.6 else rng.choice(tree.blocks[-7:]).hash()
                if rng.random() < 0.3:
                    parent = rng.choice(tree.blocks[:4]).hash()        # a fork far below the head (deeper than the batch size)
                    res.count("valid_block_on_a_fork_near_the_root")
                if parent not in known:
                    parent = tree.cs.current_chain_hash if tree.cs.current_chain_hash in known else None
                if parent is None:
                    continue
                blk = tree.extend(parent)
                kind = "valid"
            elif choice < 0.40 and len(tree.blocks) > 2:
                blk = rng.choice([b for b in tree.blocks if b.hash() in known])
                kind = "duplicate"
            elif choice < 0.50:
                # two blocks built, the child delivered first (orphan), the parent later, then the child again
                parent = tree.cs.current_chain_hash
                if parent not in known:
                    continue
                b1 = tree.extend(parent)
                b2 = tree.extend(b1.hash())
                held_back += [b1, b2]
                blk = b2
                kind = "orphan"
            elif choice < 0.60 and held_back:
                blk = held_back.pop(0)
                kind = "held_back"
            else:
                klass = rng.choice(broken_classes)
                ph = rng.choice([b for b in tree.blocks[-6:] if b.hash() in known] or [tree.blocks[0]]).hash()
                if not forced_curve and di >= 3:
                    with_garbage = [b for b in tree.blocks if b.hash() in known and any(
                        o.public_key.public_key in chain.GARBAGE_KEYS for o in tree.utxo(b.hash()).values())]
                    if with_garbage:
                        klass, forced_curve, ph = "bad_curve_point", True, with_garbage[-1].hash()
                try:
                    c = ledger.make_candidate(cr, klass, ph, [])
                except Exception:
                    c = None
                if c is None:
                    continue
                blk = c[0]
                kind = "broken:" + klass
            now = max(blk.timestamp, tree.cs.block_by_hash[tree.cs.current_chain_hash].timestamp) + 5
            if kind == "broken:ts_future_31":
                now = blk.timestamp - 31
            node.CLOCK[0] = now
            prior = rn.cm.coinstate
            # blocks adopted without validation (bulk download) are dropped again by the roll-back that follows any
            # rejected delivery: while some are pending, "no trace" cannot be read off the digest
            pending_unvalidated = unvalidated_pending[0]          # tracked by the harness, not read from the node
            # the delivering peer may be the one the chain manager has an open block request with (ChainManager.step sets this
            # flag on the peer it asks and clears it when that peer answers with an empty inventory): what an unsolicited block
            # from it is put through does not depend on that
            rn.peers[0].waiting_for_inventory = (di % 3 == 1)
            res.count("delivering_peer_has_open_request" if di % 3 == 1 else "delivering_peer_idle")
            before = rn.digest()
            frames_before = [list(rn.outbox_kinds(p)) for p in rn.peers]
            r = rn.deliver_block(0, blk, irt)
            after = rn.digest()
            ops.extend(keys.oracle_lines(sig_mark))
            impl.extend(["ok"] * (len(keys.oracle) - sig_mark))
            sig_mark = len(keys.oracle)
            ops.append("node block 0 %d %s %d" % (irt, hx(blk.serialize()), now))
            impl.append(r)
            ops.append("node digest")
            impl.append(after)
            res.case(blk.serialize() + bytes([di]), nontrivial=True)
            if irt != 0:
                # bulk-download path: compared with the model only (C09 speaks about deliveries outside bulk download)
                res.count("delivery:" + kind)
                if blk.hash() in rn.cm.coinstate.block_by_hash and blk.height % 10000 != 0:
                    unvalidated_pending[0] = True
                continue
            res.count("delivery:" + kind.split(":")[0])
            if kind.startswith("broken:"):
                res.count("broken_class:" + kind.split(":")[1])
            # ---- monitors on the implementation
            info = {"kind": None, "delivery": kind, "block": blk.serialize().hex(), "now": now, "scenario": si, "step": di}
            new = rn.cm.coinstate
            entered = blk.hash() in new.block_by_hash and blk.hash() not in prior.block_by_hash
            try:
                prior.add_block(blk, now)
                fully_valid = True
            except Exception:
                fully_valid = False
            if entered or after != before:
                unvalidated_pending[0] = False        # a validated acceptance, or the roll-back after a rejection
            if entered:
                known.add(blk.hash())
                accepted_ids.append(blk.hash())
                res.count("entered")
                if not fully_valid:
                    res.violations.append({**info, "kind": "a block entered the chain state without passing full validation"})
                if blk.hash() not in rn.disk_ids() or rn.store.write_buffer:
                    res.violations.append({**info, "kind": "an accepted block was not written to the block store"})
                is_head = new.current_chain_hash == blk.hash()
                for pi, p in enumerate(rn.peers):
                    newf = rn.outbox_kinds(p)[len(frames_before[pi]):]
                    want = ["B:%s:0" % blk.hash()[:8].hex()] if (is_head and p.hello_sent and p.hello_received) else []
                    if newf != want:
                        res.violations.append({**info, "kind": "relay: peer %d got %s, expected %s" % (pi, newf, want)})
            else:
                if fully_valid and blk.hash() not in prior.block_by_hash:
                    # (full validation succeeded on the state the node had: in particular the parent is stored)
                    res.count("valid-not-entered")
                    res.violations.append({**info, "kind": "a delivered block that passes full validation against its parent's state "
                                                           "(parent stored, height %d, head at %d) was dropped: not in the chain state, not "
                                                           "stored" % (blk.height, prior.head().height)})
                if after != before and pending_unvalidated:
                    res.count("rollback-dropped-unvalidated-blocks")
                elif after != before:
                    res.violations.append({**info, "kind": "a delivery that did not enter the chain state left a trace",
                                           "before": before[-300:], "after": after[-300:]})
            if blk.hash() in prior.block_by_hash and after != before:
                res.violations.append({**info, "kind": "a repeated delivery had an effect"})
            if len(res.samples) < 4:
                res.sample({"delivery": kind, "result": r, "entered": entered})
        ops.append("node digest")
        impl.append(rn.digest())
        one_off_fault(res, rng, tree, rn, accepted_ids, si, unvalidated_pending[0])      # monitors only: not mirrored in the model
        ok = rn.store_ok()
        if ok is not True:
            res.violations.append({"kind": "the block store is impaired after the sequence", "error": ok, "scenario": si})
        disk = set(rn.disk_ids())
        for i in accepted_ids:
            if i not in disk:
                res.violations.append({"kind": "an accepted block is missing from the store at the end", "id": i.hex()})
        rn.close()
        for m_, v_ in saved_batch:
            m_.GET_BLOCKS_INVENTORY_SIZE = v_
        if small_batch:
            ops.append("p inventorySize 500")
            impl.append("ok")
        model = ctx.driver.ask(ops)
        kit.compare(res, ops, impl, model)
    long_bulk_download(ctx, res)
    # relayed blocks must reach the peers' sockets, not only their queues
    lines_ = chain.patch(horizon=-1)
    keys_ = chain.Keys(rng, 4)
    tree_ = chain.Tree(rng, keys_)
    tree_.grow(5, fork_prob=0.2)
    node.write_path_probe(res, rng, node.probe_messages(tree_, keys_, rng), "relay of accepted blocks")
    chain.unpatch()
    res.rule = ("one real node (LocalPeer + ChainManager + the real BlockStore on a scratch file, two greeted peers and one "
                "not greeted, pending transactions in the pool) started from a random forked tree; sequences of %d unsolicited "
                "deliveries mixing new valid blocks on the head or a fork, duplicates, orphans delivered before their "
                "parents, and blocks broken in each of the ways of C01/C02/C05; after every delivery the served state, last "
                "validated state, pool, write buffer, stored ids and every peer's queued frames are compared with the "
                "model's handleBlockReceived; monitors check validity of what entered, storage, relay counts, no trace of "
                "rejected deliveries, and that the store still works at the end. Distinct non-trivial = deliveries" % n_deliv)
    return res


def side_branch_probe(ctx, res, classes, prop):
    """what full validation refuses, a running node refuses wherever it lands: blocks broken in the ways of `classes` delivered
    by a peer (outside bulk download) on a parent that is NOT the node's head — so that they would not become the head — and then
    a valid block on top of each that would; also a valid block on a side branch, a refused block, and the side branch's next
    block (the head must follow the longer branch). Monitors only."""
    rng = ctx.rng
    for si in range(ctx.scale(2, 5)):
        chain.patch(horizon=-1)
        keys = chain.Keys(rng, 5)
        tree = chain.Tree(rng, keys)
        tree.grow(rng.randrange(5, 8), fork_prob=0.0)
        rn = node.RealNode(tree.cs, tree.blocks)
        rn.add_peer(active=True)
        rn.add_peer(active=True)
        cr = ledger.Crafter(tree)
        for klass in classes:
            head = rn.cm.coinstate.current_chain_hash
            hb = rn.cm.coinstate.block_by_hash[head]
            if hb.height < 2 or head not in tree.own:
                break
            side_parent = hb.previous_block_hash                # a block on it ties with the head: it does not become the head
            try:
                c = ledger.make_candidate(cr, klass, side_parent, [])
            except Exception:
                c = None
            if c is None:
                continue
            bad, now = c
            node.CLOCK[0] = max(now, hb.timestamp + 5)
            rn.deliver_block(0, bad, 0)
            res.case(("side-branch", si, klass, bad.hash()), nontrivial=True)
            res.count("broken_block_on_a_side_branch:" + klass)
            if bad.hash() in rn.cm.coinstate.block_by_hash:
                res.violations.append({"kind": "a block breaking rule '%s', delivered by a peer on a parent that is not the head, is part "
                                               "of the node's chain state" % klass, "block": bad.serialize().hex(),
                                       "tree": [b.serialize().hex() for b in tree.blocks]})
                break
            if rn.cm.coinstate.current_chain_hash != head:
                res.violations.append({"kind": "a refused block on a side branch moved the node's head", "class": klass,
                                       "block": bad.serialize().hex()})
                break
        # a valid side block, a refused block, the side branch's next block: the node follows the longer branch
        head = rn.cm.coinstate.current_chain_hash
        hb = rn.cm.coinstate.block_by_hash[head]
        if hb.height >= 2 and head == tree.cs.current_chain_hash:
            s1 = tree.extend(hb.previous_block_hash, n_tx=0)
            node.CLOCK[0] = s1.timestamp + 5
            rn.deliver_block(0, s1, 0)
            c = ledger.make_candidate(cr, "ts_equal_parent", head, [])
            if c is not None:
                node.CLOCK[0] = max(node.CLOCK[0], c[1])
                rn.deliver_block(1, c[0], 0)
            s2 = tree.extend(s1.hash(), n_tx=0)
            node.CLOCK[0] = s2.timestamp + 5
            rn.deliver_block(0, s2, 0)
            res.case(("side-branch-overtakes", si), nontrivial=True)
            res.count("side_branch_overtakes_after_a_refused_block")
            if s1.hash() not in rn.cm.coinstate.block_by_hash or rn.cm.coinstate.current_chain_hash != s2.hash():
                res.violations.append({"kind": "a valid block on a side branch, a refused block on the head, then the side branch's next "
                                               "block: the node's head is not the first-seen block of greatest height (the side "
                                               "block is %s, the head has height %d, the delivered branch height %d)"
                                               % ("stored" if s1.hash() in rn.cm.coinstate.block_by_hash else "LOST",
                                                  rn.cm.coinstate.head().height, s2.height),
                                       "blocks": [b.serialize().hex() for b in (s1, c[0] if c else s1, s2)]})
        rn.close()
    chain.unpatch()


def long_bulk_download(ctx, res):
    """a refused block at the end of a long bulk download: 9, 99 and 999 blocks are adopted without full validation (they sit in
    the store's write buffer), then a peer relays a block on top that fails full validation — the node falls back, the buffer is
    dropped, and neither the refused block nor anything the chain state does not hold is in the store. Monitors only."""
    from skepticoin.coinstate import CoinState
    from skepticoin.datatypes import Block, BlockHeader, BlockSummary, PowEvidence
    rng = ctx.rng
    chain.patch(horizon=-1)
    keys = chain.Keys(rng, 2)
    g = chain.genesis_block()

    def cheap(parent, k):
        """valid by itself (id below its own — easiest — target, commitment, reward data), never offered to full validation"""
        h = parent.height + 1
        cb = ledger.coinbase(h, chain.subsidy(h), keys.pk(k % 2), data=b"bulk")
        s_ = BlockSummary(h, parent.hash(), consensus.calc_merkle_root_hash([cb]), parent.timestamp + 60, b"\xff" * 32, k)
        return Block(BlockHeader(s_, PowEvidence(b"\x01" * 32, b"\x02" * 32, b"\x03" * 32)), [cb])

    blocks, cur = [], g
    for k in range(1001):
        cur = cheap(cur, k)
        blocks.append(cur)
    rn = node.RealNode(CoinState.empty().add_block_no_validation(g), [])
    rn.add_peer(active=True)
    rn.add_peer(active=True)
    for n in (9, 99, 999):
        for b in blocks[:n]:
            node.CLOCK[0] = b.timestamp + 5
            rn.deliver_block(0, b, 41)
        adopted = blocks[n - 1].hash() in rn.cm.coinstate.block_by_hash
        bad = cheap(blocks[n - 1], 7777)
        node.CLOCK[0] = bad.timestamp + 5
        rn.deliver_block(1, bad, 0)
        state_ids = set(rn.cm.coinstate.block_by_hash)
        disk = set(rn.disk_ids())
        res.case(("long-bulk-download", n), nontrivial=True)
        res.count("refused_block_after_%d_buffered_blocks" % n)
        if not adopted:
            res.notes.append("bulk download of %d blocks was not adopted" % n)
        problems = []
        if bad.hash() in state_ids:
            problems.append("the refused block is part of the chain state")
        if bad.hash() in disk:
            problems.append("the refused block was written to the block store")
        if rn.store.write_buffer:
            problems.append("the write buffer still holds %d block(s)" % len(rn.store.write_buffer))
        extra = disk - state_ids
        if extra:
            problems.append("the store holds %d block(s) that are not in the chain state" % len(extra))
        for msg in problems:
            res.violations.append({"kind": "a block relayed on top of %d blocks adopted during a bulk download fails full validation: %s"
                                           % (n, msg), "refused_block": bad.serialize().hex(), "buffered_before": n})
    rn.close()
    chain.unpatch()

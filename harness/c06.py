"""C06 — tamper evidence: every single-bit flip and every truncation of the encoding of valid
blocks, through Block.deserialize + add_block and through the model; none may be accepted."""
import hashlib

from . import kit, chain
from .kit import hx

from skepticoin.coinstate import CoinState
from skepticoin.datatypes import Block


def classify(cs, data, now, orig_id, orig_bytes, res, info):
    try:
        b = Block.deserialize(data)
    except Exception:
        return "u"
    try:
        cs.add_block(b, now)
    except Exception:
        return "r"
    if len(res.violations) < 40:
        res.violations.append({"kind": "an altered encoding of a valid block was accepted", "altered": data.hex(),
                               "original": orig_bytes.hex(), "same_id": b.hash() == orig_id, **info})
    return "a"


def run(ctx):
    res = kit.Result()
    rng = ctx.rng
    n_blocks = ctx.scale(14, 220)
    done = 0
    cfg_i = 0
    while done < n_blocks:
        cfg = 0 if cfg_i % 3 == 2 else 1      # mostly easy targets: there an altered header often still has an id below target
        cfg_i += 1
        lines = chain.patch(horizon=-1) if cfg == 0 else chain.patch(horizon=-1, interval=6, timespan=720)
        keys = chain.Keys(rng, 4)
        genesis = None if cfg == 0 else chain.custom_genesis(keys, target=bytes([rng.choice([0x7f, 0x7f, 0x1f])]) + b"\xff" * 31)
        tree = chain.Tree(rng, keys, genesis=genesis)
        tree.grow(rng.randrange(6, 14), fork_prob=0.35)
        ops = list(lines) + keys.oracle_lines() + ["new t"]
        for b in tree.blocks:
            ops.append("addnv t t " + hx(b.serialize()))
        impl = ["ok"] * len(ops)
        base = tree.cs
        # candidates: fresh valid blocks on random parents (single- and multi-transaction), and stored blocks
        # re-offered against the state before them is not possible with one state, so fresh ones only
        per_tree = min(ctx.scale(5, 12), n_blocks - done)
        for _ in range(per_tree):
            parent = rng.choice(tree.blocks[-6:]).hash()
            txs = tree.random_txs(parent, rng.choice([0, 0, 1, 2, 3]))
            ts = base.block_by_hash[parent].timestamp + rng.randrange(1, 100)
            blk = chain.mine(base, parent, txs, keys.pk(rng.randrange(0, 4)), ts)
            now = ts + 5
            raw = blk.serialize()
            ops.extend(keys.oracle_lines(len([o for o in ops if o.startswith("sig ")])))
            impl.extend(["ok"] * (len(ops) - len(impl)))
            # the unaltered block is valid
            try:
                with_original = base.add_block(Block.deserialize(raw), now)
            except Exception as e:
                res.notes.append("generator produced an invalid block: %r" % e)
                continue
            info = {"tree": [b.serialize().hex() for b in tree.blocks], "now": now}
            cls = []
            for i in range(8 * len(raw)):
                m = bytearray(raw)
                m[i // 8] ^= 1 << (i % 8)
                cls.append(classify(base, bytes(m), now, blk.hash(), raw, res, info))
            tcls = [classify(base, raw[:n], now, blk.hash(), raw, res, info) for n in range(len(raw))]
            # the same alterations offered to a node that already stores the original (an alteration outside the header
            # has the original's id): none may be accepted there either
            for i, c in enumerate(cls):
                if c != "u":
                    m = bytearray(raw)
                    m[i // 8] ^= 1 << (i % 8)
                    classify(with_original, bytes(m), now, blk.hash(), raw, res,
                             {**info, "offered_to": "the chain that already contains the original"})
                    res.count("alterations_offered_after_the_original")
            acc = [str(i) for i, c in enumerate(cls) if c == "a"]
            tacc = [str(i) for i, c in enumerate(tcls) if c != "u"]
            for n in tacc[:3]:
                res.violations.append({"kind": "a truncated encoding decodes", "length": int(n), "original": raw.hex()})
            line = "dec=%d acc=%s tdec=%s dd=%s" % (
                sum(1 for c in cls if c != "u"), ",".join(acc) if acc else "-", ",".join(tacc) if tacc else "-",
                hashlib.sha256("".join(cls).encode()).digest()[:8].hex())
            ops.append("flips t %s %d" % (hx(raw), now))
            impl.append(line)
            res.evaluations += len(cls) + len(tcls)
            res.nontrivial.add(hashlib.sha256(raw).digest()[:12])
            res.count("blocks")
            res.count("alterations", len(cls) + len(tcls))
            res.count("decodable_flips", sum(1 for c in cls if c != "u"))
            res.count("txs_in_blocks", len(blk.transactions))
            if len(res.samples) < 3:
                res.sample({"block_bytes": len(raw), "transactions": len(blk.transactions), "result": line})
            done += 1
        model = ctx.driver.ask(ops)
        kit.compare(res, ops, impl, model)
    # one large block per run: a reward paying several hundred outputs (a pool's pay-out; a single transaction of more than
    # 64 KiB) — sampled bit flips and truncations all over it, most of them far behind the first 64 KiB (monitors only)
    from . import ledger
    from skepticoin.datatypes import Transaction, Input, Output
    from skepticoin.signing import CoinbaseData
    chain.patch(horizon=-1)
    keys = chain.Keys(rng, 4)
    tree = chain.Tree(rng, keys, genesis=chain.custom_genesis(keys, target=bytes([0x7f]) + b"\xff" * 31))
    tree.grow(4, fork_prob=0.0)
    parent = tree.cs.current_chain_hash
    h_ = tree.cs.block_by_hash[parent].height + 1
    n_out = rng.randrange(930, 1000)
    share = chain.subsidy(h_) // n_out
    vals = [share] * (n_out - 1) + [chain.subsidy(h_) - share * (n_out - 1)]
    cb = Transaction([Input(ledger.NULLREF, CoinbaseData(h_, b"pool"))], [Output(v_, keys.pk(i_ % 4)) for i_, v_ in enumerate(vals)])
    big = ledger.Crafter(tree).craft(parent, txs=[cb] + tree.random_txs(parent, 1))
    now = big.timestamp + 5
    raw = big.serialize()
    try:
        with_big = tree.cs.add_block(Block.deserialize(raw), now)
    except Exception as e:
        with_big = None
        res.notes.append("generator produced an invalid large block: %r" % e)
    if with_big is not None:
        info = {"tree": [b.serialize().hex() for b in tree.blocks], "now": now, "large_block_bytes": len(raw)}
        positions = sorted({rng.randrange(0, 8 * len(raw)) for _ in range(ctx.scale(260, 1500))}
                           | {8 * (65536 + k_) + (k_ % 8) for k_ in range(0, len(raw) - 65536 - 1, max(1, (len(raw) - 65536) // 60))})
        for i in positions:
            m = bytearray(raw)
            m[i // 8] ^= 1 << (i % 8)
            c_ = classify(tree.cs, bytes(m), now, big.hash(), raw[:64], res, {**info, "flipped_bit": i})
            if c_ != "u":
                classify(with_big, bytes(m), now, big.hash(), raw[:64], res,
                         {**info, "flipped_bit": i, "offered_to": "the chain that already contains the original"})
        for n in sorted({rng.randrange(1, len(raw)) for _ in range(40)} | {65536, 65537, len(raw) - 1, len(raw) - 64}):
            if classify(tree.cs, raw[:n], now, big.hash(), raw[:64], res, {**info, "truncated_to": n}) != "u":
                res.violations.append({"kind": "a truncated encoding decodes", "length": n, "large_block_bytes": len(raw)})
        res.evaluations += len(positions) + 44
        res.nontrivial.add(hashlib.sha256(raw).digest()[:12])
        res.count("large_block_alterations", len(positions) + 44)
        res.count("large_block_bytes", len(raw))
    # a block AT a checkpointed height (its id is pinned by the table, the evidence is not recomputed there): every single-bit
    # flip and truncation of a reward-only block and of a block with a spend, with the checkpoint table holding the block's id
    from skepticoin.humans import human as _human
    from .c19 import patch_everywhere as _pe
    for n_tx in (0, 0, 1):
        chain.patch(horizon=-1)
        keys = chain.Keys(rng, 3)
        tree = chain.Tree(rng, keys, genesis=chain.custom_genesis(keys, target=bytes([0x7f]) + b"\xff" * 31))
        tree.grow(3, fork_prob=0.0)
        parent_state = tree.cs
        blk = tree.extend(n_tx=n_tx)
        raw = blk.serialize()
        now = blk.timestamp + 5
        saved_ = _pe("MAX_KNOWN_HASH_HEIGHT", blk.height) + _pe("KNOWN_HASHES", {blk.height: _human(blk.hash())})
        try:
            try:
                parent_state.add_block(Block.deserialize(raw), now)
            except Exception as e:
                res.notes.append("the checkpointed block itself is refused: %r" % e)
                continue
            info = {"tree": [b.serialize().hex() for b in tree.blocks[:-1]], "now": now, "checkpointed_height": blk.height}
            n_alt = 0
            for i in range(8 * len(raw)):
                m = bytearray(raw)
                m[i // 8] ^= 1 << (i % 8)
                classify(parent_state, bytes(m), now, blk.hash(), raw, res, {**info, "flipped_bit": i})
                n_alt += 1
            for n in range(len(raw)):
                if classify(parent_state, raw[:n], now, blk.hash(), raw, res, {**info, "truncated_to": n}) != "u":
                    res.violations.append({"kind": "a truncated encoding decodes", "length": n, "original": raw.hex()})
                n_alt += 1
            res.evaluations += n_alt
            res.nontrivial.add(hashlib.sha256(raw + b"cp").digest()[:12])
            res.count("alterations_of_a_checkpointed_block", n_alt)
        finally:
            for m_, v_ in saved_:
                for name_ in ("MAX_KNOWN_HASH_HEIGHT", "KNOWN_HASHES"):
                    if isinstance(v_, dict) == (name_ == "KNOWN_HASHES") and hasattr(m_, name_):
                        setattr(m_, name_, v_)
    chain.unpatch()
    res.exhaustive = True
    res.rule = ("fresh fully valid blocks (0-3 signed spends) on random parents of random forked trees; for each block every "
                "single-bit flip and every truncation point of its encoding (exhaustive per block), decoded with "
                "Block.deserialize and offered to add_block against the same chain and (the decodable ones) against the chain that "
                "already contains the original; the model classifies the same "
                "alterations (undecodable / rejected / accepted) and the classification strings are compared by digest. "
                "evaluations = alterations; distinct non-trivial = distinct blocks")
    kit.optimised_interpreter_probe(res, "codec")
    return res

"""node — a real LocalPeer / ChainManager / NetworkManager / BlockStore driven in-process and
deterministically: in-memory sockets, a virtual clock, the real block store on a scratch file."""
import io
import os
import selectors
import socket
import struct

from . import kit, chain
from .kit import hx

kit.setup_env()

import skepticoin.networking.local_peer as local_peer_mod  # noqa: E402  (before manager: circular import)
import skepticoin.networking.manager as manager_mod  # noqa: E402
import skepticoin.networking.remote_peer as rp  # noqa: E402
import skepticoin.blockstore as blockstore  # noqa: E402
import skepticoin.networking.disk_interface as di_mod  # noqa: E402
from skepticoin.networking.local_peer import LocalPeer  # noqa: E402
from skepticoin.networking.disk_interface import DiskInterface  # noqa: E402
from skepticoin.networking.remote_peer import ConnectedRemotePeer, INCOMING, OUTGOING, MAGIC  # noqa: E402
from skepticoin.networking.messages import (  # noqa: E402
    MessageHeader, Message, DataMessage, DATA_BLOCK, DATA_TRANSACTION, InventoryMessage, GetDataMessage,
    GetBlocksMessage, HelloMessage, GetPeersMessage, PeersMessage)
from skepticoin.datatypes import Block, Transaction  # noqa: E402

CLOCK = [1_700_000_000]


def _now():
    return CLOCK[0]


def install_clock():
    rp.time = _now
    local_peer_mod.time = _now
    try:
        import skepticoin.mining as mining
        mining.time = _now
    except Exception:
        pass


class QuietDisk(DiskInterface):
    def save_transaction_for_debugging(self, transaction):
        pass

    def write_peers(self, peer):
        pass


class RealNode:
    _n = 0

    def __init__(self, coinstate, blocks_on_disk, disk_interface=None):
        RealNode._n += 1
        install_clock()
        path = os.path.join(os.getcwd(), "store%d.db" % RealNode._n)
        self.store = blockstore.BlockStore(path)
        blockstore.DefaultBlockStore.instance = self.store
        todo = [b for b in blocks_on_disk if b.height > 0]
        if todo:
            self.store.write_blocks_to_disk(todo)
        self.lp = LocalPeer(disk_interface=disk_interface or QuietDisk())
        self.lp.chain_manager.set_coinstate(coinstate)
        self.peers = []
        self.sockets = []

    def close(self):
        for p in self.peers:
            try:
                p.sock.close()
            except Exception:
                pass
        for s in self.sockets:
            try:
                s.close()
            except Exception:
                pass
        try:
            self.lp.selector.close()
        except Exception:
            pass
        try:
            self.store.close()
            os.remove(self.store.path)
        except Exception:
            pass

    def add_peer(self, active=True, outgoing=False, host=None, port=None):
        a, b = socket.socketpair()
        a.setblocking(False)
        b.setblocking(False)
        i = len(self.peers)
        peer = ConnectedRemotePeer(self.lp, host or ("10.0.0.%d" % (i + 1)), port or (2412 if outgoing else 40000 + i),
                                   OUTGOING if outgoing else INCOMING, None, a, 0)
        self.lp.selector.register(a, selectors.EVENT_READ, data=peer)
        self.lp.network_manager.handle_peer_connected(peer)
        peer.hello_sent = active
        peer.hello_received = active
        self.peers.append(peer)
        self.sockets.append(b)
        return i

    # ---- observables
    @property
    def cm(self):
        return self.lp.chain_manager

    def frames(self, peer):
        out = []
        for raw in ([peer.send_buffer] if peer.send_buffer else []) + list(peer.send_backlog):
            if raw[:4] != MAGIC:
                out.append("PARTIAL")
                continue
            f = io.BytesIO(raw[8:])
            h = MessageHeader.stream_deserialize(f)
            m = Message.stream_deserialize(f)
            out.append((h, m))
        return out

    def outbox_kinds(self, peer):
        ks = []
        for it in self.frames(peer):
            if it == "PARTIAL":
                ks.append("PARTIAL")
                continue
            h, m = it
            if isinstance(m, DataMessage) and m.data_type == DATA_BLOCK:
                ks.append("B:%s:%d" % (m.data.hash()[:8].hex(), 0 if h.in_response_to == 0 else 1))
            elif isinstance(m, DataMessage) and m.data_type == DATA_TRANSACTION:
                ks.append("T:%s" % m.data.hash()[:8].hex())
            elif isinstance(m, InventoryMessage):
                ks.append("INV:%d" % len(m.items))
            elif isinstance(m, GetDataMessage):
                ks.append("GD:%s" % m.hash[:8].hex())
            elif isinstance(m, GetBlocksMessage):
                ks.append("GB:%d" % len(m.potential_start_hashes))
            elif isinstance(m, HelloMessage):
                ks.append("HELLO")
            elif isinstance(m, GetPeersMessage):
                ks.append("GP")
            elif isinstance(m, PeersMessage):
                ks.append("PEERS")
            else:
                ks.append(type(m).__name__)
        return ks

    def disk_ids(self):
        return sorted(r[0] for r in self.store.sql("select block_hash from chain"))

    def digest(self):
        cm = self.cm
        pool = ",".join(t.hash()[:8].hex() for t in cm.transaction_pool)
        wbuf = ",".join(b.hash()[:8].hex() for b in self.store.write_buffer)
        disk = ",".join(i[:8].hex() for i in self.disk_ids())
        lv = cm.last_known_valid_coinstate
        lvs = lv.current_chain_hash[:8].hex() if lv is not None and lv.current_chain_hash else "none"
        connected = self.lp.network_manager.connected_peers
        peers = []
        for p in self.peers:
            is_open = any(q is p for q in connected.values())
            peers.append("%d%d[%s]" % (1 if is_open else 0, 1 if p.hello_received else 0, ",".join(self.outbox_kinds(p))))
        return "%s lv=%s pool=%s wbuf=%s disk=%s peers=%s" % (
            chain.state_digest(cm.coinstate, full=False), lvs, pool, wbuf, disk, ";".join(peers))

    def store_ok(self):
        """the store can still be written and read (no transaction left open, no broken row)"""
        try:
            self.store.flush_blocks_to_disk()
            list(self.store.read_blocks_from_disk())
            return True
        except Exception as e:
            return repr(e)

    # ---- stimuli
    # the timestamp in a message header is the *sender's* clock: an input like any other (skewed, far off, zero)
    SENDER_SKEWS = [0, 3600, -3600, 31, 86400 * 400, 0, -31, None]

    def header(self, in_response_to=0, msg_id=7):
        self._headers = getattr(self, "_headers", 0) + 1
        skew = self.SENDER_SKEWS[self._headers % len(self.SENDER_SKEWS)]
        ts = 0 if skew is None else min(max(CLOCK[0] + skew, 0), 2 ** 32 - 1)
        return MessageHeader(ts, msg_id, in_response_to, 12345)

    def deliver_block(self, c, block, in_response_to=0):
        """direct call of the handler (the catch-all is exercised by deliver_bytes)"""
        try:
            self.peers[c].handle_block_received(self.header(in_response_to), DataMessage(DATA_BLOCK, block))
            return "ret"
        except Exception as e:
            self.last_exception = e
            return "exc"

    def deliver_tx(self, c, tx):
        try:
            self.peers[c].handle_transaction_received(self.header(0), DataMessage(DATA_TRANSACTION, tx))
            return "ret"
        except Exception as e:
            self.last_exception = e
            return "exc"

    def deliver_bytes(self, c, data):
        """through the socket and LocalPeer.handle_remote_peer_selector_event (≤ 1024 bytes per read)"""
        peer = self.peers[c]
        other = self.sockets[c]
        pos = 0
        while pos < len(data):
            try:
                n = other.send(data[pos:pos + 1024])
            except OSError:
                return "closed"
            pos += n
            try:
                key = self.lp.selector.get_key(peer.sock)
            except (KeyError, ValueError):
                return "closed"
            self.lp.handle_remote_peer_selector_event(key, selectors.EVENT_READ)
        return "ok"


def frame(header, message):
    data = header.serialize() + message.serialize()
    return MAGIC + struct.pack(b">I", len(data)) + data


# ---------------------------------------------------------------- the write path (what is queued must reach the wire)

class ShortSock:
    """a connected socket whose send() accepts at most `limit` bytes per call (a slow peer, a small or nearly full send
    buffer): a legal behaviour of every non-blocking socket"""

    def __init__(self, sock, limit):
        self._s = sock
        self.limit = limit

    def fileno(self):
        return self._s.fileno()

    def send(self, data, *a):
        return self._s.send(bytes(data)[:self.limit] if self.limit else data, *a)

    def __getattr__(self, name):
        return getattr(self._s, name)


def write_path_probe(res, rng, messages, tag, limits=(97, 4096, 0)):
    """`messages` (Message objects, some of them large) are queued for one greeted peer through the node's own
    `send_message`, in bursts, while the event loop's write events run with the socket accepting only a few bytes per write.
    Everything queued must reach the other end complete, once and in order — whatever the socket accepts per write and
    whatever is still queued when the next message arrives — and the connection must not end up holding unsent bytes without
    waiting for the socket to become writable (monitors only)"""
    install_clock()
    for limit in limits:
        lp = LocalPeer(disk_interface=QuietDisk())
        a, b = socket.socketpair()
        a.setblocking(False)
        b.setblocking(False)
        ss = ShortSock(a, limit)
        peer = ConnectedRemotePeer(lp, "10.9.9.9", 40009, INCOMING, None, ss, 0)
        lp.selector.register(ss, selectors.EVENT_READ, data=peer)
        lp.network_manager.handle_peer_connected(peer)
        peer.hello_sent = peer.hello_received = True
        got = bytearray()
        errors = []

        def pump(max_events):
            for _ in range(max_events):
                try:
                    key = lp.selector.get_key(ss)
                except (KeyError, ValueError):
                    errors.append("the connection was dropped")
                    return
                if not (key.events & selectors.EVENT_WRITE):
                    return
                try:
                    lp.handle_remote_peer_selector_event(key, selectors.EVENT_WRITE)
                except BaseException as e:
                    errors.append("write event raised %r" % e)
                    return
                while True:
                    try:
                        chunk = b.recv(1 << 16)
                    except (BlockingIOError, OSError):
                        break
                    if not chunk:
                        break
                    got.extend(chunk)

        todo = list(messages)
        sent = []
        step = 0
        while todo:
            burst = [todo.pop(0) for _ in range(min(len(todo), 1 + (step % 3)))]
            for m in burst:
                try:
                    peer.send_message(m)
                    sent.append(m.serialize())
                except BaseException as e:
                    errors.append("send_message raised %r" % e)
            pump(1 if step % 2 == 0 else 3)            # the next burst arrives while part of this one is still unsent
            step += 1
        pump(200000)
        frames, pos, raw = [], 0, bytes(got)
        while len(raw) - pos >= 8 and raw[pos:pos + 4] == MAGIC:
            (ln,) = struct.unpack(b">I", raw[pos + 4:pos + 8])
            if len(raw) - pos - 8 < ln:
                break
            body = raw[pos + 8:pos + 8 + ln]
            frames.append(body[53:])                   # (the 53-byte message header carries ids and the sender's clock)
            pos += 8 + ln
        res.case(("write-path", tag, limit, len(messages)), nontrivial=True)
        res.count("write_path_probe:limit_%d" % limit)
        unsent = len(peer.send_buffer) + sum(len(x) for x in peer.send_backlog)
        try:
            waiting = bool(lp.selector.get_key(ss).events & selectors.EVENT_WRITE)
        except (KeyError, ValueError):
            waiting = False
        if errors or frames != sent or pos != len(raw) or unsent:
            what = errors[0] if errors else (
                "%d byte(s) are still queued and the node is %swaiting for the socket to become writable" % (
                    unsent, "" if waiting else "NOT ") if unsent else
                "the peer received %d complete message(s) (%d stray byte(s) behind them), %d were queued; first difference at message %d"
                % (len(frames), len(raw) - pos, len(sent),
                   next((i for i, (x, y) in enumerate(zip(frames, sent)) if x != y), min(len(frames), len(sent)))))
            res.violations.append({"kind": "messages queued for a greeted peer (%s) do not reach it complete, once and in order when "
                                           "its socket accepts at most %s bytes per write: %s"
                                           % (tag, limit or "all", what),
                                   "queued_sizes": [len(x) for x in sent]})
        for s_ in (a, b):
            try:
                s_.close()
            except Exception:
                pass
        try:
            lp.selector.close()
        except Exception:
            pass


def probe_messages(tree, keys, rng):
    """what a node queues for a peer in ordinary operation: small replies and relays, and a block that carries a spend with
    several hundred outputs (tens of kilobytes)"""
    from skepticoin.networking.messages import InventoryItem
    head = tree.cs.current_chain_hash
    big = None
    sp = [(r, o) for r, o in tree.spendable(head) if o.value > 1000]
    if sp:
        r, o = sp[0]
        n_out = rng.randrange(250, 400)
        tx = chain.make_tx(keys, tree.utxo(head), [r], [(1, k_ % len(keys.pks)) for k_ in range(n_out)] + [(o.value - n_out, 0)])
        big = tree.extend(head, txs=[tx])
    small = tree.blocks[-1] if big is None else tree.blocks[-2]
    msgs = [GetPeersMessage(),
            InventoryMessage([InventoryItem(DATA_BLOCK, b.hash()) for b in tree.blocks[:5]]),
            DataMessage(DATA_BLOCK, big or small),
            DataMessage(DATA_BLOCK, small),
            GetPeersMessage(),
            DataMessage(DATA_BLOCK, big or small),
            InventoryMessage([])]
    if big is not None:
        msgs.append(DataMessage(DATA_TRANSACTION, big.transactions[1]))
    return msgs

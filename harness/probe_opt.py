"""probe_opt — a few scenarios run in a child interpreter started with -O (assert statements compiled out): a node may be started
that way, and nothing the properties say depends on it. Prints one JSON list of findings."""
import json
import os
import random
import sys


def codec():
    from . import kit
    kit.setup_env()
    from .kit import sha256d
    from skepticoin.datatypes import Block, Transaction, Input, Output, OutputReference
    from skepticoin.genesis import genesis_block_data
    from skepticoin.signing import CoinbaseData, SECP256k1PublicKey
    bad = []
    raws = [("genesis", genesis_block_data)]
    d = os.path.join(kit.REPO, "tests", "testdata", "chain")
    if os.path.isdir(d):
        for fn in sorted(os.listdir(d))[:3]:
            raws.append((fn, open(os.path.join(d, fn), "rb").read()))
    for name, raw in raws:
        try:
            b = Block.deserialize(raw)
            if b.serialize() != raw:
                bad.append("%s: a decoded block does not re-encode to the bytes it was read from" % name)
            for t in b.transactions:
                if t.hash() != sha256d(t.serialize()):
                    bad.append("%s: a transaction's id is not the hash of its encoding" % name)
                    break
        except Exception as e:
            bad.append("%s: %r" % (name, e))
    rng = random.Random(7)
    for n_data in (0, 1, 17, 200):
        cb = Transaction([Input(OutputReference(b"\x00" * 32, 0), CoinbaseData(5, bytes(rng.getrandbits(8) for _ in range(n_data))))],
                         [Output(10, SECP256k1PublicKey(bytes(rng.getrandbits(8) for _ in range(64))))])
        try:
            enc = cb.serialize()
            back = Transaction.deserialize(enc)
            if back.serialize() != enc or back != cb:
                bad.append("a reward transaction with %d bytes of data does not survive encode / decode" % n_data)
            if len(enc) != 1 + 1 + 32 + 4 + 1 + 4 + 1 + n_data + 1 + 8 + 1 + 64:
                bad.append("a reward transaction with %d bytes of data is encoded in %d bytes" % (n_data, len(enc)))
        except Exception as e:
            bad.append("a reward transaction with %d bytes of data: %r" % (n_data, e))
    return bad


def ledger():
    from . import kit
    kit.setup_env()
    from . import chain, ledger as L
    rng = random.Random(11)
    chain.patch(horizon=-1)
    keys = chain.Keys(rng, 4)
    tree = chain.Tree(rng, keys, genesis=chain.custom_genesis(keys, target=b"\xff" * 32))
    for _ in range(8):
        tree.extend(n_tx=1)
    cr = L.Crafter(tree)
    bad = []
    head = tree.cs.current_chain_hash
    for klass, want in (("valid", True), ("spent_on_branch", False), ("dup_ref_across_txs", False), ("missing_output", False),
                        ("wrong_key_sig", False), ("reward_plus1", False), ("intra_block_spend", False)):
        for parent in (head, tree.blocks[-3].hash()):
            try:
                c = L.make_candidate(cr, klass, parent, [])
            except Exception:
                c = None
            if c is None:
                continue
            blk, now = c
            try:
                tree.cs.add_block(blk, now)
                got = True
            except Exception:
                got = False
            if got != want:
                bad.append("a block of class '%s' was %s by full validation" % (klass, "accepted" if got else "refused"))
    return bad


if __name__ == "__main__":
    out = {"optimised": not __debug__}
    try:
        out["findings"] = {"codec": codec, "ledger": ledger}[sys.argv[1]]()
    except Exception as e:
        out["error"] = repr(e)
    sys.stdout.write("\nPROBE " + json.dumps(out) + "\n")

"""C16 — monetary schedule: the code's get_block_subsidy against the model on every height at
which the subsidy is non-zero (and beyond), the documented numbers, the validator's limit."""
import re

from . import kit

from skepticoin import params as P
from skepticoin.consensus import get_block_subsidy, validate_sashimi_range


def documented():
    """the numbers written in docs/params.md"""
    import os
    txt = open(os.path.join(kit.REPO, "docs", "params.md")).read()
    out = {}
    m = re.search(r"\*\s*([\d,]+)\s*coin subsidy", txt)
    if m:
        out["subsidy_coin"] = int(m.group(1).replace(",", ""))
    m = re.search(r"\*\s*([\d,]+)\s*block halving interval", txt)
    if m:
        out["halving"] = int(m.group(1).replace(",", ""))
    m = re.search(r"\*\s*([\d,]+)\.(\d+)\s*maximum total amount", txt)
    if m:
        out["max_sashimi"] = int(m.group(1).replace(",", "")) * 10 ** len(m.group(2)) + int(m.group(2))
        out["max_decimals"] = len(m.group(2))
    return out


def spec(h):
    """the property's statement: 10 coin halved by integer division every 1,050,000 blocks"""
    e = h // 1_050_000
    return 0 if e >= 64 else (10 * 100_000_000) // (2 ** e)      # 10^9 < 2^30: zero from era 30 on


def in_range(v):
    try:
        validate_sashimi_range(v)
        return True
    except Exception:
        return False


def amount_limit_of_transactions(ctx, res):
    """the maximum supply as the limit the validator places on what an ordinary transaction hands out: every output in
    (0, MAX_SASHIMI] and their total in (0, MAX_SASHIMI], wherever in the list the large output stands"""
    from skepticoin import consensus
    from skepticoin.datatypes import Transaction, Input, Output, OutputReference
    from skepticoin.signing import SECP256k1PublicKey, SECP256k1Signature
    rng = ctx.rng
    M = 2_099_999_986_350_000
    lists = [[M], [M, 1], [1, M], [M - 1, 1], [1, M - 1], [M // 2 + 1, M // 2 + 1], [M // 2, M // 2], [M + 1], [M, M],
             [M // 3 + 1] * 3, [M // 3] * 3, [1, 1, M - 2], [1, 1, M - 1], [5, 0], [0], [M - 5, 2, 3], [M - 5, 3, 3], [2 ** 63, 1]]
    for _ in range(40):
        n = rng.randrange(1, 5)
        lists.append([rng.choice([1, 7, M // n, M // n + 1, M - n, M]) for _ in range(n)])
    for values in lists:
        pk = SECP256k1PublicKey(bytes(rng.getrandbits(8) for _ in range(64)))
        t = Transaction([Input(OutputReference(bytes(rng.getrandbits(8) for _ in range(32)), 0),
                               SECP256k1Signature(bytes(rng.getrandbits(8) for _ in range(64))))],
                        [Output(v, pk) for v in values])
        try:
            consensus.validate_non_coinbase_transaction_by_itself(t)
            ok = True
        except Exception:
            ok = False
        want = all(0 < v <= M for v in values) and 0 < sum(values) <= M
        res.case(("txlimit", tuple(values)))
        res.count("transaction_amount_limit:" + ("within" if want else "beyond"))
        if ok != want:
            res.violations.append({"kind": "a transaction handing out %s (total %d) is %s by the validator; the limit on any amount "
                                           "and on the total is 2,099,999,986,350,000" % (values, sum(values),
                                                                                           "accepted" if ok else "refused"),
                                   "outputs": values})


def validator_probes(ctx, res, ops, impl):
    """appends driver operations / implementation outputs and records violations"""
    rng = ctx.rng
    # (V) the schedule as the validator enforces it: the real validate_coinbase_transaction_in_coinstate on a fee-less
    # block at height h on top of a stored parent of height h-1, claiming exactly the scheduled amount (must pass), one
    # sashimi more (must fail) and the previous era's amount (must fail at the first block of an era)
    from skepticoin import consensus
    from skepticoin.coinstate import CoinState
    from skepticoin.datatypes import (Block, BlockHeader, BlockSummary, PowEvidence, Transaction, Input, Output,
                                      OutputReference)
    from skepticoin.signing import SECP256k1PublicKey, CoinbaseData
    from .kit import hx
    miner = SECP256k1PublicKey(bytes(rng.getrandbits(8) for _ in range(64)))

    def mk(height, prev, value):
        values = value if isinstance(value, (list, tuple)) else [value]
        from . import chain as _chain
        # (as decoded from the wire: any 64-bit pattern can stand in an amount field)
        cb = _chain.wire_transaction([Input(OutputReference(b"\x00" * 32, 0), CoinbaseData(height, b"c16"))],
                                     [(v_, miner) for v_ in values])
        sm = BlockSummary(height, prev, consensus.calc_merkle_root_hash([cb]), 1_700_000_000 + height % 1000,
                          b"\xff" * 32, 0)
        return Block(BlockHeader(sm, PowEvidence(b"\x00" * 32, b"\x00" * 32, b"\x00" * 32)), [cb])

    vh = {1, 2, 3, 2 ** 32 - 1}
    for k in range(1, ctx.scale(70, 4090)):
        for dlt in (-1, 0, 1):
            if 1 <= k * 1_050_000 + dlt < 2 ** 32:
                vh.add(k * 1_050_000 + dlt)
    vh |= {rng.randrange(1, 2 ** 32) for _ in range(ctx.scale(50, 400))}
    v_reported = 0
    for h in sorted(vh):
        parent = mk(h - 1, b"\x00" * 32, 1)
        st = CoinState.empty().add_block_no_validation(parent)
        ops.append("new v")
        impl.append("ok")
        ops.append("addnv v v " + hx(parent.serialize()))
        impl.append("ok")
        claims = {spec(h): True, spec(h) + 1: False}
        if spec(h - 1) > spec(h):
            claims[spec(h - 1)] = False
        if spec(h) >= 2:
            # the limit is on what the block creates, however the reward is split over outputs
            claims[(spec(h) - 1, 1)] = True
            claims[(spec(h), spec(h))] = False
            claims[(spec(h) // 2 + 1, spec(h) // 2 + 1, 1)] = False
        # amounts that add up to the allowed amount modulo 2^64, or when the top bit is taken for a sign
        claims[(spec(h) + 2 ** 62, 2 ** 64 - 2 ** 62)] = False
        claims[(spec(h) + 1, 2 ** 64 - 1)] = False
        claims[(2 ** 63, 2 ** 63 + spec(h))] = False
        for value, allowed in claims.items():
            if not isinstance(value, tuple) and value <= 0:
                continue                      # a zero-valued output is refused elsewhere (range check), not here
            blk = mk(h, parent.hash(), value)
            other = False
            try:
                consensus.validate_coinbase_transaction_in_coinstate(blk.transactions[0], blk, st)
                got = True
            except consensus.ValidationError:
                got = False
            except Exception:
                got, other = False, True           # not a validation error: compared with the model as such
            ops.append("cbchk v " + hx(blk.serialize()))
            impl.append("ok" if got else ("rej other" if other else "rej validation"))
            res.case(("validator", h, value), nontrivial=True)
            res.count("validator_probe:" + ("allowed" if allowed else "excess"))
            if got != allowed and v_reported < 5:
                v_reported += 1
                res.violations.append({"kind": "the validator %s a fee-less coinbase of %s sashimi at height %d; the schedule "
                                               "allows %d there" % ("accepts" if got else "rejects", value, h, spec(h)),
                                       "height": h, "claimed": value, "block": blk.serialize().hex(),
                                       "parent": parent.serialize().hex()})
        # the height that selects the subsidy is the block's position on its chain: on a chain of two stored blocks (heights
        # h-2, h-1) a block that claims the parent's height again, or skips one, is refused whatever it pays
        if h >= 2 and (h % 3 == 0 or spec(h - 1) > spec(h)):
            grand = mk(h - 2, b"\x00" * 32, 1)
            par2 = mk(h - 1, grand.hash(), 1)
            st2 = CoinState.empty().add_block_no_validation(grand).add_block_no_validation(par2)
            ops.extend(["new v2", "addnv v2 v2 " + hx(grand.serialize()), "addnv v2 v2 " + hx(par2.serialize())])
            impl.extend(["ok", "ok", "ok"])
            for claimed in (h - 1, h + 1, h):
                blk = mk(claimed, par2.hash(), spec(claimed)) if spec(claimed) > 0 else None
                if blk is None:
                    continue
                try:
                    consensus.validate_coinbase_transaction_in_coinstate(blk.transactions[0], blk, st2)
                    got = True
                except Exception:
                    got = False
                ops.append("cbchk v2 " + hx(blk.serialize()))
                impl.append("ok" if got else "rej validation")
                res.case(("validator-height", h, claimed), nontrivial=True)
                res.count("validator_probe:height_" + ("right" if claimed == h else "wrong"))
                if got != (claimed == h) and v_reported < 8:
                    v_reported += 1
                    res.violations.append({"kind": "the validator %s a block claiming height %d (and that height's subsidy) on a parent "
                                                   "of height %d" % ("accepts" if got else "rejects", claimed, h - 1),
                                           "block": blk.serialize().hex(), "parent": par2.serialize().hex(),
                                           "grandparent": grand.serialize().hex()})


def run(ctx):
    res = kit.Result()
    rng = ctx.rng
    EXHAUST = 31_500_006
    # (M) monitor on the implementation: every height, the formula, monotonicity, the total
    total, prev, first_zero = 0, None, None
    step_report = None
    for h in range(EXHAUST):
        s = get_block_subsidy(h)
        if s != spec(h) and step_report is None:
            step_report = h
            res.violations.append({"kind": "subsidy differs from 10 coin >> (h // 1,050,000)", "height": h,
                                   "got": s, "expected": spec(h)})
        if prev is not None and s > prev and len(res.violations) < 3:
            res.violations.append({"kind": "subsidy increases with height", "height": h, "got": s, "previous": prev})
        if s == 0 and first_zero is None:
            first_zero = h
        total += s
        prev = s
    res.evaluations += EXHAUST
    res.count("heights_exhaustive", EXHAUST)
    if total != 2_099_999_986_350_000:
        res.violations.append({"kind": "total supply differs from 2,099,999,986,350,000", "got": total})
    if total != P.MAX_SASHIMI:
        res.violations.append({"kind": "MAX_SASHIMI is not the total of the schedule", "sum": total,
                               "MAX_SASHIMI": P.MAX_SASHIMI})
    if first_zero != 31_500_000:
        res.violations.append({"kind": "subsidy does not reach zero at 31,500,000", "first_zero": first_zero})
    doc = documented()
    if doc.get("subsidy_coin") is not None and get_block_subsidy(0) != doc["subsidy_coin"] * P.SASHIMI_PER_COIN:
        res.violations.append({"kind": "initial subsidy differs from docs/params.md", "doc": doc})
    if doc.get("halving") is not None and doc["halving"] != P.SUBSIDY_HALVING_INTERVAL:
        res.violations.append({"kind": "halving interval differs from docs/params.md", "doc": doc})
    if doc.get("max_sashimi") is not None and doc.get("max_decimals") == 8 and doc["max_sashimi"] != P.MAX_SASHIMI:
        res.violations.append({"kind": "MAX_SASHIMI differs from docs/params.md", "doc": doc})
    res.notes.append("docs/params.md parsed: %s" % doc)
    # the validator's limit
    for v in [0, 1, 2, P.MAX_SASHIMI - 1, P.MAX_SASHIMI, P.MAX_SASHIMI + 1, 2 ** 64 - 1, 2_099_999_986_350_000,
              2_099_999_986_350_001] + [rng.randrange(0, 2 ** 52) for _ in range(200)]:
        exp = 0 < v <= 2_099_999_986_350_000
        if in_range(v) != exp:
            res.violations.append({"kind": "validator's amount limit is not (0, 2,099,999,986,350,000]", "value": v,
                                   "accepted": in_range(v)})
        res.case(("range", v))
    # (T) correspondence with the model: era boundaries ±2 up to 2^32, a stride, random heights
    hs = set()
    for k in range(0, 4100):
        for d in (-2, -1, 0, 1, 2):
            h = k * 1_050_000 + d
            if 0 <= h < 2 ** 32:
                hs.add(h)
    hs |= set(range(0, 31_500_006, 997 if not ctx.thorough else 97))
    hs |= {rng.randrange(0, 2 ** 32) for _ in range(5000)} | {rng.randrange(0, 2 ** 70) for _ in range(500)}
    hs = sorted(hs)
    ops = ["subsidy %d" % h for h in hs]
    vals = [get_block_subsidy(h) for h in hs]
    impl = [str(v) for v in vals]
    reported = 0
    for k, h in enumerate(hs):
        res.case(("h", h), nontrivial=True)
        # (M) the property on every height sent to the model as well (era boundaries up to 2^32 and beyond)
        if vals[k] != spec(h) and reported < 3:
            reported += 1
            res.violations.append({"kind": "subsidy differs from 10 coin >> (h // 1,050,000)", "height": h,
                                   "got": vals[k], "expected": spec(h)})
        if k > 0 and vals[k] > vals[k - 1] and reported < 6:
            reported += 1
            res.violations.append({"kind": "subsidy increases with height", "height": h, "got": vals[k],
                                   "lower_height": hs[k - 1], "there": vals[k - 1]})
    res.count("heights_vs_model", len(hs))
    validator_probes(ctx, res, ops, impl)
    amount_limit_of_transactions(ctx, res)
    model = ctx.driver.ask(ops)
    kit.compare(res, ops, impl, model)
    # the limit on what a block creates when fees are involved (rewards claiming fees of other blocks, of other states, of no
    # transaction at all): candidate blocks on random trees through full validation, the C02 monitors
    from . import ledger
    rule_ = res.rule
    ledger.run_ledger(ctx, "C16", res=res, n_trees=ctx.scale(2, 6), per_tree=ctx.scale(44, 200), with_tall=False)
    res.rule = rule_
    res.sample({"op": "subsidy 1050000", "impl": str(get_block_subsidy(1050000))})
    res.sample({"op": "subsidy 31499999", "impl": str(get_block_subsidy(31499999))})
    res.sample({"sum over heights 0..31500005": total})
    res.rule = ("the implementation's get_block_subsidy on every height 0..31,500,005 (formula, monotonicity, running "
                "total, first zero) — exhaustive over the heights with non-zero subsidy; against the compiled model on "
                "every era boundary ±2 below 2^32, a stride and random heights up to 2^70; docs/params.md parsed; the "
                "validator's limit on boundary and random amounts. Distinct non-trivial = distinct heights / amounts sent "
                "to both sides")
    res.exhaustive = True
    return res

"""C02 — correspondence and monitor: see harness/ledger.py"""
from . import kit, ledger


def run(ctx):
    res = ledger.run_ledger(ctx, "C02")
    kit.optimised_interpreter_probe(res, "ledger")
    from . import c09
    c09.side_branch_probe(ctx, res, ["reward_plus1", "reward_split_plus1", "overspend_by_1", "reward_no_fee_tx"], "C02")
    return res

"""C02 — correspondence and monitor: see harness/ledger.py"""
from . import kit, ledger


def run(ctx):
    res = ledger.run_ledger(ctx, "C02")
    kit.optimised_interpreter_probe(res, "ledger")
    return res

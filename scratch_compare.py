import hashlib, os, random, subprocess, time
random.seed(12345)
special = [0,1,55,56,63,64,65,111,112,119,120,127,128,129,191,192,193,255,256,257,383,384,385,511,512,513]
lengths = list(range(0, 301)) + special * 3
lengths += [random.randint(301, 5000) for _ in range(400)] + [4096, 4999, 5000]
while len(lengths) < 2200: lengths.append(random.randint(0, 300))
inputs = [os.urandom(n) if i % 7 else bytes([random.choice([0, 0xff, 0x80])]) * n for i, n in enumerate(lengths)]
ref = {"sha256": lambda b: hashlib.sha256(b).digest(),
       "sha256d": lambda b: hashlib.sha256(hashlib.sha256(b).digest()).digest(),
       "blake2b32": lambda b: hashlib.blake2b(b, digest_size=32).digest()}
lines, expect = [], []
for b in inputs:
    for cmd, f in ref.items():
        lines.append(f"{cmd} {b.hex() or '-'}"); expect.append(f(b).hex())
data = ("\n".join(lines) + "\n").encode()
t0 = time.perf_counter()
out = subprocess.run([".lake/build/bin/hashtest"], input=data, capture_output=True, check=True).stdout.decode().split("\n")[:-1]
dt = time.perf_counter() - t0
assert len(out) == len(expect), (len(out), len(expect))
bad = [(l[:60], o, e) for l, o, e in zip(lines, out, expect) if o != e]
tot = sum(len(b) for b in inputs)
print(f"inputs={len(inputs)} (lengths {min(lengths)}..{max(lengths)}, {len(set(lengths))} distinct), comparisons={len(expect)}, mismatches={len(bad)}")
print(f"binary wall time for whole batch: {dt*1000:.1f} ms; total input bytes {tot} x3 algos (sha256d = 2 hashes)")
for x in bad[:10]: print(x)
# pure hashing timing: 1 KB message many times
msg = os.urandom(1024).hex()
for cmd in ("sha256", "blake2b32"):
    d = (f"{cmd} {msg}\n" * 20000).encode()
    t0 = time.perf_counter(); subprocess.run([".lake/build/bin/hashtest"], input=d, capture_output=True, check=True); dt = time.perf_counter() - t0
    print(f"{cmd}: 20000 x 1KB in {dt*1000:.0f} ms => {dt/20000*1e6:.1f} us per message (incl. hex parse + I/O)")

import Props.GenTie.Params
import Props.GenTie.Subsidy
import Props.GenTie.Target
import Props.GenTie.Heights
import Props.C07
import Props.C11
import Props.C16
import Props.C16Code

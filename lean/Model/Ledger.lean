import Model.Types
import Model.Map

/-!
Model.Ledger — skepticoin/balances.py and coinstate.py.

Python exceptions are values: a function that can raise returns `Except Err _`; state built
before the raise is discarded exactly where the Python discards it (immutable maps).
-/

namespace Model

inductive Err where
  | validation (msg : String)   -- ValidateTransactionError / ValidateBlockError / ValidateBlockHeaderError / ValidatePOWError
  | range (msg : String)        -- plain ValidationError (raised by validate_sashimi_range): NOT a ValidateTransactionError
  | key (what : String)         -- KeyError / IndexError
  | decode                      -- any exception while deserializing
  | other (msg : String)
deriving Repr, DecidableEq

abbrev Utxo := Map OutRef Output

structure PKBalance where
  value : Int
  refs : List OutRef
deriving Repr, DecidableEq

abbrev PKBalances := Map Bytes PKBalance

/-- the outputs of a transaction enter the map under `(txid, i)` -/
def addOutputs (u : Utxo) (txid : Bytes) : List Output → Nat → Utxo
  | [], _ => u
  | o :: rest, i => addOutputs (u.set ⟨txid, i⟩ o) txid rest (i + 1)

/-- `del mutable_unspent_transaction_outs[input.output_reference]` for every input -/
def removeInputs (u : Utxo) : List Input → Except Err Utxo
  | [] => .ok u
  | i :: rest =>
    if u.contains i.ref then removeInputs (u.erase i.ref) rest else .error (.key "uto del")

/-- `uto_apply_transaction` -/
def utoApplyTx (C : Crypto) (u : Utxo) (t : CTx) (isCoinbase : Bool) : Except Err Utxo := do
  let u₁ ← if isCoinbase then pure u else removeInputs u t.tx.inputs
  pure (addOutputs u₁ (t.id C) t.tx.outputs 0)

def utoApplyTxs (C : Crypto) (u : Utxo) : List CTx → Except Err Utxo
  | [] => .ok u
  | t :: rest => do
    let u' ← utoApplyTx C u t false
    utoApplyTxs C u' rest

/-- `uto_apply_block` -/
def utoApplyBlock (C : Crypto) (u : Utxo) (b : Block) : Except Err Utxo :=
  match b.txs with
  | [] => .error (.key "transactions[0]")
  | cb :: rest => do
    let u' ← utoApplyTx C u cb true
    utoApplyTxs C u' rest

def pkbSpend (u : Utxo) (pkb : PKBalances) : List Input → Except Err PKBalances
  | [] => .ok pkb
  | i :: rest =>
    match u.get? i.ref with
    | none => .error (.key "pkb unspent")
    | some o =>
      match pkb.get? o.pk with
      | none => .error (.key "pkb balance")
      | some bal =>
        pkbSpend u (pkb.set o.pk ⟨bal.value - o.value, bal.refs.filter (fun r => r ≠ i.ref)⟩) rest

def pkbCredit (pkb : PKBalances) (txid : Bytes) : List Output → Nat → PKBalances
  | [], _ => pkb
  | o :: rest, i =>
    let bal := (pkb.get? o.pk).getD ⟨0, []⟩
    pkbCredit (pkb.set o.pk ⟨bal.value + o.value, bal.refs ++ [⟨txid, i⟩]⟩) txid rest (i + 1)

/-- `pkb_apply_transaction` -/
def pkbApplyTx (C : Crypto) (u : Utxo) (pkb : PKBalances) (t : CTx) (isCoinbase : Bool) :
    Except Err PKBalances := do
  let p₁ ← if isCoinbase then pure pkb else pkbSpend u pkb t.tx.inputs
  pure (pkbCredit p₁ (t.id C) t.tx.outputs 0)

def pkbApplyTxs (C : Crypto) (u : Utxo) (pkb : PKBalances) : List CTx → Except Err PKBalances
  | [] => .ok pkb
  | t :: rest => do
    let p ← pkbApplyTx C u pkb t false
    pkbApplyTxs C u p rest

/-- `pkb_apply_block`: `u` is the parent's unspent set, used for look-ups only -/
def pkbApplyBlock (C : Crypto) (u : Utxo) (pkb : PKBalances) (b : Block) : Except Err PKBalances :=
  match b.txs with
  | [] => .error (.key "transactions[0]")
  | cb :: rest => do
    let p ← pkbApplyTx C u pkb cb true
    pkbApplyTxs C u p rest

structure CoinState where
  blocks : Map Bytes Block                 -- block_by_hash
  utxoAt : Map Bytes Utxo                  -- unspent_transaction_outs_by_hash
  byHeightAt : Map Bytes (Map Nat Block)   -- block_by_height_by_hash
  heads : Map Bytes Block
  current : Option Bytes                   -- current_chain_hash
deriving Repr

def CoinState.empty : CoinState := ⟨[], [], [], [], none⟩

abbrev Block.prev (b : Block) : Bytes := b.header.summary.prev
abbrev Block.height (b : Block) : Nat := b.header.summary.height
abbrev Block.timestamp (b : Block) : Nat := b.header.summary.timestamp
abbrev Block.target (b : Block) : Bytes := b.header.summary.target

/-- `CoinState.add_block_no_validation`, statement by statement -/
def addBlockNoValidation (C : Crypto) (cs : CoinState) (b : Block) : Except Err CoinState := do
  let isGenesis := b.prev = zeros 32
  let u₀ ← if isGenesis then pure ([] : Utxo) else
    match cs.utxoAt.get? b.prev with
    | some u => pure u
    | none => throw (.key "utxo of parent")
  let u ← utoApplyBlock C u₀ b
  let id := b.id C
  let blocks := cs.blocks.set id b
  let utxoAt := cs.utxoAt.set id u
  let byHeightAt ← if isGenesis then pure ([(id, [(0, b)])] : Map Bytes (Map Nat Block)) else
    match cs.byHeightAt.get? b.prev with
    | some bh => pure (cs.byHeightAt.set id (bh.set b.height b))
    | none => throw (.key "by-height of parent")
  let heads := (if cs.heads.contains b.prev then cs.heads.erase b.prev else cs.heads).set id b
  let current ← match cs.current with
    | none => pure id
    | some c =>
      if c = b.prev then pure id
      else match cs.blocks.get? c with
        | none => throw (.key "current head")
        | some cb => pure (if b.height > cb.height then id else c)   -- get_total_work() = height
  pure ⟨blocks, utxoAt, byHeightAt, heads, some current⟩

/-- `PublicKeyBalances.chain_at_hash`: walk back to the block whose parent is all zeros -/
def chainAtHash (blocks : Map Bytes Block) : Nat → Bytes → Except Err (List Block)
  | 0, _ => .error (.other "chain longer than the number of stored blocks")
  | fuel + 1, h =>
    match blocks.get? h with
    | none => .error (.key "chain_at_hash")
    | some b =>
      if b.prev = zeros 32 then .ok [b]
      else do
        let rest ← chainAtHash blocks fuel b.prev
        pure (rest ++ [b])

/-- replay of a chain (oldest first): unspent set and balances -/
def replay (C : Crypto) : List Block → Utxo → PKBalances → Except Err (Utxo × PKBalances)
  | [], u, p => .ok (u, p)
  | b :: rest, u, p => do
    let p' ← pkbApplyBlock C u p b
    let u' ← utoApplyBlock C u b
    replay C rest u' p'

/-- `coinstate.public_key_balances_by_hash[h]` (the cache is pure memoisation) -/
def balancesAt (C : Crypto) (cs : CoinState) (h : Bytes) : Except Err PKBalances := do
  let chain ← chainAtHash cs.blocks cs.blocks.length h
  let (_, p) ← replay C chain [] []
  pure p

def CoinState.head (cs : CoinState) : Option Block := cs.current.bind cs.blocks.get?

end Model

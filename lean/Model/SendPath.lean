import Model.Basic

/-!
Model.SendPath — the write path of a connection (`ConnectedRemotePeer.send_message`, `handle_can_send`, `start_sending`,
`stop_sending`): one frame in flight (`send_buffer`), the frames queued behind it (`send_backlog`), whether the connection is
registered for write events with the selector, and — as the observable — the bytes the socket has accepted so far.

A non-blocking socket accepts any number of the bytes offered, possibly none; `acc i` is what the `i`-th `send` call of one
write event accepts.
-/

namespace Model

structure SendSt where
  buffer : Bytes          -- send_buffer
  backlog : List Bytes    -- send_backlog
  writing : Bool          -- registered for EVENT_WRITE
  wire : Bytes            -- everything the socket accepted, in order
deriving Repr

def SendSt.init : SendSt := ⟨[], [], false, []⟩

/-- `send_message` with the framed message `frame`: appended to the backlog; if nothing is in flight, the head of the backlog is
put in flight and writing is switched on -/
def SendSt.queue (s : SendSt) (frame : Bytes) : SendSt :=
  let s := { s with backlog := s.backlog ++ [frame] }
  if s.buffer.isEmpty then
    match s.backlog with
    | f :: rest => { s with buffer := f, backlog := rest, writing := true }
    | [] => s
  else s

/-- `handle_can_send`: send what is in flight; if all of it was accepted, either stop writing (nothing queued) or put the next
queued frame in flight and call itself again. `fuel` bounds the recursion (the backlog shrinks by one per call), `i` counts the
`send` calls of this event. -/
def canSendAux (acc : Nat → Nat) : Nat → Nat → SendSt → SendSt
  | 0, _, s => s
  | fuel + 1, i, s =>
    let sent := min (acc i) s.buffer.length
    let s := { s with wire := s.wire ++ s.buffer.take sent, buffer := s.buffer.drop sent }
    if s.buffer.isEmpty then
      match s.backlog with
      | [] => { s with writing := false }
      | f :: rest => canSendAux acc fuel (i + 1) { s with buffer := f, backlog := rest }
    else s

def SendSt.canSend (s : SendSt) (acc : Nat → Nat) : SendSt := canSendAux acc (s.backlog.length + 1) 0 s

/-- what happens on a connection's write side -/
inductive SendEv where
  | queue (frame : Bytes)
  | writable (acc : Nat → Nat)      -- the selector reports the socket writable (only if registered for it)

def SendSt.step (s : SendSt) : SendEv → SendSt
  | .queue f => s.queue f
  | .writable acc => if s.writing then s.canSend acc else s

def SendSt.run (s : SendSt) (evs : List SendEv) : SendSt := evs.foldl SendSt.step s

/-- the frames queued by a history, in order -/
def queuedBy : List SendEv → List Bytes
  | [] => []
  | .queue f :: rest => f :: queuedBy rest
  | .writable _ :: rest => queuedBy rest

end Model

import Model.Consensus

/-!
Model.Node — one node: `ChainManager` (served chain state, pending pool, last validated state),
the block store's write buffer and flushed rows, the connected peers with what was queued to
each, the message handlers of `ConnectedRemotePeer`, the catch-all of
`LocalPeer.handle_remote_peer_selector_event`, and the miner's two handlers (`MinerWatcher`).

Handlers return the node *as it is when the handler returns or raises* together with the
exception that escaped, if any: state changes made before a raise persist.
-/

namespace Model

/-! ### ChainManager -/

structure ChainMgr where
  coinstate : CoinState
  pool : List CTx
  lastValid : Option CoinState
deriving Repr

/-- unspent set at the active head -/
def headUtxo (cs : CoinState) : Option Utxo := cs.current.bind cs.utxoAt.get?

/-- `validate_non_coinbase_transaction_in_coinstate(tx, current_chain_hash, coinstate)` -/
def validateTxAtHead (C : Crypto) (cs : CoinState) (t : CTx) : Except Err Unit :=
  match headUtxo cs with
  | none => .error (.key "head")
  | some u => validateTxInState C u t

/-- `_cleanup_transaction_pool_for_coinstate`: keep what is still valid at the head, in order.
(Only `ValidateTransactionError` is caught by the Python; any other exception cannot arise for a
pooled transaction whose spent outputs are unchanged, and is treated as "evict" here.) -/
def cleanupPool (C : Crypto) (cs : CoinState) (pool : List CTx) : List CTx :=
  pool.filter fun t => match validateTxAtHead C cs t with | .ok _ => true | .error _ => false

/-- `ChainManager.set_coinstate` -/
def setCoinstate (C : Crypto) (m : ChainMgr) (cs : CoinState) (validated : Bool) : ChainMgr :=
  { coinstate := cs, pool := cleanupPool C cs m.pool,
    lastValid := if validated then some cs else m.lastValid }

/-- `ChainManager.add_transaction_to_pool`: `(manager, admitted)`, or the exception that is not
a `ValidateTransactionError` and therefore escapes -/
def addTxToPool (C : Crypto) (P : Params) (m : ChainMgr) (t : CTx) : Except Err (ChainMgr × Bool) :=
  let r : Except Err Unit := do
    validateTxByItself P t
    validateTxAtHead C m.coinstate t
    require (decide (allRefs (m.pool ++ [t])).Nodup) "Duplicate output_reference."
  match r with
  | .ok _ => .ok ({ m with pool := m.pool ++ [t] }, true)
  | .error (.validation _) => .ok (m, false)
  | .error e => .error e

/-! ### peers and the node -/

/-- what was queued to a peer by `send_message` (appended; never removed in the model) -/
inductive Out where
  | block (b : Block) (inResponseTo : Nat)
  | tx (t : CTx)
  | inventory (ids : List Bytes) (inResponseTo : Nat)
  | getData (id : Bytes)
  | getBlocks (locator : List Bytes)
  | hello
  | getPeers
  | peers
deriving Repr

structure PeerSt where
  open_ : Bool
  outgoing : Bool
  helloSent : Bool
  helloReceived : Bool
  outbox : List Out
  waitingForInventory : Bool
  /-- ids of inventory items not yet received (`inventory_messages`, flattened) -/
  pendingInventory : List Bytes
deriving Repr

def PeerSt.active (p : PeerSt) : Bool := p.open_ && p.helloSent && p.helloReceived

structure Node where
  mgr : ChainMgr
  wbuf : List Block          -- DefaultBlockStore.instance.write_buffer
  disk : List Block          -- rows flushed to the store (insert-or-ignore by id)
  peers : List PeerSt
  nonce : Nat
deriving Repr

def Node.updatePeer (n : Node) (c : Nat) (f : PeerSt → PeerSt) : Node :=
  { n with peers := n.peers.mapIdx fun i p => if i = c then f p else p }

def Node.send (n : Node) (c : Nat) (o : Out) : Node :=
  n.updatePeer c fun p => { p with outbox := p.outbox ++ [o] }

/-- `NetworkManager.broadcast_message`: to every peer with hello sent and received -/
def Node.broadcast (n : Node) (o : Out) : Node :=
  { n with peers := n.peers.map fun p => if p.active then { p with outbox := p.outbox ++ [o] } else p }

/-- `LocalPeer.disconnect` -/
def Node.disconnect (n : Node) (c : Nat) : Node :=
  n.updatePeer c fun p => { p with open_ := false }

/-- `flush_blocks_to_disk`: insert-or-ignore of the buffered blocks, buffer cleared -/
def Node.flush (C : Crypto) (n : Node) : Node :=
  { n with
    disk := n.wbuf.foldl (fun d b => if d.any (fun x => x.id C = b.id C) then d else d ++ [b]) n.disk,
    wbuf := [] }

/-- `Block.__eq__`: header fields except the height (which `BlockSummary.__eq__` omits),
evidence, and the transactions' inputs / outputs -/
def blockEq (a b : Block) : Bool :=
  a.header.summary.prev = b.header.summary.prev && a.header.summary.merkleRoot = b.header.summary.merkleRoot &&
  a.header.summary.timestamp = b.header.summary.timestamp && a.header.summary.target = b.header.summary.target &&
  a.header.summary.nonce = b.header.summary.nonce && a.header.evidence = b.header.evidence &&
  a.txs.map (·.tx) = b.txs.map (·.tx)

/-! ### handlers -/

abbrev HResult := Node × Option Err

/-- `handle_block_received` (after the `fix:` that buffers a block only once it has been applied) -/
def handleBlockReceived (C : Crypto) (P : Params) (n : Node) (c : Nat) (inResponseTo : Nat) (b : Block)
    (now : Int) : HResult :=
  let prior := n.mgr.coinstate
  let id := b.id C
  let n := n.updatePeer c fun p => { p with pendingInventory := p.pendingInventory.erase id }
  if prior.blocks.contains id then (n, none)
  else if !prior.blocks.contains b.prev then (n, none)
  else match validateBlockByItself C P b now with
    | .error _ => (n, none)
    | .ok _ =>
      match addBlockNoValidation C prior b with
      | .error e => (n, some e)                                   -- escapes: the peer is disconnected
      | .ok changed =>
        let n₁ := { n with wbuf := n.wbuf ++ [b] }
        let unsolicited := inResponseTo = 0
        let (n₂, rejected) : Node × Bool :=
          if unsolicited ∨ b.height % P.ibdValidationSkip = 0 then
            match validateBlockInState C P prior b with
            | .error _ =>
              let m := match n₁.mgr.lastValid with
                | some lv => setCoinstate C n₁.mgr lv true
                | none => n₁.mgr
              ({ n₁ with mgr := m, wbuf := [] }, true)
            | .ok _ => (Node.flush C { n₁ with mgr := setCoinstate C n₁.mgr changed true }, false)
          else ({ n₁ with mgr := setCoinstate C n₁.mgr changed false }, false)
        if rejected then (n₂, none)
        else
          match changed.head with
          | some hd => if blockEq b hd && unsolicited then (n₂.broadcast (.block b 0), none) else (n₂, none)
          | none => (n₂, some (.key "head"))

/-- `handle_transaction_received` -/
def handleTxReceived (C : Crypto) (P : Params) (n : Node) (t : CTx) : HResult :=
  -- `transaction in transaction_pool`: `Transaction.__eq__` (inputs and outputs)
  if n.mgr.pool.any (fun x => x.tx = t.tx) then (n, none)
  else match addTxToPool C P n.mgr t with
    | .error e => (n, some e)
    | .ok (m, true) => (({ n with mgr := m } : Node).broadcast (.tx t), none)
    | .ok (m, false) => ({ n with mgr := m }, none)

/-- the start height and the items of the reply of `handle_get_blocks_message_received` -/
def inventoryReply (C : Crypto) (P : Params) (cs : CoinState) (locator : List Bytes) : Except Err (List Bytes) :=
  match cs.current.bind cs.byHeightAt.get?, cs.head with
  | some index, some hd =>
    let rec scan : List Bytes → Option (Option Nat)   -- none: reply empty; some start
      | [] => some (some 1)
      | h :: rest =>
        match cs.blocks.get? h with
        | none => scan rest
        | some blk =>
          let start := blk.height + 1
          match index.get? start with
          | none => none
          | some nxt => if nxt.prev = h then some (some start) else scan rest
    match scan locator with
    | none => .ok []
    | some none => .ok []
    | some (some start) =>
      let stop := min (start + P.inventorySize) (hd.height + 1)
      (List.range' start (stop - start)).mapM fun h =>
        match index.get? h with
        | some blk => .ok (blk.id C)
        | none => .error (.key "by_height_at_head")
  | _, _ => .error (.key "head")

/-- `get_get_blocks_message`: ids at the locator heights on the active chain -/
def locator (C : Crypto) (cs : CoinState) : Except Err (List Bytes) :=
  match cs.current.bind cs.byHeightAt.get?, cs.head with
  | some index, some hd =>
    (recentHeights hd.height).mapM fun h =>
      match index.get? h with
      | some blk => .ok (blk.id C)
      | none => .error (.key "locator height")
  | _, _ => .error (.key "head")

/-- a decoded payload: Python objects built by the decoders (hashes cached from the raw bytes) -/
inductive InMsg where
  | hello (nonce : Nat) (myPort : Nat)
  | getBlocks (locator : List Bytes)
  | inventory (ids : List Bytes)
  | getData (dataType : Bytes) (id : Bytes)
  | dataBlock (b : Block)
  | dataTx (t : CTx)
  | dataHeader
  | getPeers
  | peers
deriving Repr

/-- `handle_message_received` and the handlers it dispatches to -/
def handleMessage (C : Crypto) (P : Params) (n : Node) (c : Nat) (msgId inResponseTo : Nat) (m : InMsg)
    (now : Int) : HResult :=
  match n.peers[c]? with
  | none => (n, some (.other "no such peer"))
  | some p =>
    match m with
    | .hello nonce _ =>
      let n₁ := n.updatePeer c fun p => { p with helloReceived := true }
      if p.outgoing && nonce = n.nonce then (n₁.disconnect c, none) else (n₁, none)
    | _ =>
      if !p.helloReceived then (n, some (.other "First message must be Hello"))
      else match m with
        | .hello _ _ => (n, none)
        | .getBlocks loc =>
          (match inventoryReply C P n.mgr.coinstate loc with
            | .ok ids => (n.send c (.inventory ids msgId), none)
            | .error e => (n, some e))
        | .inventory ids =>
          if ids.length > P.inventorySize then (n, some (.other "Inventory msg too big"))
          else if ids.isEmpty then (n.updatePeer c fun p => { p with waitingForInventory := false }, none)
          else
            let wanted := ids.filter fun i => !n.mgr.coinstate.blocks.contains i
            let n₁ := n.updatePeer c fun p => { p with pendingInventory := p.pendingInventory ++ ids }
            let n₂ := wanted.foldl (fun nn i => nn.send c (.getData i)) n₁
            (n₂.send c (.getBlocks [ids.getLast!]), none)
        | .getData ty id =>
          if ty ≠ [0, 0] then (n, some (.other "NotImplementedError"))
          else match n.mgr.coinstate.blocks.get? id with
            | none => (n, none)
            | some b => (n.send c (.block b msgId), none)
        | .dataBlock b => handleBlockReceived C P n c inResponseTo b now
        | .dataTx t => handleTxReceived C P n t
        | .dataHeader => (n, some (.other "NotImplementedError"))
        | .getPeers => (n.send c .peers, none)
        | .peers => (n.updatePeer c fun p => p, none)

/-- what arrives on a connection, after framing: a decodable message or garbage -/
inductive Incoming where
  | msg (msgId inResponseTo : Nat) (m : InMsg)
  | undecodable          -- `handle_message_data` raises while decoding
  | badFrame             -- wrong magic / over-limit length
  | closed               -- zero-length read: closed remotely

/-- `LocalPeer.handle_remote_peer_selector_event` with its catch-all: any exception disconnects
the peer it came from and nothing propagates -/
def handleEvent (C : Crypto) (P : Params) (n : Node) (c : Nat) (ev : Incoming) (now : Int) : Node :=
  match ev with
  | .closed => n.disconnect c
  | .undecodable => n.disconnect c
  | .badFrame => n.disconnect c
  | .msg i r m =>
    match handleMessage C P n c i r m now with
    | (n', none) => n'
    | (n', some _) => n'.disconnect c

/-! ### the miner (`MinerWatcher`) -/

/-- `handle_request_scrypt_input_message`: candidate from the served state and pool -/
def minerCandidate (C : Crypto) (P : Params) (m : ChainMgr) (minerPk : Bytes) (clock : Nat) (nonce : Nat) :
    Except Err (Summary × Nat × List CTx) :=
  match m.coinstate.head with
  | none => .error (.key "head")
  | some hd =>
    constructEvidenceInput C P m.coinstate m.pool minerPk (max clock (hd.timestamp + 1)) [] nonce

/-- `handle_scrypt_output_message` (after the `fix:`): evidence from the scrypt output, block
below target is validated and added first, then served, broadcast, buffered and flushed.
`cs` is the state the candidate was built on (`self.coinstate`). -/
def minerFound (C : Crypto) (P : Params) (n : Node) (cs : CoinState) (s : Summary) (height : Nat)
    (txs : List CTx) (summaryHash : Bytes) (now : Int) : HResult × Option Block :=
  match evidenceAfterScrypt C P cs summaryHash s height txs with
  | .error e => ((n, some e), none)
  | .ok ev =>
    let b := Block.fresh ⟨s, ev⟩ txs
    if !(bytesLt (b.id C) b.target) then ((n, none), none)       -- not a solution
    else match addBlock C P cs b now with
      | .error e => ((n, some e), some b)
      | .ok cs' =>
        let n₁ := { n with mgr := setCoinstate C n.mgr cs' true }
        let n₂ := n₁.broadcast (.block b 0)
        let n₃ := Node.flush C { n₂ with wbuf := n₂.wbuf ++ [b] }
        ((n₃, none), some b)

end Model

/-! ### the requester's follow-up loop against one server state (C10) -/

namespace C10Walk
open Model

variable (C : Crypto) (P : Params)

/-- the requester's loop: ask with `loc`; after a non-empty reply ask again with `[last id]`; stop at
an empty reply (or when `fuel` runs out); the ids of all replies in order -/
def walk (server : CoinState) : Nat → List Bytes → Except Err (List Bytes)
  | 0, _ => .ok []
  | fuel + 1, loc =>
    match inventoryReply C P server loc with
    | .error e => .error e
    | .ok ids =>
      match ids.getLast? with
      | none => .ok []
      | some last =>
        match walk server fuel [last] with
        | .error e => .error e
        | .ok rest => .ok (ids ++ rest)

end C10Walk

/-! ### one requester against one server state, round by round (C10) -/

namespace C10Converge
open Model

variable (C : Crypto) (P : Params)

/-- the server's answers to the data requests of one batch: the blocks it stores, in request order -/
def serveData (srv : CoinState) (ids : List Bytes) : List Block := ids.filterMap srv.blocks.get?

/-- deliveries of answered blocks (`in_response_to = 1 ≠ 0`) on connection `c`, in order -/
def deliver (n : Node) (c : Nat) (bs : List Block) (now : Int) : Node :=
  bs.foldl (fun n b => (handleBlockReceived C P n c 1 b now).1) n

/-- rounds of inventory → data requests → deliveries → follow-up against a fixed server state -/
def syncRun (srv : CoinState) (c : Nat) (now : Int) : Nat → Node → List Bytes → Node
  | 0, n, _ => n
  | fuel + 1, n, loc =>
    match inventoryReply C P srv loc with
    | .error _ => n
    | .ok [] => n
    | .ok (i :: rest) =>
      let wanted := (i :: rest).filter fun x => !n.mgr.coinstate.blocks.contains x
      syncRun srv c now fuel (deliver C P n c (serveData srv wanted) now) [(i :: rest).getLast!]

end C10Converge

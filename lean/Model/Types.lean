import Model.Codec

/-!
Model.Types — the consensus objects of skepticoin/datatypes.py and signing.py and the wire
messages of networking/messages.py, each with its codec.
-/

namespace Model

structure OutRef where
  hash : Bytes
  index : Nat
deriving DecidableEq, Repr, BEq

inductive Sig where
  | signable                               -- SignableEquivalent (type byte 00)
  | coinbase (height : Nat) (data : Bytes) -- CoinbaseData        (type byte 01)
  | secp (sig : Bytes)                     -- SECP256k1Signature  (type byte 02)
deriving DecidableEq, Repr

structure Input where
  ref : OutRef
  sig : Sig
deriving DecidableEq, Repr

/-- an output pays a SECP256k1 public key (64 bytes, type byte 02 on the wire) -/
structure Output where
  value : Nat
  pk : Bytes
deriving DecidableEq, Repr

structure Tx where
  inputs : List Input
  outputs : List Output
deriving DecidableEq, Repr

structure Evidence where
  summaryHash : Bytes
  chainSample : Bytes
  blockHash : Bytes
deriving DecidableEq, Repr

structure Summary where
  height : Nat
  prev : Bytes
  merkleRoot : Bytes
  timestamp : Nat
  target : Bytes
  nonce : Nat
deriving DecidableEq, Repr

structure Header where
  summary : Summary
  evidence : Evidence
deriving DecidableEq, Repr

/-- a Python `Transaction` object: content plus the hash cached by `stream_deserialize` /
handed to the constructor by the block store -/
structure CTx where
  tx : Tx
  cached : Option Bytes
deriving DecidableEq, Repr

/-- a Python `Block` object -/
structure Block where
  header : Header
  txs : List CTx
  cached : Option Bytes
deriving DecidableEq, Repr

/-- the content a block's encoding carries (no cached hashes) -/
structure BlockC where
  header : Header
  txs : List Tx
deriving DecidableEq, Repr

def Block.content (b : Block) : BlockC := ⟨b.header, b.txs.map (·.tx)⟩

open Codec

def OutRef.codec : Codec OutRef :=
  iso (fun p => ⟨p.1, p.2⟩) (fun r => (r.hash, r.index)) (seq (fixed 32) (be 4))

def OutRef.WF (r : OutRef) : Prop := r.hash.length = 32 ∧ r.index < 256 ^ 4

/-- `Signature.stream_deserialize`: dispatch on the type byte -/
def Sig.codec : Codec Sig where
  enc
    | .signable => [0]
    | .coinbase h d => [1] ++ (be 4).enc h ++ lenBytes1.enc d
    | .secp s => [2] ++ s
  dec bs := match bs with
    | [] => none
    | t :: r =>
      if t = 0 then some (.signable, r)
      else if t = 1 then
        match (seq (be 4) lenBytes1).dec r with
        | none => none
        | some ((h, d), r') => some (.coinbase h d, r')
      else if t = 2 then
        match (fixed 64).dec r with
        | none => none
        | some (s, r') => some (.secp s, r')
      else none

def Sig.WF : Sig → Prop
  | .signable => True
  | .coinbase h d => h < 256 ^ 4 ∧ d.length < 256
  | .secp s => s.length = 64

/-- `PublicKey.stream_deserialize`: only type 02 exists -/
def pkCodec : Codec Bytes :=
  iso (fun p => p.2) (fun k => ((), k)) (seq (const [2]) (fixed 64))

def Input.codec : Codec Input :=
  iso (fun p => ⟨p.1, p.2⟩) (fun i => (i.ref, i.sig)) (seq OutRef.codec Sig.codec)

def Input.WF (i : Input) : Prop := i.ref.WF ∧ i.sig.WF

def Output.codec : Codec Output :=
  iso (fun p => ⟨p.1, p.2⟩) (fun o => (o.value, o.pk)) (seq (be 8) pkCodec)

def Output.WF (o : Output) : Prop := o.value < 256 ^ 8 ∧ o.pk.length = 64

def Tx.codec : Codec Tx :=
  iso (fun p => ⟨p.2.1, p.2.2⟩) (fun t => ((), t.inputs, t.outputs))
    (seq (const [0]) (seq (list Input.codec) (list Output.codec)))

def Tx.WF (t : Tx) : Prop := (∀ i ∈ t.inputs, i.WF) ∧ (∀ o ∈ t.outputs, o.WF)

def Evidence.codec : Codec Evidence :=
  iso (fun p => ⟨p.1, p.2.1, p.2.2⟩) (fun e => (e.summaryHash, e.chainSample, e.blockHash))
    (seq (fixed 32) (seq (fixed 32) (fixed 32)))

def Evidence.WF (e : Evidence) : Prop :=
  e.summaryHash.length = 32 ∧ e.chainSample.length = 32 ∧ e.blockHash.length = 32

def Summary.codec : Codec Summary :=
  iso (fun p => ⟨p.1, p.2.1, p.2.2.1, p.2.2.2.1, p.2.2.2.2.1, p.2.2.2.2.2⟩)
    (fun s => (s.height, s.prev, s.merkleRoot, s.timestamp, s.target, s.nonce))
    (seq vlq (seq (fixed 32) (seq (fixed 32) (seq (be 4) (seq (fixed 32) (be 4))))))

def Summary.WF (s : Summary) : Prop :=
  s.prev.length = 32 ∧ s.merkleRoot.length = 32 ∧ s.timestamp < 256 ^ 4 ∧ s.target.length = 32
    ∧ s.nonce < 256 ^ 4

def Header.codec : Codec Header :=
  iso (fun p => ⟨p.2.1, p.2.2⟩) (fun h => ((), h.summary, h.evidence))
    (seq (const [0]) (seq Summary.codec Evidence.codec))

def Header.WF (h : Header) : Prop := h.summary.WF ∧ h.evidence.WF

def BlockC.codec : Codec BlockC :=
  iso (fun p => ⟨p.1, p.2⟩) (fun b => (b.header, b.txs)) (seq Header.codec (list Tx.codec))

def BlockC.WF (b : BlockC) : Prop := b.header.WF ∧ ∀ t ∈ b.txs, t.WF

/-! ### serialisation of Python objects (cached hashes are not part of the encoding) -/

def encTx (t : Tx) : Bytes := Tx.codec.enc t
def encSummary (s : Summary) : Bytes := Summary.codec.enc s
def encHeader (h : Header) : Bytes := Header.codec.enc h
def encBlock (b : Block) : Bytes := BlockC.codec.enc b.content
/-- `serialize_list(transactions)` -/
def encTxList (l : List CTx) : Bytes := (list Tx.codec).enc (l.map (·.tx))

/-- the bytes a decoder consumed: `f.seek(start); f.read(end - start)` -/
def consumed (bs rest : Bytes) : Bytes := bs.take (bs.length - rest.length)

/-- `Transaction.stream_deserialize`: the hash of the raw bytes is cached -/
def decTx (sha256d : Bytes → Bytes) (bs : Bytes) : Option (CTx × Bytes) :=
  match Tx.codec.dec bs with
  | none => none
  | some (t, r) => some (⟨t, some (sha256d (consumed bs r))⟩, r)

def decTxN (sha256d : Bytes → Bytes) : Nat → Bytes → Option (List CTx × Bytes)
  | 0, bs => some ([], bs)
  | n + 1, bs => match decTx sha256d bs with
    | none => none
    | some (a, r) => match decTxN sha256d n r with
      | none => none
      | some (as, r') => some (a :: as, r')

/-- `Block.stream_deserialize`: the hash of the raw header bytes is cached -/
def decBlock (sha256d : Bytes → Bytes) (bs : Bytes) : Option (Block × Bytes) :=
  match Header.codec.dec bs with
  | none => none
  | some (h, r) =>
    match decodeVlq r with
    | none => none
    | some (n, r₁) =>
      match decTxN sha256d n r₁ with
      | none => none
      | some (txs, r₂) => some (⟨h, txs, some (sha256d (consumed bs r))⟩, r₂)

/-- the cryptographic primitives, as parameters: theorems hold for every instance; the driver
instantiates them with SHA-256 / BLAKE2b written in Lean and oracle tables (DESIGN §2.3) -/
structure Crypto where
  sha256d : Bytes → Bytes
  blake2 : Bytes → Bytes
  scrypt : Bytes → Bytes → Bytes
  /-- `SECP256k1PublicKey.validate`: public key, message, signature -/
  verify : Bytes → Bytes → Bytes → Bool

/-- `Transaction.hash()`: `self.cached_hash or sha256d(self.serialize())` -/
def CTx.id (C : Crypto) (t : CTx) : Bytes :=
  match t.cached with
  | some c => c
  | none => C.sha256d (encTx t.tx)

/-- `Block.hash()`: `self.cached_hash or self.header.hash()` -/
def Block.id (C : Crypto) (b : Block) : Bytes :=
  match b.cached with
  | some c => c
  | none => C.sha256d (encHeader b.header)

/-- `Block.deserialize(bytes_)` -/
def Block.ofBytes (C : Crypto) (bs : Bytes) : Option Block := (decBlock C.sha256d bs).map (·.1)

/-- a block / transaction built in memory (`Block(header, transactions)`): nothing cached -/
def Block.fresh (h : Header) (txs : List CTx) : Block := ⟨h, txs, none⟩
def CTx.fresh (t : Tx) : CTx := ⟨t, none⟩

/-! ### wire messages (networking/messages.py) -/

structure MsgHeader where
  timestamp : Nat
  id : Nat
  inResponseTo : Nat
  context : Nat
deriving DecidableEq, Repr

/-- version byte ignored on read, 32 reserved bytes skipped -/
def MsgHeader.codec : Codec MsgHeader :=
  iso (fun p => ⟨p.2.1, p.2.2.1, p.2.2.2.1, p.2.2.2.2.1⟩)
    (fun h => ((), h.timestamp, h.id, h.inResponseTo, h.context, ()))
    (seq (skip [0]) (seq (be 4) (seq (be 4) (seq (be 4) (seq (be 8) (skip (zeros 32)))))))

def MsgHeader.WF (h : MsgHeader) : Prop :=
  h.timestamp < 256 ^ 4 ∧ h.id < 256 ^ 4 ∧ h.inResponseTo < 256 ^ 4 ∧ h.context < 256 ^ 8

structure Hello where
  yourIp : Bytes
  yourPort : Nat
  myIp : Bytes
  myPort : Nat
  nonce : Nat
  userAgent : Bytes
  versions : List Nat
deriving DecidableEq, Repr

def Hello.codec : Codec Hello :=
  iso (fun p => ⟨p.2.1, p.2.2.1, p.2.2.2.1, p.2.2.2.2.1, p.2.2.2.2.2.1, p.2.2.2.2.2.2.1, p.2.2.2.2.2.2.2.1⟩)
    (fun h => ((), h.yourIp, h.yourPort, h.myIp, h.myPort, h.nonce, h.userAgent, h.versions, ()))
    (seq (skip [0]) (seq (fixed 16) (seq (be 2) (seq (fixed 16) (seq (be 2) (seq (be 4)
      (seq lenBytes1 (seq (list (be 1)) (skip (zeros 256))))))))))

def Hello.WF (h : Hello) : Prop :=
  h.yourIp.length = 16 ∧ h.yourPort < 256 ^ 2 ∧ h.myIp.length = 16 ∧ h.myPort < 256 ^ 2 ∧
  h.nonce < 256 ^ 4 ∧ h.userAgent.length < 256 ∧ ∀ v ∈ h.versions, v < 256 ^ 1

structure InvItem where
  dataType : Bytes
  hash : Bytes
deriving DecidableEq, Repr

def InvItem.codec : Codec InvItem :=
  iso (fun p => ⟨p.1, p.2⟩) (fun i => (i.dataType, i.hash)) (seq (fixed 2) (fixed 32))

def InvItem.WF (i : InvItem) : Prop := i.dataType.length = 2 ∧ i.hash.length = 32

structure PeerAddr where
  lastSeen : Nat
  ip : Bytes
  port : Nat
deriving DecidableEq, Repr

def PeerAddr.codec : Codec PeerAddr :=
  iso (fun p => ⟨p.1, p.2.1, p.2.2⟩) (fun a => (a.lastSeen, a.ip, a.port))
    (seq (be 4) (seq (fixed 16) (be 2)))

def PeerAddr.WF (a : PeerAddr) : Prop := a.lastSeen < 256 ^ 4 ∧ a.ip.length = 16 ∧ a.port < 256 ^ 2

/-- the payload of a `DataMessage`, by data type -/
inductive DataItem where
  | block (b : BlockC)    -- 00 00
  | header (h : Header)   -- 00 01
  | tx (t : Tx)           -- 00 02
deriving DecidableEq, Repr

inductive Msg where
  | hello (h : Hello)
  | getBlocks (starts : List Bytes) (stop : Bytes)
  | inventory (items : List InvItem)
  | getData (dataType : Bytes) (hash : Bytes)
  | data (d : DataItem)
  | getPeers
  | peers (l : List PeerAddr)
deriving DecidableEq, Repr

def getBlocksCodec : Codec (List Bytes × Bytes) :=
  iso (fun p => p.2) (fun x => ((), x)) (seq (const [0]) (seq (list (fixed 32)) (fixed 32)))

def inventoryCodec : Codec (List InvItem) :=
  iso (fun p => p.2) (fun x => ((), x)) (seq (const [0]) (list InvItem.codec))

def getDataCodec : Codec (Bytes × Bytes) :=
  iso (fun p => p.2) (fun x => ((), x)) (seq (const [0]) (seq (fixed 2) (fixed 32)))

def peersCodec : Codec (List PeerAddr) :=
  iso (fun p => p.2) (fun x => ((), x)) (seq (const [0]) (list PeerAddr.codec))

def DataItem.enc : DataItem → Bytes
  | .block b => [0, 0] ++ BlockC.codec.enc b
  | .header h => [0, 1] ++ Header.codec.enc h
  | .tx t => [0, 2] ++ Tx.codec.enc t

/-- `DataMessage.stream_deserialize` after the version byte: `DATATYPES[data_type]` raises
`KeyError` for an unknown type -/
def DataItem.dec (bs : Bytes) : Option (DataItem × Bytes) :=
  match bs with
  | a :: b :: r =>
    if a = 0 ∧ b = 0 then (BlockC.codec.dec r).map fun (x, r') => (.block x, r')
    else if a = 0 ∧ b = 1 then (Header.codec.dec r).map fun (x, r') => (.header x, r')
    else if a = 0 ∧ b = 2 then (Tx.codec.dec r).map fun (x, r') => (.tx x, r')
    else none
  | _ => none

def Msg.enc : Msg → Bytes
  | .hello h => [0, 0] ++ Hello.codec.enc h
  | .getBlocks s t => [0, 1] ++ getBlocksCodec.enc (s, t)
  | .inventory l => [0, 2] ++ inventoryCodec.enc l
  | .getData t h => [0, 3] ++ getDataCodec.enc (t, h)
  | .data d => [0, 4, 0] ++ d.enc
  | .getPeers => [0, 5, 0]
  | .peers l => [0, 6] ++ peersCodec.enc l

/-- `Message.stream_deserialize` -/
def Msg.dec (bs : Bytes) : Option (Msg × Bytes) :=
  match bs with
  | a :: b :: r =>
    if a ≠ 0 then none
    else if b = 0 then (Hello.codec.dec r).map fun (x, r') => (.hello x, r')
    else if b = 1 then (getBlocksCodec.dec r).map fun (x, r') => (.getBlocks x.1 x.2, r')
    else if b = 2 then (inventoryCodec.dec r).map fun (x, r') => (.inventory x, r')
    else if b = 3 then (getDataCodec.dec r).map fun (x, r') => (.getData x.1 x.2, r')
    else if b = 4 then
      match r with
      | v :: r₁ => if v = 0 then (DataItem.dec r₁).map fun (x, r') => (.data x, r') else none
      | [] => none
    else if b = 5 then
      match r with
      | v :: r₁ => if v = 0 then some (.getPeers, r₁) else none
      | [] => none
    else if b = 6 then (peersCodec.dec r).map fun (x, r') => (.peers x, r')
    else none
  | _ => none

def DataItem.WF : DataItem → Prop
  | .block b => b.WF
  | .header h => h.WF
  | .tx t => t.WF

def Msg.WF : Msg → Prop
  | .hello h => h.WF
  | .getBlocks s t => (∀ x ∈ s, x.length = 32) ∧ t.length = 32
  | .inventory l => ∀ i ∈ l, i.WF
  | .getData t h => t.length = 2 ∧ h.length = 32
  | .data d => d.WF
  | .getPeers => True
  | .peers l => ∀ a ∈ l, a.WF

/-- `MessageReceiver.handle_message_data`: header then message; trailing bytes are ignored -/
def decodeFrame (payload : Bytes) : Option (MsgHeader × Msg) :=
  match MsgHeader.codec.dec payload with
  | none => none
  | some (h, r) => match Msg.dec r with
    | none => none
    | some (m, _) => some (h, m)

def encodeFrame (h : MsgHeader) (m : Msg) : Bytes := MsgHeader.codec.enc h ++ m.enc

end Model

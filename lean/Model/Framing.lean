import Model.Basic

/-!
Model.Framing — `MessageReceiver` of networking/remote_peer.py: `MAGIC`, a 4-byte big-endian
length, then that many bytes of message.

`bad` says for which payloads `handle_message_data` raises (undecodable message, handler
error): the exception leaves `receive` at that point.
-/

namespace Model

structure RState where
  buffer : Bytes
  magicRead : Bool
  len : Option Nat
deriving Repr, DecidableEq

def RState.init : RState := ⟨[], false, none⟩

inductive FErr where
  | magic      -- "Insufficient magic"
  | tooBig     -- "len > MAX_MESSAGE_SIZE"
  | handler    -- exception out of handle_message_data
deriving Repr, DecidableEq

structure RResult where
  st : RState
  payloads : List Bytes
  err : Option FErr
deriving Repr, DecidableEq

/-- `if not self.magic_read and len(self.buffer) >= 4: …` -/
def phaseM (magic : Bytes) (st : RState) : Except FErr RState :=
  if !st.magicRead && decide (4 ≤ st.buffer.length) then
    if st.buffer.take 4 ≠ magic then .error .magic
    else .ok { st with magicRead := true, buffer := st.buffer.drop 4 }
  else .ok st

/-- `if self.len is None and len(self.buffer) >= 4: …` -/
def phaseL (maxSize : Nat) (st : RState) : Except FErr RState :=
  if st.len.isNone && decide (4 ≤ st.buffer.length) then
    let n := bytesToNat (st.buffer.take 4)
    if n > maxSize then .error .tooBig
    else .ok { st with len := some n, buffer := st.buffer.drop 4 }
  else .ok st

def settle (magic : Bytes) (maxSize : Nat) (st : RState) : Except FErr RState :=
  match phaseM magic st with
  | .error e => .error e
  | .ok s₁ => phaseL maxSize s₁

/-- what decides termination: every recursive call happens after `magic` and length (8 bytes)
of the next frame have been consumed, or on a strictly shorter buffer -/
def RState.measure (st : RState) : Nat :=
  st.buffer.length + (if st.magicRead then 3 else 0) + (if st.len.isSome then 3 else 0)

theorem phaseM_measure {magic : Bytes} {st s₁ : RState} (h : phaseM magic st = .ok s₁) :
    s₁.measure ≤ st.measure ∧ s₁.len = st.len := by
  unfold phaseM at h
  split at h
  · rename_i hc
    split at h
    · cases h
    · cases h
      simp only [Bool.and_eq_true, Bool.not_eq_eq_eq_not, Bool.not_true, decide_eq_true_eq] at hc
      refine ⟨?_, rfl⟩
      simp only [RState.measure, List.length_drop, hc.1]
      simp; omega
  · cases h; exact ⟨Nat.le_refl _, rfl⟩

theorem phaseL_measure {maxSize : Nat} {st s₂ : RState} (h : phaseL maxSize st = .ok s₂) :
    s₂.measure ≤ st.measure := by
  unfold phaseL at h
  split at h
  · rename_i hc
    simp only at h
    split at h
    · cases h
    · cases h
      simp only [Bool.and_eq_true, Option.isNone_iff_eq_none, decide_eq_true_eq] at hc
      simp only [RState.measure, List.length_drop, hc.1]
      simp; omega
  · cases h; exact Nat.le_refl _

theorem settle_measure {magic : Bytes} {maxSize : Nat} {st s₂ : RState}
    (h : settle magic maxSize st = .ok s₂) : s₂.measure ≤ st.measure := by
  unfold settle at h
  split at h
  · cases h
  · rename_i s₁ hm
    exact Nat.le_trans (phaseL_measure h) (phaseM_measure hm).1

/-- the body of `receive` after `self.buffer += data` -/
def recv (magic : Bytes) (maxSize : Nat) (bad : Bytes → Bool) (st : RState) : RResult :=
  match hs : settle magic maxSize st with
  | .error e => ⟨st, [], some e⟩
  | .ok s₂ =>
    match hl : s₂.len with
    | none => ⟨s₂, [], none⟩
    | some n =>
      if hn : n ≤ s₂.buffer.length then
        let payload := s₂.buffer.take n
        if bad payload then ⟨s₂, [], some .handler⟩
        else
          let r := recv magic maxSize bad ⟨s₂.buffer.drop n, false, none⟩
          ⟨r.st, payload :: r.payloads, r.err⟩
      else ⟨s₂, [], none⟩
termination_by st.measure
decreasing_by
  have := settle_measure hs
  simp only [RState.measure, hl, List.length_drop] at this ⊢
  simp at this ⊢
  omega

/-- one call `receiver.receive(data)` -/
def feed (magic : Bytes) (maxSize : Nat) (bad : Bytes → Bool) (st : RState) (data : Bytes) : RResult :=
  recv magic maxSize bad { st with buffer := st.buffer ++ data }

/-- a connection: feed the chunks one after another, stop at the first error -/
def feedAll (magic : Bytes) (maxSize : Nat) (bad : Bytes → Bool) :
    RState → List Bytes → RResult
  | st, [] => ⟨st, [], none⟩
  | st, c :: cs =>
    let r := feed magic maxSize bad st c
    match r.err with
    | some e => ⟨r.st, r.payloads, some e⟩
    | none =>
      let r' := feedAll magic maxSize bad r.st cs
      ⟨r'.st, r.payloads ++ r'.payloads, r'.err⟩

/-- `MAGIC + struct.pack(">I", len(data)) + data` -/
def frame (magic : Bytes) (payload : Bytes) : Bytes := magic ++ natToBytes 4 payload.length ++ payload

end Model

import Model.Basic

/-!
Model.Map — finite maps (`immutables.Map`, `dict`) as association lists. Iteration order is
never observed by the model's observables; `set` keeps keys unique.
-/

namespace Model

abbrev Map (κ : Type) (ν : Type) := List (κ × ν)

namespace Map
variable {κ ν : Type} [DecidableEq κ]

def get? (m : Map κ ν) (k : κ) : Option ν :=
  match m with
  | [] => none
  | (k', v) :: rest => if k' = k then some v else get? rest k

def contains (m : Map κ ν) (k : κ) : Bool := (m.get? k).isSome

def erase (m : Map κ ν) (k : κ) : Map κ ν := m.filter (fun p => decide (p.1 ≠ k))

/-- `m.set(k, v)` / `m[k] = v` -/
def set (m : Map κ ν) (k : κ) (v : ν) : Map κ ν := (k, v) :: m.erase k

def keys (m : Map κ ν) : List κ := m.map (·.1)

def values (m : Map κ ν) : List ν := m.map (·.2)

end Map
end Model

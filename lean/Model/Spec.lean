import Model.Consensus

/-!
Model.Spec — vocabulary used to *state* the properties (not a model of any code): histories of
block arrivals, ancestry inside a history, replay from genesis, collisions.
-/

namespace Model

/-- two different inputs with the same hash: every theorem that needs a cryptographic fact has
this as an explicit disjunct of its conclusion (DESIGN §2.3) -/
def Collision {α β : Type} (h : α → β) : Prop := ∃ x y, x ≠ y ∧ h x = h y

/-- the state after a sequence of arrivals through `add_block_no_validation` -/
def foldBlocks (C : Crypto) : CoinState → List Block → Except Err CoinState
  | cs, [] => .ok cs
  | cs, b :: rest =>
    match addBlockNoValidation C cs b with
    | .error e => .error e
    | .ok cs' => foldBlocks C cs' rest

/-- a well-formed arrival history (oldest first): the first block is a genesis block (parent all
zeros, height 0); every later block picks an earlier block as parent and is one higher; ids are
distinct and no id is the all-zero string -/
inductive WFArrivals (C : Crypto) : List Block → Prop where
  | genesis (g : Block) : g.prev = zeros 32 → g.height = 0 → g.id C ≠ zeros 32 → WFArrivals C [g]
  | snoc (bs : List Block) (b p : Block) : WFArrivals C bs → p ∈ bs → b.prev = p.id C →
      b.height = p.height + 1 → b.id C ≠ zeros 32 → (∀ c ∈ bs, c.id C ≠ b.id C) →
      WFArrivals C (bs ++ [b])

/-- the block with a given id in a history -/
def findBlock (C : Crypto) (bs : List Block) (id : Bytes) : Option Block :=
  bs.find? (fun b => b.id C = id)

/-- the chain of `b` inside the history `bs`: its ancestors from genesis, then `b` (oldest first) -/
def chainOf (C : Crypto) (bs : List Block) : Nat → Block → List Block
  | 0, b => [b]
  | fuel + 1, b =>
    if b.prev = zeros 32 then [b]
    else match findBlock C bs b.prev with
      | none => [b]
      | some p => chainOf C bs fuel p ++ [b]

/-- replay of a chain from the empty unspent set -/
def replayUtxo (C : Crypto) : List Block → Utxo → Except Err Utxo
  | [], u => .ok u
  | b :: rest, u =>
    match utoApplyBlock C u b with
    | .error e => .error e
    | .ok u' => replayUtxo C rest u'

/-- the first block, in arrival order, among those of greatest height -/
def firstMax : List Block → Option Block
  | [] => none
  | b :: rest =>
    match firstMax rest with
    | none => some b
    | some m => if m.height > b.height then some m else some b

/-- total value of an unspent set -/
def totalValue (u : Utxo) : Nat := (u.map (·.2.value)).sum

end Model

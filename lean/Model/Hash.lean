import Model.Basic

/-!
SHA-256 (FIPS 180-4) and unkeyed BLAKE2b with a 32-byte digest (RFC 7693), as total pure
functions on `Bytes = List UInt8`.  Internally the input is copied once into a `ByteArray`
and all work is done with `UInt32`/`UInt64` arithmetic on `Array`s.  Out-of-range array
reads never happen (all indices are literal or bounded by construction); `getD`/`setIfInBounds`
are used so that every function is total without panics.
-/

namespace Model
namespace Hash

/-- `iter n f a = f (n-1) (... (f 1 (f 0 a)))`: tail-recursive counted loop, structural on `n`. -/
@[specialize] def iter {α : Type} (n : Nat) (f : Nat → α → α) (a : α) : α := go n 0 a
where
  @[specialize] go : Nat → Nat → α → α
    | 0, _, a => a
    | k + 1, i, a => go k (i + 1) (f i a)

@[inline] def byteAt (b : ByteArray) (i : Nat) : UInt8 := if h : i < b.size then b[i] else 0

def pushZeros (b : ByteArray) (n : Nat) : ByteArray := iter n (fun _ b => b.push 0) b

/-! ## SHA-256 -/

def shaK : Array UInt32 := #[
  0x428a2f98, 0x71374491, 0xb5c0fbcf, 0xe9b5dba5, 0x3956c25b, 0x59f111f1, 0x923f82a4, 0xab1c5ed5,
  0xd807aa98, 0x12835b01, 0x243185be, 0x550c7dc3, 0x72be5d74, 0x80deb1fe, 0x9bdc06a7, 0xc19bf174,
  0xe49b69c1, 0xefbe4786, 0x0fc19dc6, 0x240ca1cc, 0x2de92c6f, 0x4a7484aa, 0x5cb0a9dc, 0x76f988da,
  0x983e5152, 0xa831c66d, 0xb00327c8, 0xbf597fc7, 0xc6e00bf3, 0xd5a79147, 0x06ca6351, 0x14292967,
  0x27b70a85, 0x2e1b2138, 0x4d2c6dfc, 0x53380d13, 0x650a7354, 0x766a0abb, 0x81c2c92e, 0x92722c85,
  0xa2bfe8a1, 0xa81a664b, 0xc24b8b70, 0xc76c51a3, 0xd192e819, 0xd6990624, 0xf40e3585, 0x106aa070,
  0x19a4c116, 0x1e376c08, 0x2748774c, 0x34b0bcb5, 0x391c0cb3, 0x4ed8aa4a, 0x5b9cca4f, 0x682e6ff3,
  0x748f82ee, 0x78a5636f, 0x84c87814, 0x8cc70208, 0x90befffa, 0xa4506ceb, 0xbef9a3f7, 0xc67178f2]

/-- The eight working variables / chaining values `a..h`. -/
structure ShaState where
  (a b c d e f g h : UInt32)

def shaInit : ShaState :=
  ⟨0x6a09e667, 0xbb67ae85, 0x3c6ef372, 0xa54ff53a, 0x510e527f, 0x9b05688c, 0x1f83d9ab, 0x5be0cd19⟩

@[inline] def rotr32 (x n : UInt32) : UInt32 := (x >>> n) ||| (x <<< (32 - n))

/-- Big-endian 32-bit word at byte offset `i`. -/
@[inline] def be32 (b : ByteArray) (i : Nat) : UInt32 :=
  ((byteAt b i).toUInt32 <<< 24) ||| ((byteAt b (i + 1)).toUInt32 <<< 16) |||
  ((byteAt b (i + 2)).toUInt32 <<< 8) ||| (byteAt b (i + 3)).toUInt32

/-- Message padding: `0x80`, zeros up to 56 mod 64, then the bit length as 64-bit big-endian. -/
def shaPad (msg : ByteArray) : ByteArray :=
  let b := pushZeros (msg.push 0x80) ((119 - msg.size % 64) % 64)
  let bits := (msg.size * 8).toUInt64
  iter 8 (fun i b => b.push (bits >>> (56 - 8 * i.toUInt64)).toUInt8) b

/-- The 64-word message schedule of the block starting at byte offset `off`. -/
def shaSchedule (b : ByteArray) (off : Nat) : Array UInt32 :=
  let w := iter 16 (fun i w => w.push (be32 b (off + 4 * i))) (Array.mkEmpty 64)
  iter 48 (fun j w =>
    let w15 := w.getD (j + 1) 0
    let w2 := w.getD (j + 14) 0
    let s0 := rotr32 w15 7 ^^^ rotr32 w15 18 ^^^ (w15 >>> 3)
    let s1 := rotr32 w2 17 ^^^ rotr32 w2 19 ^^^ (w2 >>> 10)
    w.push (w.getD j 0 + s0 + w.getD (j + 9) 0 + s1)) w

@[inline] def shaRound (s : ShaState) (kw : UInt32) : ShaState :=
  let s1 := rotr32 s.e 6 ^^^ rotr32 s.e 11 ^^^ rotr32 s.e 25
  let ch := (s.e &&& s.f) ^^^ (~~~s.e &&& s.g)
  let t1 := s.h + s1 + ch + kw
  let s0 := rotr32 s.a 2 ^^^ rotr32 s.a 13 ^^^ rotr32 s.a 22
  let maj := (s.a &&& s.b) ^^^ (s.a &&& s.c) ^^^ (s.b &&& s.c)
  ⟨t1 + s0 + maj, s.a, s.b, s.c, s.d + t1, s.e, s.f, s.g⟩

def shaCompress (b : ByteArray) (blk : Nat) (s : ShaState) : ShaState :=
  let w := shaSchedule b (64 * blk)
  let t := iter 64 (fun i t => shaRound t (shaK.getD i 0 + w.getD i 0)) s
  ⟨s.a + t.a, s.b + t.b, s.c + t.c, s.d + t.d, s.e + t.e, s.f + t.f, s.g + t.g, s.h + t.h⟩

def be32Bytes (x : UInt32) : List UInt8 :=
  [(x >>> 24).toUInt8, (x >>> 16).toUInt8, (x >>> 8).toUInt8, x.toUInt8]

/-! ## BLAKE2b -/

def b2IV : Array UInt64 := #[
  0x6a09e667f3bcc908, 0xbb67ae8584caa73b, 0x3c6ef372fe94f82b, 0xa54ff53a5f1d36f1,
  0x510e527fade682d1, 0x9b05688c2b3e6c1f, 0x1f83d9abfb41bd6b, 0x5be0cd19137e2179]

/-- Message word permutations; rounds 10 and 11 reuse rows 0 and 1. -/
def b2Sigma : Array (Array Nat) := #[
  #[0, 1, 2, 3, 4, 5, 6, 7, 8, 9, 10, 11, 12, 13, 14, 15],
  #[14, 10, 4, 8, 9, 15, 13, 6, 1, 12, 0, 2, 11, 7, 5, 3],
  #[11, 8, 12, 0, 5, 2, 15, 13, 10, 14, 3, 6, 7, 1, 9, 4],
  #[7, 9, 3, 1, 13, 12, 11, 14, 2, 6, 5, 10, 4, 0, 15, 8],
  #[9, 0, 5, 7, 2, 4, 10, 15, 14, 1, 11, 12, 6, 8, 3, 13],
  #[2, 12, 6, 10, 0, 11, 8, 3, 4, 13, 7, 5, 15, 14, 1, 9],
  #[12, 5, 1, 15, 14, 13, 4, 10, 0, 7, 6, 3, 9, 2, 8, 11],
  #[13, 11, 7, 14, 12, 1, 3, 9, 5, 0, 15, 4, 8, 6, 2, 10],
  #[6, 15, 14, 9, 11, 3, 0, 8, 12, 2, 13, 7, 1, 4, 10, 5],
  #[10, 2, 8, 4, 7, 6, 1, 5, 15, 11, 9, 14, 3, 12, 13, 0]]

@[inline] def rotr64 (x n : UInt64) : UInt64 := (x >>> n) ||| (x <<< (64 - n))

/-- Little-endian 64-bit word at byte offset `i`. -/
@[inline] def le64 (b : ByteArray) (i : Nat) : UInt64 :=
  iter 8 (fun k acc => (acc <<< 8) ||| (byteAt b (i + 7 - k)).toUInt64) 0

/-- The mixing function `G` on work vector `v`, indices `a b c d`, message words `x y`. -/
@[inline] def b2G (v : Array UInt64) (a b c d : Nat) (x y : UInt64) : Array UInt64 :=
  let va := v.getD a 0 + v.getD b 0 + x
  let vd := rotr64 (v.getD d 0 ^^^ va) 32
  let vc := v.getD c 0 + vd
  let vb := rotr64 (v.getD b 0 ^^^ vc) 24
  let va := va + vb + y
  let vd := rotr64 (vd ^^^ va) 16
  let vc := vc + vd
  let vb := rotr64 (vb ^^^ vc) 63
  (((v.setIfInBounds a va).setIfInBounds b vb).setIfInBounds c vc).setIfInBounds d vd

def b2Round (m : Array UInt64) (r : Nat) (v : Array UInt64) : Array UInt64 :=
  let s := b2Sigma.getD (r % 10) #[]
  let w (i : Nat) : UInt64 := m.getD (s.getD i 0) 0
  let v := b2G v 0 4 8 12 (w 0) (w 1)
  let v := b2G v 1 5 9 13 (w 2) (w 3)
  let v := b2G v 2 6 10 14 (w 4) (w 5)
  let v := b2G v 3 7 11 15 (w 6) (w 7)
  let v := b2G v 0 5 10 15 (w 8) (w 9)
  let v := b2G v 1 6 11 12 (w 10) (w 11)
  let v := b2G v 2 7 8 13 (w 12) (w 13)
  b2G v 3 4 9 14 (w 14) (w 15)

/-- Compress the 128-byte block at offset `off` into `h`; `t` = bytes consumed so far
(the high counter word is always 0 for inputs below 2^64 bytes). -/
def b2Compress (b : ByteArray) (off : Nat) (t : UInt64) (last : Bool) (h : Array UInt64) :
    Array UInt64 :=
  let m := iter 16 (fun i m => m.push (le64 b (off + 8 * i))) (Array.mkEmpty 16)
  let v := h ++ b2IV
  let v := v.setIfInBounds 12 (v.getD 12 0 ^^^ t)
  let v := if last then v.setIfInBounds 14 (~~~ v.getD 14 0) else v
  let v := iter 12 (b2Round m) v
  iter 8 (fun i h => h.setIfInBounds i (h.getD i 0 ^^^ v.getD i 0 ^^^ v.getD (i + 8) 0)) h

def le64Bytes (x : UInt64) : List UInt8 :=
  [x.toUInt8, (x >>> 8).toUInt8, (x >>> 16).toUInt8, (x >>> 24).toUInt8,
   (x >>> 32).toUInt8, (x >>> 40).toUInt8, (x >>> 48).toUInt8, (x >>> 56).toUInt8]

end Hash

open Hash

/-- SHA-256: 32-byte digest. -/
def sha256 (bs : Bytes) : Bytes :=
  let b := shaPad (ByteArray.mk bs.toArray)
  let s := iter (b.size / 64) (shaCompress b) shaInit
  [s.a, s.b, s.c, s.d, s.e, s.f, s.g, s.h].flatMap be32Bytes

/-- Double SHA-256. -/
def sha256d (bs : Bytes) : Bytes := sha256 (sha256 bs)

/-- Unkeyed BLAKE2b with a 32-byte digest: `hashlib.blake2b(bs, digest_size=32).digest()`. -/
def blake2b32 (bs : Bytes) : Bytes :=
  let msg := ByteArray.mk bs.toArray
  let n := msg.size
  let nblk := if n = 0 then 1 else (n + 127) / 128        -- the empty message is one zero block
  let b := pushZeros msg (128 * nblk - n)
  -- parameter block: digest length 32, key length 0, fanout 1, depth 1
  let h := b2IV.setIfInBounds 0 (b2IV.getD 0 0 ^^^ 0x01010020)
  let h := iter (nblk - 1) (fun i h => b2Compress b (128 * i) (128 * (i + 1)).toUInt64 false h) h
  let h := b2Compress b (128 * (nblk - 1)) n.toUInt64 true h
  (h.toList.take 4).flatMap le64Bytes

end Model

import Model.Node

/-!
Model.Wallet — skepticoin/wallet.py (`Wallet`, `create_spend_transaction`, `sign_transaction`)
and the atomic-replace writers `save_wallet` (scripts/utils.py … wallet.py) and
`DiskInterface.write_peers` on a three-operation file-system model.

ECDSA signatures are randomised: the signatures are an input of `signTx` (one per input, in
order); theorems assume of them only that they verify (`C.verify pk msg sig = true`).
-/

namespace Model

structure Wallet where
  /-- `keypairs`: public key → private key, in dict (insertion) order -/
  keypairs : List (Bytes × Bytes)
  /-- `unused_public_keys` -/
  unused : List Bytes
  /-- `public_key_annotations` -/
  annotations : List (Bytes × String)
  /-- `spent_transaction_outputs` (not saved to disk) -/
  spent : List OutRef
deriving Repr, DecidableEq

def Wallet.empty : Wallet := ⟨[], [], [], []⟩

def Wallet.keys (w : Wallet) : List Bytes := w.keypairs.map (·.1)

/-- `generate_key` with the generated pair given -/
def Wallet.addKey (w : Wallet) (pk sk : Bytes) : Wallet :=
  { w with keypairs := (w.keypairs.filter (·.1 ≠ pk)) ++ [(pk, sk)], unused := w.unused ++ [pk] }

/-- `get_annotated_public_key`; `choice` is what `random.choice` picks when no unused key is left -/
def Wallet.handOut (w : Wallet) (annotation : String) (choice : Nat) : Option (Wallet × Bytes) :=
  match w.unused.getLast? with
  | none =>
    match w.keys[choice % w.keys.length]? with    -- re-use (by design); IndexError on an empty wallet
    | some pk => some (w, pk)
    | none => none
  | some pk =>
    some ({ w with unused := w.unused.dropLast,
                   annotations := (w.annotations.filter (·.1 ≠ pk)) ++ [(pk, annotation)] }, pk)

/-- `restore_annotated_public_key` (`KeyError` when the key carries no annotation) -/
def Wallet.restore (w : Wallet) (pk : Bytes) : Option Wallet :=
  if w.annotations.any (·.1 = pk) then
    some { w with annotations := w.annotations.filter (·.1 ≠ pk), unused := w.unused ++ [pk] }
  else none

/-! ### dump / load (hex layer; the JSON text layer is CPython's) -/

structure Dumped where
  keypairs : List (String × String)
  unused : List String
  annotations : List (String × String)
deriving Repr, DecidableEq

def Wallet.dump (w : Wallet) : Dumped :=
  ⟨w.keypairs.map fun (k, v) => (toHex k, toHex v), w.unused.map toHex,
   w.annotations.map fun (k, a) => (toHex k, a)⟩

def Wallet.load (d : Dumped) : Option Wallet := do
  let kp ← d.keypairs.mapM fun (k, v) => do
    let k' ← ofHexChars k.toList
    let v' ← ofHexChars v.toList
    pure (k', v')
  let un ← d.unused.mapM fun k => ofHexChars k.toList
  let an ← d.annotations.mapM fun (k, a) => do
    let k' ← ofHexChars k.toList
    pure (k', a)
  pure ⟨kp, un, an, []⟩

/-! ### balance -/

def pkValue (bal : PKBalances) (pk : Bytes) : Int :=
  match bal.get? pk with
  | some b => b.value
  | none => 0

/-- `get_balance`: over annotated keys then unused keys -/
def Wallet.balance (w : Wallet) (bal : PKBalances) : Int :=
  ((w.annotations.map (·.1) ++ w.unused).map (pkValue bal)).sum

/-! ### spending -/

/-- the references the wallet may still spend, in the order `create_spend_transaction` meets them:
for every key pair (dict order) the references listed in that key's balance at the head that
this wallet has not used yet -/
def Wallet.candidates (w : Wallet) (bal : PKBalances) : List OutRef :=
  w.keys.flatMap fun pk =>
    match bal.get? pk with
    | none => []
    | some b => b.refs.filter (fun r => !(w.spent.any (· = r)))

/-- collect references, looking each one up in the unspent set (`KeyError` if absent), until the
value reaches the target; `none`: the candidates run out ("Insufficient balance") -/
def takeUntil (u : Utxo) (target : Nat) : List OutRef → Nat → Except Err (Option (List (OutRef × Output) × Nat))
  | [], _ => .ok none
  | r :: rest, acc =>
    match u.get? r with
    | none => .error (.key "unspent_transaction_outs[output_reference]")
    | some o =>
      if acc + o.value ≥ target then .ok (some ([(r, o)], acc + o.value))
      else match takeUntil u target rest (acc + o.value) with
        | .error e => .error e
        | .ok none => .ok none
        | .ok (some (l, total)) => .ok (some ((r, o) :: l, total))

/-- the unsigned transaction `create_spend_transaction` builds, with the outputs it spends -/
def Wallet.planSpend (w : Wallet) (u : Utxo) (bal : PKBalances) (amount fee : Nat) (recipient change : Bytes) :
    Except Err (List (OutRef × Output) × Tx) :=
  match takeUntil u (amount + fee) (w.candidates bal) 0 with
  | .error e => .error e
  | .ok none => .error (.other "Insufficient balance")
  | .ok (some (chosen, collected)) =>
    let outs := [⟨amount, recipient⟩] ++
      (if collected ≠ amount + fee then [⟨collected - (amount + fee), change⟩] else [])
    .ok (chosen, ⟨chosen.map fun (r, _) => ⟨r, .signable⟩, outs⟩)

/-- `sign_transaction`: each input gets the signature made with the key owning the spent output
(`Exception` when the wallet has no such key) -/
def Wallet.signTx (w : Wallet) (chosen : List (OutRef × Output)) (t : Tx) (sigs : List Bytes) : Except Err Tx :=
  if chosen.all (fun (_, o) => w.keys.contains o.pk) && sigs.length = chosen.length then
    .ok ⟨(chosen.zip sigs).map fun ((r, _), s) => ⟨r, .secp s⟩, t.outputs⟩
  else .error (.other "Can't sign this; no known private key in wallet")

/-- `create_spend_transaction` (after the `fix:`): the wallet's record of used outputs changes
only when a transaction is returned -/
def Wallet.createSpend (w : Wallet) (u : Utxo) (bal : PKBalances) (amount fee : Nat) (recipient change : Bytes)
    (sigs : List Bytes) : Except Err (Wallet × Tx) :=
  match w.planSpend u bal amount fee recipient change with
  | .error e => .error e
  | .ok (chosen, unsigned) =>
    match w.signTx chosen unsigned sigs with
    | .error e => .error e
    | .ok signed => .ok ({ w with spent := w.spent ++ chosen.map (·.1) }, signed)

/-! ### files: open-truncate, append, rename -/

abbrev FS := List (String × Bytes)

def FS.read (fs : FS) (name : String) : Option Bytes := (fs.find? (·.1 = name)).map (·.2)

def FS.write (fs : FS) (name : String) (content : Bytes) : FS :=
  (name, content) :: fs.filter (·.1 ≠ name)

inductive FsOp where
  | openTrunc (name : String)
  | append (name : String) (chunk : Bytes)
  | rename (src dst : String)
deriving Repr

def FS.apply (fs : FS) : FsOp → FS
  | .openTrunc n => fs.write n []
  | .append n c => fs.write n ((fs.read n).getD [] ++ c)
  | .rename s d =>
    match fs.read s with
    | some content => FS.write (fs.filter (·.1 ≠ s)) d content
    | none => fs

/-- `with open(new, "w") as f: dump(...)` then `os.replace(new, final)`: the operations a save
performs, for a given chunking of the content into `write` calls -/
def saveOps (final : String) (chunks : List Bytes) : List FsOp :=
  [.openTrunc (final ++ ".new")] ++ chunks.map (.append (final ++ ".new")) ++ [.rename (final ++ ".new") final]

end Model

import Model.Params
import Model.Map

/-!
Model.PeerBook — `NetworkManager` of networking/manager.py with the parts of `LocalPeer`
(`start_outgoing_connection`, `disconnect`) and `ConnectedRemotePeer` (hello / peers handling)
that touch the peer book, and `DiskInterface.write_peers`.

A peer is identified by `(host, port, direction)`. Time is an integer supplied with each event.
-/

namespace Model

structure PeerKey where
  host : String
  port : Nat
  outgoing : Bool
deriving DecidableEq, Repr

structure ConnPeer where
  lastAttempt : Option Int
  banScore : Nat
  helloReceived : Bool
  /-- the socket is registered in the selector (false after a first `disconnect`) -/
  registered : Bool
  /-- identity of the connection object (a new one for every connection) -/
  serial : Nat
deriving DecidableEq, Repr

structure DiscPeer where
  lastAttempt : Option Int
  banScore : Nat
deriving DecidableEq, Repr

structure Book where
  connected : Map PeerKey ConnPeer
  disconnected : Map PeerKey DiscPeer
  myAddresses : List (String × Nat)
  /-- log of connection attempts `(key, time, ban score at that time)`, newest first (history variable) -/
  attempts : List (PeerKey × Int × Nat)
  nextSerial : Nat
deriving Repr

def Book.empty : Book := ⟨[], [], [], [], 0⟩

/-- `_sanity_check` would raise -/
def Book.insane (b : Book) : Bool := b.connected.keys.any fun k => b.disconnected.contains k

/-- `NetworkManager.handle_peer_disconnected` -/
def Book.peerDisconnected (b : Book) (k : PeerKey) (p : ConnPeer) : Book :=
  let connected := b.connected.erase k
  if k.outgoing then
    let ban := if p.helloReceived then p.banScore else p.banScore + 1
    { b with connected := connected, disconnected := b.disconnected.set k ⟨p.lastAttempt, ban⟩ }
  else { b with connected := connected }

/-- `LocalPeer.disconnect` of the connection object `p` registered under `k`: unregister, close,
then `handle_peer_disconnected`; everything inside one swallow-all `try`, so a second call for
an already unregistered socket changes nothing. `handle_peer_disconnected` deletes
`connected_peers[key]` — whatever object is stored there. -/
def Book.disconnect (b : Book) (k : PeerKey) (serial : Nat) : Book :=
  match b.connected.get? k with
  | some p =>
    if p.serial = serial && p.registered then b.peerDisconnected k p
    else b       -- a stale object: `selector.unregister` raises, swallowed
  | none => b

/-- `NetworkManager.handle_peer_connected` -/
def Book.peerConnected (b : Book) (k : PeerKey) (p : ConnPeer) : Book :=
  let b₁ := match b.connected.get? k with
    | some old => b.disconnect k old.serial          -- "duplicate": drop the existing one
    | none => b
  { b₁ with connected := b₁.connected.set k p, disconnected := b₁.disconnected.erase k }

/-- `LocalPeer.start_outgoing_connection` + `as_connected` -/
def Book.startOutgoing (b : Book) (k : PeerKey) (d : DiscPeer) : Book :=
  let p : ConnPeer := ⟨d.lastAttempt, d.banScore, false, true, b.nextSerial⟩
  (Book.peerConnected { b with nextSerial := b.nextSerial + 1 } k p)

/-- the first loop of `NetworkManager.step`: over a snapshot of the disconnected peers -/
def Book.stepPeers (P : Params) (now : Int) : Book → List (PeerKey × DiscPeer) → Book
  | b, [] => b
  | b, (k, _) :: rest =>
    -- the loop iterates over a copied list of the *objects*; an object removed from the map in
    -- the meantime is still visited, so look the current entry up only for its fields
    match b.disconnected.get? k with
    | none => Book.stepPeers P now b rest
    | some d =>
      if k.outgoing && !(b.myAddresses.contains (k.host, k.port)) && isTimeToConnect P d.banScore d.lastAttempt now then
        let d' : DiscPeer := { d with lastAttempt := some now }
        let b₁ := { b with disconnected := b.disconnected.set k d',
                           attempts := (k, now, d.banScore) :: b.attempts }
        Book.stepPeers P now (b₁.startOutgoing k d') rest
      else Book.stepPeers P now b rest

inductive BookEvent where
  | step (now : Int)
  | incoming (host : String) (port : Nat)
  | hello (k : PeerKey) (nonceIsMine : Bool) (myPort : Nat)
  | peers (announced : List (String × Nat))
  | close (k : PeerKey)            -- remote close / error on the connection currently stored under k
deriving Repr

def Book.announce (b : Book) (host : String) (port : Nat) : Book :=
  let k : PeerKey := ⟨host, port, true⟩
  if b.disconnected.contains k then b
  else if b.connected.contains k then b
  else { b with disconnected := b.disconnected.set k ⟨none, 0⟩ }

def Book.apply (P : Params) (b : Book) : BookEvent → Book
  | .step now => Book.stepPeers P now b b.disconnected
  | .incoming host port =>
    let p : ConnPeer := ⟨none, 0, false, true, b.nextSerial⟩
    Book.peerConnected { b with nextSerial := b.nextSerial + 1 } ⟨host, port, false⟩ p
  | .hello k mine myPort =>
    match b.connected.get? k with
    | none => b
    | some p =>
      let p' := { p with helloReceived := true, banScore := 0 }
      let b₁ := { b with connected := b.connected.set k p' }
      if !k.outgoing then b₁.announce k.host myPort
      else if mine then
        Book.disconnect { b₁ with myAddresses := (k.host, k.port) :: b₁.myAddresses } k p'.serial
      else b₁
  | .peers l => l.foldl (fun b (h, p) => b.announce h p) b
  | .close k =>
    match b.connected.get? k with
    | none => b
    | some p => b.disconnect k p.serial

def Book.run (P : Params) (b : Book) (evs : List BookEvent) : Book := evs.foldl (Book.apply P) b

/-! ### the peers file -/

/-- `write_peers`: the peer moves to the front, older entries with the same key are dropped, at
most `PEERS_JSON_MAX_LEN` entries are kept -/
def writePeersContent (P : Params) (old : List (PeerKey × String)) (k : PeerKey) (stamp : String) :
    List (PeerKey × String) :=
  (((k, stamp) :: old.filter (fun e => e.1 ≠ k)).take P.peersFileMax)

end Model

import Model.Node

/-!
Model.Fetch — the fetch scheduler of `ChainManager.step` (manager.py): when a node asks a peer for
blocks on its own initiative.  The scheduler's own bookkeeping (`started_at`,
`actively_fetching_blocks_from_peers`, and per connection `last_empty_inventory_response_at`) is kept
beside the node, so that everything proved about `Node` stands as it is.

`random.choice` is an input (`pick`); the clock is an input (`now`).
-/

namespace Model

structure FetchParams where
  maxIbdPeers : Nat
  ibdPeerTimeout : Nat
  switchToActive : Nat
  emptyBackoff : Nat
deriving Repr

structure FetchSt where
  /-- `ChainManager.started_at` -/
  startedAt : Int
  /-- `ConnectedRemotePeer.last_empty_inventory_response_at`, by connection (0 initially) -/
  lastEmpty : Nat → Int
  /-- `actively_fetching_blocks_from_peers`: (timeout_at, connection) -/
  fetching : List (Int × Nat)

/-- `should_actively_fetch_blocks` -/
def shouldFetch (F : FetchParams) (headTs startedAt now : Int) : Bool :=
  decide (now > headTs + F.switchToActive) || decide (now ≤ startedAt + 60) || decide (now % 60 = 0)

/-- `inventory_batch_handled` -/
def batchHandled (p : PeerSt) : Bool := !p.waitingForInventory && p.pendingInventory.isEmpty

/-- the filter of `ibd_candidates` on one active peer -/
def candidateOk (F : FetchParams) (now lastEmpty : Int) : Bool := decide (now > lastEmpty + F.emptyBackoff)

/-- `ibd_candidates`: the active peers (connection order) whose last empty answer is older than the back-off -/
def candidates (F : FetchParams) (n : Node) (f : FetchSt) (now : Int) : List Nat :=
  (List.range n.peers.length).filter fun c =>
    match n.peers[c]? with
    | some p => p.active && candidateOk F now (f.lastEmpty c)
    | none => false

/-- the filter that keeps an entry of `actively_fetching_blocks_from_peers` -/
def stillFetching (now timeoutAt : Int) (handled : Bool) : Bool := decide (now < timeoutAt) && !handled

def pruneFetching (n : Node) (f : FetchSt) (now : Int) : List (Int × Nat) :=
  f.fetching.filter fun e =>
    stillFetching now e.1 (match n.peers[e.2]? with | some p => batchHandled p | none => true)

/-- `ChainManager.step` -/
def chainStep (C : Crypto) (F : FetchParams) (n : Node) (f : FetchSt) (now : Int) (pick : Nat) :
    Except Err (Node × FetchSt) :=
  match n.mgr.coinstate.head with
  | none => .error (.key "head")
  | some hd =>
    if !shouldFetch F hd.header.summary.timestamp f.startedAt now then .ok (n, f)
    else
      let cands := candidates F n f now
      if cands.isEmpty then .ok (n, f)
      else
        let f₁ : FetchSt := { f with fetching := pruneFetching n f now }
        if f₁.fetching.length > F.maxIbdPeers then .ok (n, f₁)
        else
          match locator C n.mgr.coinstate with
          | .error e => .error e
          | .ok loc =>
            let c := cands.getD (pick % cands.length) 0
            let n₁ := n.updatePeer c fun p => { p with waitingForInventory := true }
            .ok (n₁.send c (.getBlocks loc),
                 { f₁ with fetching := f₁.fetching ++ [(now + F.ibdPeerTimeout, c)] })

/-- the empty-inventory branch of `handle_inventory_message_received` on the scheduler's side -/
def noteEmptyInventory (f : FetchSt) (c : Nat) (now : Int) : FetchSt :=
  { f with lastEmpty := fun c' => if c' = c then now else f.lastEmpty c' }

end Model

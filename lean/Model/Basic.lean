/-
Model.Basic — bytes, big-endian integers, bit length, the variable-length quantity
as skepticoin/serialization.py codes it.

Core Lean only (no Mathlib): this file is linked into the native driver.
-/

namespace Model

abbrev Bytes := List UInt8

/-- `b'\x00' * n` -/
def zeros (n : Nat) : Bytes := List.replicate n 0

/-- big-endian value of a byte string: `int.from_bytes(bs, 'big')` -/
def bytesToNat : Bytes → Nat
  | bs => bs.foldl (fun acc b => acc * 256 + b.toNat) 0

/-- `x.to_bytes(n, 'big')` for `x < 256^n` (callers guard the range; see `Codec.be`). -/
def natToBytes : (n : Nat) → Nat → Bytes
  | 0, _ => []
  | n + 1, x => UInt8.ofNat ((x / 256 ^ n) % 256) :: natToBytes n x

/-- Python's `int.bit_length()` -/
def bitLen (n : Nat) : Nat :=
  if h : n = 0 then 0 else bitLen (n / 2) + 1
decreasing_by omega

/-- the `k` low base-128 digits of `i`, most significant first, continuation bit on all but
the last one -/
def vlqDigits (i : Nat) : Nat → Bytes
  | 0 => []
  | 1 => [UInt8.ofNat (i % 128)]
  | k + 2 => UInt8.ofNat ((i / 128 ^ (k + 1)) % 128 + 128) :: vlqDigits i (k + 1)

/-- `stream_serialize_vlq`: `bit_length // 7 + 1` digits (not minimal: 64 is `80 40`). -/
def vlqLen (i : Nat) : Nat := bitLen i / 7 + 1

def encodeVlq (i : Nat) : Bytes := vlqDigits i (vlqLen i)

/-- the loop of `stream_deserialize_vlq`: accumulated value, number of bytes read, rest -/
def decodeVlqAux : Bytes → Nat → Nat → Option (Nat × Nat × Bytes)
  | [], _, _ => none
  | b :: rest, acc, n =>
    let acc' := acc + b.toNat % 128
    if b.toNat < 128 then some (acc', n + 1, rest)
    else decodeVlqAux rest (acc' * 128) (n + 1)

/-- `stream_deserialize_vlq` (strict: the number of bytes read must be the number the
encoder writes for that value). -/
def decodeVlq (bs : Bytes) : Option (Nat × Bytes) :=
  match decodeVlqAux bs 0 0 with
  | none => none
  | some (v, n, rest) => if n = vlqLen v then some (v, rest) else none

/-- the decoder of the pinned tree before the `fix:` commit (kept to state the defect). -/
def decodeVlqLenient (bs : Bytes) : Option (Nat × Bytes) :=
  match decodeVlqAux bs 0 0 with
  | none => none
  | some (v, _, rest) => some (v, rest)

/-! hex helpers for the driver -/

def hexDigit (n : Nat) : Char :=
  if n < 10 then Char.ofNat (48 + n) else Char.ofNat (87 + n)

def toHex (bs : Bytes) : String :=
  String.ofList (bs.flatMap fun b => [hexDigit (b.toNat / 16), hexDigit (b.toNat % 16)])

def hexVal (c : Char) : Option Nat :=
  if '0' ≤ c ∧ c ≤ '9' then some (c.toNat - 48)
  else if 'a' ≤ c ∧ c ≤ 'f' then some (c.toNat - 87)
  else if 'A' ≤ c ∧ c ≤ 'F' then some (c.toNat - 55)
  else none

def ofHexChars : List Char → Option Bytes
  | [] => some []
  | [_] => none
  | a :: b :: rest => do
    let x ← hexVal a
    let y ← hexVal b
    let r ← ofHexChars rest
    pure (UInt8.ofNat (x * 16 + y) :: r)

/-- `-` stands for the empty byte string on driver lines -/
def ofHex (s : String) : Option Bytes :=
  if s == "-" then some [] else ofHexChars s.toList

def hexOr (bs : Bytes) : String := if bs.isEmpty then "-" else toHex bs

end Model

import Model.Ledger
import Model.Merkle
import Model.Params

/-!
Model.Consensus — skepticoin/consensus.py and pow.py: construction and validation of blocks,
in the order the Python performs its checks.
-/

namespace Model

def ok : Except Err Unit := .ok ()
def verr (msg : String) : Except Err α := .error (.validation msg)

/-- `if not cond: raise ValidationError(msg)` -/
def require (cond : Bool) (msg : String) : Except Err Unit :=
  if cond then .ok () else .error (.validation msg)

/-- `validate_sashimi_range`: raises the base class `ValidationError`, which handlers that catch
only `ValidateTransactionError` (the pool) do not catch -/
def requireRange (cond : Bool) : Except Err Unit :=
  if cond then .ok () else .error (.range "Value out of range.")

/-- run a check on every element, in order, stopping at the first error -/
def forAll (f : α → Except Err Unit) : List α → Except Err Unit
  | [] => .ok ()
  | a :: rest => f a >>= fun _ => forAll f rest

/-- Python's `<` on `bytes`: lexicographic -/
def bytesLt : Bytes → Bytes → Bool
  | [], [] => false
  | [], _ :: _ => true
  | _ :: _, [] => false
  | a :: as, b :: bs => if a < b then true else if b < a then false else bytesLt as bs

def thinAir : OutRef := ⟨zeros 32, 0⟩

def Sig.isSecp : Sig → Bool
  | .secp _ => true
  | _ => false

/-- `calc_merkle_root_hash` (`none`: the Python does not terminate on an empty list) -/
def calcMerkleRoot (C : Crypto) (txs : List CTx) : Option Bytes :=
  merkleRoot C.sha256d (txs.map (·.id C))

/-- `calc_target` -/
def calcTarget (C : Crypto) (P : Params) (cs : CoinState) (height timestamp : Nat)
    (prevBlock : Block) : Except Err Bytes :=
  if height % P.retargetInterval = 0 then
    match (cs.byHeightAt.get? (prevBlock.id C)).bind (·.get? (height - P.retargetInterval)) with
    | none => .error (.key "interval start block")
    | some sb =>
      if height < P.retargetInterval then .error (.key "negative height")
      else if timestamp < sb.timestamp then .error (.other "negative time passed")
      else .ok (newTarget P prevBlock.target (timestamp - sb.timestamp))
  else .ok prevBlock.target

/-! ### proof-of-work evidence -/

/-- `construct_summary_hash` -/
def summaryHash (C : Crypto) (s : Summary) (height : Nat) : Bytes :=
  C.scrypt (encSummary s) (natToBytes 8 height)

def sliceLoop (ser : Bytes) : Nat → Nat → Nat → Bytes
  | 0, _, _ => []
  | fuel + 1, start, need =>
    if need = 0 then []
    else
      let piece := (ser.drop start).take need
      piece ++ sliceLoop ser fuel 0 (need - piece.length)

/-- `select_block_slice`: `length` bytes of the serialized block starting at a position the
hash selects, wrapping around to the start -/
def selectBlockSlice (hash ser : Bytes) (length : Nat) : Bytes :=
  let base := bytesToNat ((hash.drop 8).take 4)
  sliceLoop ser (length + 1) (base % ser.length) length

/-- `select_n_k_length_slices_from_chain` -/
def selectSlices (C : Crypto) (getBlock : Nat → Option Block) (height k : Nat) :
    Nat → Bytes → Except Err Bytes
  | 0, _ => .ok []
  | n + 1, h =>
    match getBlock (selectBlockHeight h height) with
    | none => .error (.key "sampled block")
    | some blk =>
      let b := selectBlockSlice h (encBlock blk) k
      match selectSlices C getBlock height k n (C.sha256d (h ++ b)) with
      | .error e => .error e
      | .ok rest => .ok (b ++ rest)

/-- the chain sample: zeros for a genesis block, else slices of ancestors selected by the hash -/
def chainSample (C : Crypto) (P : Params) (cs : CoinState) (sh : Bytes) (s : Summary) (height : Nat) :
    Except Err Bytes :=
  if height = 0 then .ok (zeros (P.sampleCount * P.sampleSize))
  else
    selectSlices C (fun h => (cs.byHeightAt.get? s.prev).bind (·.get? h)) height P.sampleSize
      P.sampleCount sh

/-- `construct_pow_evidence_after_scrypt` -/
def evidenceAfterScrypt (C : Crypto) (P : Params) (cs : CoinState) (sh : Bytes) (s : Summary)
    (height : Nat) (txs : List CTx) : Except Err Evidence :=
  match chainSample C P cs sh s height with
  | .error e => .error e
  | .ok sample => .ok ⟨sh, sample, C.blake2 (sh ++ sample ++ encTxList txs)⟩

/-- `construct_pow_evidence` -/
def constructEvidence (C : Crypto) (P : Params) (cs : CoinState) (s : Summary) (height : Nat)
    (txs : List CTx) : Except Err Evidence :=
  evidenceAfterScrypt C P cs (summaryHash C s height) s height txs

/-! ### fees and rewards -/

/-- `get_transaction_fee` (raises `KeyError` on a missing output) -/
def inputsValue (u : Utxo) : List Input → Except Err Nat
  | [] => .ok 0
  | i :: rest =>
    match u.get? i.ref with
    | none => .error (.key "fee: missing output")
    | some o => do
      let r ← inputsValue u rest
      pure (o.value + r)

def outputsValue (outs : List Output) : Nat := (outs.map (·.value)).sum

def txFee (u : Utxo) (t : CTx) : Except Err Int := do
  let i ← inputsValue u t.tx.inputs
  pure ((i : Int) - (outputsValue t.tx.outputs : Int))

/-- `get_block_fees` -/
def blockFees (u : Utxo) : List CTx → Except Err Int
  | [] => .ok 0
  | t :: rest => do
    let f ← txFee u t
    let r ← blockFees u rest
    pure (f + r)

/-! ### validation -/

/-- `validate_non_coinbase_transaction_by_itself` -/
def validateTxByItself (P : Params) (t : CTx) : Except Err Unit := do
  require (t.tx.inputs.length ≠ 0) "No inputs"
  require (t.tx.outputs.length ≠ 0) "No outputs"
  require ((encTx t.tx).length ≤ P.maxBlockSize) "transaction > MAX_BLOCK_SIZE"
  requireRange (t.tx.outputs.all fun o => sashimiInRange P o.value)
  requireRange (sashimiInRange P (outputsValue t.tx.outputs))
  require (decide (t.tx.inputs.map (·.ref)).Nodup) "output_reference referenced more than once"
  require (t.tx.inputs.all fun i => i.ref ≠ thinAir) "null-reference in non-coinbase"
  require (t.tx.inputs.all fun i => i.sig.isSecp) "Non-signature Signature"

/-- `validate_coinbase_transaction_by_itself`; returns the height recorded in the reward -/
def validateCoinbaseByItself (P : Params) (t : CTx) : Except Err Nat :=
  match t.tx.inputs with
  | [i] =>
    if i.ref ≠ thinAir then verr "Coinbase must create its value out of thin air"
    else match i.sig with
      | .coinbase h d =>
        if d.length > P.maxCoinbaseData then verr "Random data > MAX" else .ok h
      | _ => verr "A coinbase transaction should have CoinbaseData"
  | _ => verr "Coinbase transaction should have precisely 1 input"

/-- `validate_block_header_by_itself`; note that the proof of work is checked on the hash
recomputed from the header, not on the cached id -/
def validateHeaderByItself (C : Crypto) (P : Params) (h : Header) (now : Int) : Except Err Unit := do
  require (bytesLt (C.sha256d (encHeader h)) h.summary.target) "hash >= target"
  require (decide ((h.summary.timestamp : Int) ≤ now + P.maxFutureBlockTime)) "Block timestamp in the future"

/-- `validate_no_duplicate_transactions` (set membership: same hash and `__eq__`) -/
def noDuplicateTxs (C : Crypto) : List CTx → Bool
  | [] => true
  | t :: rest => !(rest.any fun t' => t'.id C = t.id C ∧ t'.tx = t.tx) && noDuplicateTxs C rest

def allRefs (txs : List CTx) : List OutRef := txs.flatMap fun t => t.tx.inputs.map (·.ref)

/-- `validate_block_by_itself` -/
def validateBlockByItself (C : Crypto) (P : Params) (b : Block) (now : Int) : Except Err Unit := do
  validateHeaderByItself C P b.header now
  match b.txs with
  | [] => verr "No transactions in block"
  | cb :: rest => do
    require ((encBlock b).length ≤ P.maxBlockSize) "Block > MAX_BLOCK_SIZE"
    let h ← validateCoinbaseByItself P cb
    require (h = b.height) "block.height != coinbase.height"
    forAll (validateTxByItself P) rest
    require (noDuplicateTxs C rest) "Duplicate transaction."
    require (decide (allRefs rest).Nodup) "Duplicate output_reference."
    require (calcMerkleRoot C b.txs = some b.header.summary.merkleRoot) "Incorrect merkle_root_hash"

def signable (t : Tx) : Tx := ⟨t.inputs.map fun i => ⟨i.ref, .signable⟩, t.outputs⟩

/-- `validate_signature_for_spend` -/
def validateSignature (C : Crypto) (i : Input) (prevOut : Output) (t : Tx) : Except Err Unit :=
  match i.sig with
  | .secp s =>
    if C.verify prevOut.pk (encTx (signable t)) s then ok else verr "Wrong signature for claimed output"
  | _ => .error (.other "NotImplementedError: validate on a non-signature")

def validateInputs (C : Crypto) (u : Utxo) (t : Tx) : List Input → Except Err Nat
  | [] => .ok 0
  | i :: rest =>
    match u.get? i.ref with
    | none => verr "input's output_reference does not exist as an unspent out"
    | some o => do
      validateSignature C i o t
      let r ← validateInputs C u t rest
      pure (o.value + r)

/-- `validate_non_coinbase_transaction_in_coinstate` against the unspent set `u` -/
def validateTxInState (C : Crypto) (u : Utxo) (t : CTx) : Except Err Unit := do
  let total ← validateInputs C u t.tx t.tx.inputs
  require (outputsValue t.tx.outputs ≤ total) "Transaction overspending"

/-- `validate_block_summary_in_coinstate` -/
def validateSummaryInState (C : Crypto) (P : Params) (cs : CoinState) (s : Summary) :
    Except Err Unit :=
  match cs.blocks.get? s.prev with
  | none => verr "previous_block_hash unknown"
  | some pb => do
    require (pb.timestamp < s.timestamp) "Timestamps must be strictly increasing."
    let t ← calcTarget C P cs (pb.height + 1) s.timestamp pb
    require (s.target = t) "Block's reported target incorrect"

/-- `validate_coinbase_transaction_in_coinstate` -/
def validateCoinbaseInState (P : Params) (cs : CoinState) (cb : CTx) (b : Block) : Except Err Unit :=
  match cs.blocks.get? b.prev with
  | none => .error (.key "previous block")
  | some pb => do
    require (b.height = pb.height + 1) "Block's reported height incorrect."
    match cs.utxoAt.get? b.prev with
    | none => .error (.key "utxo of parent")
    | some u => do
      let fees ← blockFees u b.txs.tail
      require (decide ((outputsValue cb.tx.outputs : Int) ≤ fees + subsidy P b.height))
        "Transaction overspending (Coinbase)"

/-- `validate_block_in_coinstate` -/
def validateBlockInState (C : Crypto) (P : Params) (cs : CoinState) (b : Block) : Except Err Unit :=
  if (b.height : Int) ≤ P.maxKnownHeight then
    match P.knownHashes.lookup b.height with
    | some h => require (b.id C = h) "No forks allowed before the last checkpoint"
    | none => ok
  else do
    validateSummaryInState C P cs b.header.summary
    let ev ← constructEvidence C P cs b.header.summary b.height b.txs
    require (b.header.evidence = ev) "POW Evidence incorrect"
    match b.txs with
    | [] => .error (.key "transactions[0]")
    | cb :: rest => do
      validateCoinbaseInState P cs cb b
      match cs.utxoAt.get? b.prev with
      | none => .error (.key "utxo of parent")
      | some u => forAll (validateTxInState C u) rest

/-- `CoinState.add_block` (full validation) -/
def addBlock (C : Crypto) (P : Params) (cs : CoinState) (b : Block) (now : Int) :
    Except Err CoinState := do
  validateBlockByItself C P b now
  validateBlockInState C P cs b
  addBlockNoValidation C cs b

/-! ### construction (mining) -/

/-- `construct_coinbase_transaction` -/
def constructCoinbase (P : Params) (height : Nat) (others : List CTx) (u : Utxo) (data : Bytes)
    (minerPk : Bytes) : Except Err CTx := do
  let fees ← blockFees u others
  pure (CTx.fresh ⟨[⟨thinAir, .coinbase height data⟩], [⟨((subsidy P height : Int) + fees).toNat, minerPk⟩]⟩)

/-- `construct_block_pow_evidence_input` (non-genesis) -/
def constructEvidenceInput (C : Crypto) (P : Params) (cs : CoinState) (pool : List CTx)
    (minerPk : Bytes) (timestamp : Nat) (data : Bytes) (nonce : Nat) :
    Except Err (Summary × Nat × List CTx) :=
  match cs.head, cs.current with
  | some hd, some cur =>
    match cs.utxoAt.get? cur with
    | none => .error (.key "utxo of head")
    | some u => do
      let height := hd.height + 1
      let cb ← constructCoinbase P height pool u data minerPk
      let txs := cb :: pool
      match calcMerkleRoot C txs with
      | none => .error (.other "merkle")
      | some root =>
        let target ← calcTarget C P cs height timestamp hd
        pure (⟨height, cur, root, timestamp, target, nonce⟩, height, txs)
  | _, _ => .error (.key "head")

/-- `construct_block_for_mining` -/
def constructBlock (C : Crypto) (P : Params) (cs : CoinState) (pool : List CTx) (minerPk : Bytes)
    (timestamp : Nat) (data : Bytes) (nonce : Nat) : Except Err Block := do
  let (s, height, txs) ← constructEvidenceInput C P cs pool minerPk timestamp data nonce
  let ev ← constructEvidence C P cs s height txs
  pure (Block.fresh ⟨s, ev⟩ txs)

end Model

import Model.Basic

/-!
Model.Params — the consensus / networking constants as a structure, and the closed integer
functions of consensus.py / pow.py / manager.py / remote_peer.py.

Theorems quantify over all `Params` meeting the side conditions they name; the production
instance `Gen.params` is regenerated from /repo on every run.
-/

namespace Model

structure Params where
  maxSashimi : Nat
  maxBlockSize : Nat
  maxFutureBlockTime : Nat
  maxCoinbaseData : Nat
  retargetInterval : Nat
  retargetTimespan : Nat
  halvingInterval : Nat
  initialSubsidy : Nat
  sampleCount : Nat
  sampleSize : Nat
  /-- `MAX_KNOWN_HASH_HEIGHT` (−1: no checkpoint horizon) -/
  maxKnownHeight : Int
  /-- `KNOWN_HASHES` -/
  knownHashes : List (Nat × Bytes)
  /-- networking -/
  inventorySize : Nat
  ibdValidationSkip : Nat
  maxMessageSize : Nat
  timeToSecondAttempt : Nat
  maxTimeBetweenAttempts : Nat
  maxConnectionAttempts : Nat
  getPeersInterval : Nat
  peersFileMax : Nat
deriving Repr

/-- `get_block_subsidy` -/
def subsidy (P : Params) (height : Nat) : Nat :=
  let halvings := height / P.halvingInterval
  if halvings ≥ 64 then 0 else P.initialSubsidy / 2 ^ halvings

/-- `validate_sashimi_range`: `0 < value <= MAX_SASHIMI` -/
def sashimiInRange (P : Params) (v : Nat) : Bool := decide (0 < v ∧ v ≤ P.maxSashimi)

/-- `calculate_new_target` (integer core; the Python works on 32-byte big-endian strings) -/
def newTargetNat (P : Params) (prev : Nat) (timePassed : Nat) : Nat :=
  let result := prev * timePassed / P.retargetTimespan
  if result > 2 ^ 256 - 1 then 2 ^ 256 - 1 else result

def newTarget (P : Params) (prev : Bytes) (timePassed : Nat) : Bytes :=
  natToBytes 32 (newTargetNat P (bytesToNat prev) timePassed)

/-- `select_block_height`: first 8 bytes of the hash as a number, modulo the height -/
def selectBlockHeight (hash : Bytes) (currentHeight : Nat) : Nat :=
  bytesToNat (hash.take 8) % currentHeight

/-- `get_recent_block_heights`: `h, h-1, …, h-9, h-16, h-25, …, h-63²`, those that are ≥ 0 -/
def oldness : List Nat := List.range 10 ++ (List.range 60).map (fun x => (x + 4) ^ 2)

def recentHeights (h : Nat) : List Nat :=
  (oldness.filter (fun o => o ≤ h)).map (fun o => h - o)

/-- `DisconnectedRemotePeer.is_time_to_connect` -/
def isTimeToConnect (P : Params) (banScore : Nat) (lastAttempt : Option Int) (now : Int) : Bool :=
  if banScore > P.maxConnectionAttempts then false
  else
    let timeBetween := min (P.timeToSecondAttempt * 2 ^ banScore) P.maxTimeBetweenAttempts
    match lastAttempt with
    | none => true
    | some t => decide (now - t ≥ (timeBetween : Int))

end Model

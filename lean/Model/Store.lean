import Model.Consensus

/-!
Model.Store — skepticoin/blockstore.py as a relational model.

Four tables with their keys; `insert or ignore`; immediate foreign keys; explicit
BEGIN … COMMIT (an exception between them leaves the SQL transaction open, and every later
BEGIN fails). The row order of an unordered SELECT is taken to be insertion order (rowid order —
an assumption about SQLite recorded in the trusted base); `ORDER BY height` is modelled as a
stable sort of the insertion order by height.

The `transaction_inputs` / `transaction_outputs` tables are keyed by (transaction hash, seq) with
insert-or-ignore: the first transaction written under a hash wins. They are merged into one map
from transaction hash to content (exact unless two different transactions share a hash).
-/

namespace Model

structure ChainRow where
  id : Bytes
  header : Header
deriving Repr, DecidableEq

structure Store where
  chain : List ChainRow                 -- table `chain`, insertion order, key block_hash
  locator : List (Bytes × Bytes)        -- table `transaction_locator` (transaction_hash, block_hash), key transaction_hash
  content : List (Bytes × Tx)           -- inputs + outputs tables: transaction_hash ↦ inputs / outputs
  txnOpen : Bool                        -- a BEGIN without COMMIT: "cannot start a transaction within a transaction"
deriving Repr

/-- a new store: the constructor writes the genesis block -/
def Store.empty : Store := ⟨[], [], [], false⟩

def Store.hasBlock (s : Store) (id : Bytes) : Bool := s.chain.any (·.id = id)

/-- the referenced output exists in `transaction_outputs` -/
def Store.hasOutput (content : List (Bytes × Tx)) (r : OutRef) : Bool :=
  content.any fun (h, t) => h = r.hash && r.index < t.outputs.length

/-- `insert or ignore into chain`, row by row; a parent that is neither NULL nor present violates
the foreign key (IntegrityError) -/
def insertChain : List ChainRow → List Block → (Crypto) → Except Unit (List ChainRow)
  | rows, [], _ => .ok rows
  | rows, b :: rest, C =>
    if rows.any (·.id = b.id C) then insertChain rows rest C
    else if b.prev ≠ zeros 32 ∧ !(rows.any (·.id = b.prev)) then .error ()
    else insertChain (rows ++ [⟨b.id C, b.header⟩]) rest C

/-- `insert or ignore into transaction_locator` — the transaction hash is the key: a transaction
already recorded for another block is ignored -/
def insertLocator (C : Crypto) : List (Bytes × Bytes) → List Block → List (Bytes × Bytes)
  | loc, [] => loc
  | loc, b :: rest =>
    let loc' := b.txs.foldl (fun l t =>
      let h := C.sha256d (encTx t.tx)
      if l.any (·.1 = h) then l else l ++ [(h, b.id C)]) loc
    insertLocator C loc' rest

def insertContent (C : Crypto) : List (Bytes × Tx) → List Block → List (Bytes × Tx)
  | c, [] => c
  | c, b :: rest =>
    let c' := b.txs.foldl (fun l t =>
      let h := C.sha256d (encTx t.tx)
      if l.any (·.1 = h) then l else l ++ [(h, t.tx)]) c
    insertContent C c' rest

/-- every non-NULL spent reference of the written blocks must exist as an output row -/
def inputsForeignKeyOk (content : List (Bytes × Tx)) (blocks : List Block) : Bool :=
  blocks.all fun b => b.txs.all fun t => t.tx.inputs.all fun i =>
    i.ref.hash = zeros 32 || Store.hasOutput content i.ref

/-- `write_blocks_to_disk`: `none` = an exception escaped (and the SQL transaction stays open) -/
def Store.write (C : Crypto) (s : Store) (blocks : List Block) : Store × Bool :=
  if s.txnOpen then (s, false)                       -- BEGIN fails
  else match insertChain s.chain blocks C with
    | .error _ => ({ s with txnOpen := true }, false)
    | .ok chain =>
      let locator := insertLocator C s.locator blocks
      let content := insertContent C s.content blocks
      if inputsForeignKeyOk content blocks then (⟨chain, locator, content, false⟩, true)
      else (⟨chain, locator, content, true⟩, false)

/-- Python's `{k: list(g) for k, g in groupby(items, key)}`: consecutive runs; a later run with
the same key replaces the earlier one -/
def groupRuns : List (Bytes × Bytes) → List (Bytes × List Bytes)
  | [] => []
  | (h, k) :: rest =>
    match groupRuns rest with
    | (k', hs) :: more => if k' = k then (k, h :: hs) :: more else (k, [h]) :: (k', hs) :: more
    | [] => [(k, [h])]

/-- the dict built from the runs: for each block hash the *last* run -/
def lastRun (runs : List (Bytes × List Bytes)) (k : Bytes) : Option (List Bytes) :=
  ((runs.reverse.find? (·.1 = k)).map (·.2))

/-- insertion into a list sorted by height, after all entries of the same height (stable) -/
def insertByHeight (r : ChainRow) : List ChainRow → List ChainRow
  | [] => [r]
  | x :: rest => if r.header.summary.height < x.header.summary.height then r :: x :: rest
                 else x :: insertByHeight r rest

def sortByHeight (rows : List ChainRow) : List ChainRow := rows.foldl (fun acc r => insertByHeight r acc) []

/-- `read_blocks_from_disk`: blocks in height order, each with the transactions the locator
assigns to it (in locator order) and the ids cached from the rows -/
def Store.read (s : Store) : List Block :=
  let runs := groupRuns s.locator
  (sortByHeight s.chain).filterMap fun row =>
    match lastRun runs row.id with
    | none => none
    | some hs =>
      some ⟨row.header, hs.filterMap fun h => (s.content.find? (·.1 = h)).map fun (_, t) => ⟨t, some h⟩, some row.id⟩

/-- a sequence of flushes -/
def Store.writeAll (C : Crypto) (s : Store) : List (List Block) → Store × Bool
  | [] => (s, true)
  | batch :: rest =>
    match s.write C batch with
    | (s', true) => Store.writeAll C s' rest
    | (s', false) => (s', false)

end Model

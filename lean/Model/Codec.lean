import Model.Basic

/-!
Model.Codec — stream encoders / decoders as values, with the combinators the Python
`Serializable` classes are built from (`safe_read(f, n)`, `struct.pack(">I", …)`, a version or
type byte, `stream_serialize_list`, a one-byte length prefix).

`dec bs = some (a, rest)` models `X.stream_deserialize(f)` returning `a` with the stream
positioned at `rest`; `none` models any exception raised while decoding.
-/

namespace Model

structure Codec (α : Type) where
  enc : α → Bytes
  dec : Bytes → Option (α × Bytes)

namespace Codec

/-- `safe_read(f, n)` -/
def fixed (n : Nat) : Codec Bytes where
  enc b := b
  dec bs := if n ≤ bs.length then some (bs.take n, bs.drop n) else none

/-- `struct.pack` / `struct.unpack` of an unsigned big-endian integer of `n` bytes -/
def be (n : Nat) : Codec Nat where
  enc x := natToBytes n x
  dec bs := if n ≤ bs.length then some (bytesToNat (bs.take n), bs.drop n) else none

def vlq : Codec Nat where
  enc := encodeVlq
  dec := decodeVlq

/-- a constant that must be present (version byte, type indicator):
`if safe_read(f, len(c)) != c: raise` -/
def const (c : Bytes) : Codec Unit where
  enc _ := c
  dec bs := if c.length ≤ bs.length ∧ bs.take c.length = c then some ((), bs.drop c.length) else none

/-- `n` bytes that are written as `fill` and skipped when read (reserved space, ignored
version bytes of the wire protocol) -/
def skip (fill : Bytes) : Codec Unit where
  enc _ := fill
  dec bs := if fill.length ≤ bs.length then some ((), bs.drop fill.length) else none

def seq (c₁ : Codec α) (c₂ : Codec β) : Codec (α × β) where
  enc p := c₁.enc p.1 ++ c₂.enc p.2
  dec bs := match c₁.dec bs with
    | none => none
    | some (a, r) => match c₂.dec r with
      | none => none
      | some (b, r') => some ((a, b), r')

def iso (f : α → β) (g : β → α) (c : Codec α) : Codec β where
  enc b := c.enc (g b)
  dec bs := match c.dec bs with
    | none => none
    | some (a, r) => some (f a, r)

/-- `n` consecutive items -/
def decN (c : Codec α) : Nat → Bytes → Option (List α × Bytes)
  | 0, bs => some ([], bs)
  | n + 1, bs => match c.dec bs with
    | none => none
    | some (a, r) => match decN c n r with
      | none => none
      | some (as, r') => some (a :: as, r')

def encAll (c : Codec α) (l : List α) : Bytes := l.flatMap c.enc

/-- `stream_serialize_list` / `stream_deserialize_list` -/
def list (c : Codec α) : Codec (List α) where
  enc l := encodeVlq l.length ++ encAll c l
  dec bs := match decodeVlq bs with
    | none => none
    | some (n, r) => decN c n r

/-- a byte string with a one-byte length prefix (`struct.pack("B", len(x)) + x`) -/
def lenBytes1 : Codec Bytes where
  enc b := UInt8.ofNat b.length :: b
  dec bs := match bs with
    | [] => none
    | l :: r => if l.toNat ≤ r.length then some (r.take l.toNat, r.drop l.toNat) else none

/-- `X.deserialize(bytes_)`: decode from the start, ignore what is left (BytesIO semantics) -/
def decodeAll (c : Codec α) (bs : Bytes) : Option α := (c.dec bs).map (·.1)

end Codec
end Model

import Model.Basic

/-! Model.Merkle — skepticoin/merkletree.py. `h` is `sha256d`. -/

namespace Model

/-- one level: `for chunk in _chunks(l, 2)`: pairs are hashed together, an odd last entry is
promoted unchanged (not duplicated, unlike Bitcoin) -/
def pairUp (h : Bytes → Bytes) : List Bytes → List Bytes
  | a :: b :: rest => h (a ++ b) :: pairUp h rest
  | [a] => [a]
  | [] => []

/-- `get_merkle_root` with explicit fuel. On the empty list the Python recurses forever
(`RecursionError`); the model returns `none`. -/
def merkleRootFuel (h : Bytes → Bytes) : Nat → List Bytes → Option Bytes
  | 0, _ => none
  | _ + 1, [x] => some x
  | f + 1, l => merkleRootFuel h f (pairUp h l)

def merkleRoot (h : Bytes → Bytes) (l : List Bytes) : Option Bytes := merkleRootFuel h l.length l

inductive MNode where
  | leaf (index : Nat) (value : Bytes)
  | node (index : Nat) (l r : MNode)
deriving Repr, DecidableEq

def MNode.index : MNode → Nat
  | .leaf i _ => i
  | .node i _ _ => i

def MNode.hash (h : Bytes → Bytes) : MNode → Bytes
  | .leaf _ v => v
  | .node _ l r => h (l.hash h ++ r.hash h)

def pairUpNodes : List MNode → List MNode
  | a :: b :: rest => .node a.index a b :: pairUpNodes rest
  | [a] => [a]
  | [] => []

def merkleTreeFuel : Nat → List MNode → Option MNode
  | 0, _ => none
  | _ + 1, [x] => some x
  | f + 1, l => merkleTreeFuel f (pairUpNodes l)

def leavesFrom : Nat → List Bytes → List MNode
  | _, [] => []
  | i, v :: rest => .leaf i v :: leavesFrom (i + 1) rest

/-- `get_merkle_tree` -/
def merkleTree (l : List Bytes) : Option MNode := merkleTreeFuel l.length (leavesFrom 0 l)

/-- `get_proof`: keep the path to the leaf of interest, collapse every sibling to its hash -/
def getProof (h : Bytes → Bytes) : MNode → Nat → MNode
  | .leaf i v, _ => .leaf i v
  | .node idx l r, i =>
    if i ≥ r.index then .node idx (.leaf l.index (l.hash h)) (getProof h r i)
    else .node idx (getProof h l i) (.leaf r.index (r.hash h))

/-- the leaves of a (proof) tree, left to right -/
def MNode.leaves : MNode → List (Nat × Bytes)
  | .leaf i v => [(i, v)]
  | .node _ l r => l.leaves ++ r.leaves

end Model

import Model.Basic

import Model.Basic
import Model.Codec
import Model.Types

import Proofs.Vlq
import Proofs.Codec
import Proofs.Types
import Proofs.Framing

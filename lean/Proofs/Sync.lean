import Model.Node
import Proofs.Map
import Proofs.Chain
import Proofs.NodeLemmas

/-! Lemmas used by `Props/C10.lean`: the locator heights, `mapM` in `Except`, the inventory reply,
and a sharper case analysis of `handleBlockReceived` that keeps track of the outboxes themselves. -/

namespace Model

/-! ### the locator -/

theorem oldness_pairwise : oldness.Pairwise (· < ·) := by decide

theorem oldness_head : oldness.head? = some 0 := by decide

theorem mem_oldness_dense (k : Nat) (hk : k < 10) : k ∈ oldness := by
  unfold oldness
  exact List.mem_append_left _ (List.mem_range.mpr hk)

theorem mem_oldness_sparse (x : Nat) (hx : 4 ≤ x) (hx' : x < 64) : x ^ 2 ∈ oldness := by
  unfold oldness
  apply List.mem_append_right
  rw [List.mem_map]
  refine ⟨x - 4, List.mem_range.mpr (by omega), ?_⟩
  have : x - 4 + 4 = x := by omega
  rw [this]

theorem mem_recentHeights (h o : Nat) (ho : o ∈ oldness) (hle : o ≤ h) : h - o ∈ recentHeights h := by
  unfold recentHeights
  rw [List.mem_map]
  exact ⟨o, List.mem_filter.mpr ⟨ho, by simpa using hle⟩, rfl⟩

theorem recentHeights_le (h x : Nat) (hx : x ∈ recentHeights h) : x ≤ h := by
  unfold recentHeights at hx
  rw [List.mem_map] at hx
  obtain ⟨o, _, rfl⟩ := hx
  omega

theorem recentHeights_head (h : Nat) : (recentHeights h).head? = some h := by
  unfold recentHeights
  have : oldness = 0 :: oldness.tail := by decide
  rw [this]
  simp

theorem recentHeights_pairwise (h : Nat) : (recentHeights h).Pairwise (· > ·) := by
  unfold recentHeights
  rw [List.pairwise_map]
  have hp : (oldness.filter (fun o => o ≤ h)).Pairwise (· < ·) := oldness_pairwise.filter _
  refine hp.imp_of_mem ?_
  intro a b ha hb hab
  have ha' : a ≤ h := by simpa using (List.mem_filter.mp ha).2
  have hb' : b ≤ h := by simpa using (List.mem_filter.mp hb).2
  show h - a > h - b
  omega

/-! ### `mapM` in `Except` -/

theorem mapM_except_ok {ε α β : Type} (f : α → Except ε β) : ∀ (l : List α) (ys : List β),
    l.mapM f = .ok ys →
    ys.length = l.length ∧ ∀ k (hk : k < ys.length) (hk' : k < l.length), f l[k] = .ok ys[k] := by
  intro l
  induction l with
  | nil =>
    intro ys h
    rw [List.mapM_nil] at h
    cases h
    exact ⟨rfl, fun k hk => absurd hk (Nat.not_lt_zero k)⟩
  | cons a rest ih =>
    intro ys h
    rw [List.mapM_cons] at h
    cases hfa : f a with
    | error e => rw [hfa] at h; cases h
    | ok y =>
      cases hr : rest.mapM f with
      | error e => rw [hfa, hr] at h; cases h
      | ok ys' =>
        rw [hfa, hr] at h
        cases h
        obtain ⟨hl, hk⟩ := ih ys' hr
        refine ⟨by simp [hl], ?_⟩
        intro k hk1 hk2
        cases k with
        | zero => simpa using hfa
        | succ k =>
          simp only [List.getElem_cons_succ]
          exact hk k (by simpa using hk1) (by simpa using hk2)

/-! ### the inventory reply -/

theorem inventoryReply_ok (C : Crypto) (P : Params) (cs : CoinState) (loc ids : List Bytes)
    (h : inventoryReply C P cs loc = .ok ids) :
    ∃ index hd, cs.current.bind cs.byHeightAt.get? = some index ∧ cs.head = some hd ∧
      (((inventoryReply.scan cs index loc = none ∨ inventoryReply.scan cs index loc = some none) ∧ ids = []) ∨
       ∃ start, inventoryReply.scan cs index loc = some (some start) ∧
         ids.length = min (start + P.inventorySize) (hd.height + 1) - start ∧
         ∀ k (hk : k < ids.length), ∃ blk, index.get? (start + k) = some blk ∧ ids[k] = blk.id C) := by
  unfold inventoryReply at h
  split at h
  · rename_i index hd hidx hhd
    refine ⟨index, hd, hidx, hhd, ?_⟩
    split at h
    · rename_i hs
      cases h
      exact Or.inl ⟨Or.inl hs, rfl⟩
    · rename_i hs
      cases h
      exact Or.inl ⟨Or.inr hs, rfl⟩
    · rename_i start hs
      right
      obtain ⟨hl, hk⟩ := mapM_except_ok _ _ _ h
      rw [List.length_range'] at hl
      refine ⟨start, hs, hl, ?_⟩
      intro k hk1
      have h2 := hk k hk1 (by rw [List.length_range']; omega)
      rw [List.getElem_range'] at h2
      simp only [Nat.one_mul] at h2
      cases hg : index.get? (start + k) with
      | none => rw [hg] at h2; cases h2
      | some blk =>
        rw [hg] at h2
        exact ⟨blk, rfl, (Except.ok.inj h2).symm⟩
  · cases h

theorem scan_unknown (cs : CoinState) (index : Map Nat Block) : ∀ (loc : List Bytes),
    (∀ x ∈ loc, cs.blocks.get? x = none) → inventoryReply.scan cs index loc = some (some 1) := by
  intro loc
  induction loc with
  | nil => intro _; rfl
  | cons a rest ih =>
    intro h
    unfold inventoryReply.scan
    rw [h a (List.mem_cons_self ..)]
    exact ih (fun x hx => h x (List.mem_cons_of_mem _ hx))

/-! ### `handleBlockReceived`: the outboxes themselves -/

theorem broadcast_outboxes (n : Node) (o : Out) :
    (n.broadcast o).peers.map (·.outbox) =
      n.peers.map (fun p => if p.active then p.outbox ++ [o] else p.outbox) := by
  simp only [Node.broadcast, List.map_map]
  apply List.map_congr_left
  intro p _
  simp only [Function.comp]
  split <;> rfl

/-- either every queue is exactly as it was, or the block was unknown, has been applied to the
served state, and every greeted peer's queue got one unsolicited `Data(block)` appended -/
theorem hbr_outboxes (C : Crypto) (P : Params) (n : Node) (c r : Nat) (b : Block) (now : Int) :
    (handleBlockReceived C P n c r b now).1.peers.map (·.outbox) = n.peers.map (·.outbox) ∨
    (n.mgr.coinstate.blocks.contains (b.id C) = false ∧
      ∃ changed, addBlockNoValidation C n.mgr.coinstate b = .ok changed ∧
        (handleBlockReceived C P n c r b now).1.mgr.coinstate = changed ∧
        (handleBlockReceived C P n c r b now).1.peers.map (·.outbox) =
          n.peers.map (fun p => if p.active then p.outbox ++ [Out.block b 0] else p.outbox)) := by
  have hup : (n.updatePeer c fun p =>
      { p with pendingInventory := p.pendingInventory.erase (b.id C) }).peers.map (·.outbox)
      = n.peers.map (·.outbox) := updatePeer_map n c _ _ (fun _ => rfl)
  unfold handleBlockReceived
  simp only []
  split
  · left; exact hup
  · split
    · left; exact hup
    · split
      · left; exact hup
      · split
        · left; exact hup
        · rename_i hk _ _ u hbi _ changed hstep
          repeat' split
          all_goals first
            | (left; exact hup)
            | (right; exact ⟨by simpa using hk, changed, hstep, rfl,
                (broadcast_outboxes _ _).trans (mapIdx_ite_map _ _ _ _ (fun _ => rfl))⟩)
            | (exfalso; contradiction)

/-! ### counting unsolicited relays of one block -/

/-- an unsolicited `Data(block)` for the block with id `x` -/
def isRelayOf (C : Crypto) (x : Bytes) : Out → Bool
  | .block b r => b.id C = x && r = 0
  | _ => false

def relayCnt (C : Crypto) (x : Bytes) (outbox : List Out) : Nat :=
  (outbox.filter (isRelayOf C x)).length

theorem relayCnt_append (C : Crypto) (x : Bytes) (o : List Out) (m : Out) :
    relayCnt C x (o ++ [m]) = relayCnt C x o + (if isRelayOf C x m then 1 else 0) := by
  unfold relayCnt
  rw [List.filter_append, List.length_append]
  congr 1
  by_cases h : isRelayOf C x m = true <;> simp [h]

/-- one unsolicited delivery keeps "every queue holds at most one relay of `x`, and none while `x`
is unknown" -/
theorem hbr_relay_step (C : Crypto) (P : Params) (n : Node) (c : Nat) (b : Block) (now : Int)
    (hlv : n.mgr.lastValid = some n.mgr.coinstate) (hw : n.wbuf = [])
    (hclean : cleanupPool C n.mgr.coinstate n.mgr.pool = n.mgr.pool) (x : Bytes)
    (h2 : ∀ p ∈ n.peers, relayCnt C x p.outbox ≤ 1)
    (h3 : n.mgr.coinstate.blocks.contains x = false → ∀ p ∈ n.peers, relayCnt C x p.outbox = 0) :
    (∀ p ∈ (handleBlockReceived C P n c 0 b now).1.peers, relayCnt C x p.outbox ≤ 1) ∧
    ((handleBlockReceived C P n c 0 b now).1.mgr.coinstate.blocks.contains x = false →
      ∀ p ∈ (handleBlockReceived C P n c 0 b now).1.peers, relayCnt C x p.outbox = 0) := by
  have tomap : ∀ (Q : List Out → Prop) (l : List PeerSt),
      (∀ p ∈ l, Q p.outbox) ↔ ∀ o ∈ l.map (·.outbox), Q o := by
    intro Q l
    simp only [List.mem_map, forall_exists_index, and_imp, forall_apply_eq_imp_iff₂]
  have hmono : (handleBlockReceived C P n c 0 b now).1.mgr.coinstate.blocks.contains x = false →
      n.mgr.coinstate.blocks.contains x = false := by
    intro hc
    rcases hbr_cases C P n c b now hlv hw hclean with hu | ⟨_, changed, hd, ha⟩
    · rw [hu.1] at hc; exact hc
    · rw [ha.mgr] at hc
      have h1 := add_ok_contains C ha.step x
      simp only [setCoinstate] at hc
      rw [hc] at h1
      cases hn : n.mgr.coinstate.blocks.contains x with
      | false => rfl
      | true => rw [hn] at h1; simp at h1
  rcases hbr_outboxes C P n c 0 b now with hA | ⟨hk, changed, hstep, hcs, hB⟩
  · rw [tomap (fun o => relayCnt C x o ≤ 1), tomap (fun o => relayCnt C x o = 0), hA,
      ← tomap (fun o => relayCnt C x o ≤ 1), ← tomap (fun o => relayCnt C x o = 0)]
    exact ⟨h2, fun hc => h3 (hmono hc)⟩
  · rw [tomap (fun o => relayCnt C x o ≤ 1), tomap (fun o => relayCnt C x o = 0), hB, hcs]
    have hcc := add_ok_contains C hstep x
    by_cases hx : b.id C = x
    · rw [hx] at hk
      have h0 := h3 hk
      constructor
      · intro o ho
        rw [List.mem_map] at ho
        obtain ⟨p, hp, rfl⟩ := ho
        have := h0 p hp
        split
        · rw [relayCnt_append, this]
          split <;> omega
        · omega
      · intro hc
        rw [hc] at hcc
        simp [hx] at hcc
    · have hnr : isRelayOf C x (Out.block b 0) = false := by simp [isRelayOf, hx]
      constructor
      · intro o ho
        rw [List.mem_map] at ho
        obtain ⟨p, hp, rfl⟩ := ho
        have := h2 p hp
        split
        · rw [relayCnt_append, hnr]
          simpa using this
        · exact this
      · intro hc o ho
        rw [hc] at hcc
        have hn : n.mgr.coinstate.blocks.contains x = false := by
          cases hn : n.mgr.coinstate.blocks.contains x with
          | false => rfl
          | true => rw [hn] at hcc; simp at hcc
        rw [List.mem_map] at ho
        obtain ⟨p, hp, rfl⟩ := ho
        have := h3 hn p hp
        split
        · rw [relayCnt_append, hnr]
          simpa using this
        · exact this

end Model

import Model.Store

/-! Lemmas about the relational block store of `Model.Store`: what a sequence of flushes of a
history without shared transaction ids leaves in the tables, and what `Store.read` makes of it. -/

namespace Model
namespace StoreL

/-! ### generic list facts -/

theorem find?_of_nodup_fst {α β : Type} [DecidableEq α] (l : List (α × β)) (a : α) (b : β)
    (hn : (l.map (·.1)).Nodup) (hm : (a, b) ∈ l) :
    l.find? (fun x => decide (x.1 = a)) = some (a, b) := by
  induction l with
  | nil => cases hm
  | cons p t ih =>
    obtain ⟨a', b'⟩ := p
    simp only [List.map_cons, List.nodup_cons] at hn
    by_cases h : a' = a
    · subst h
      rcases List.mem_cons.1 hm with h | h
      · simp [← h]
      · exact absurd (List.mem_map.2 ⟨_, h, rfl⟩) hn.1
    · rcases List.mem_cons.1 hm with h' | h'
      · exact absurd (congrArg Prod.fst h').symm h
      · simp [h, ih hn.2 h']

theorem foldl_insert_fresh {α β γ : Type} [DecidableEq α] (key : γ → α) (val : γ → β)
    (xs : List γ) (l : List (α × β)) (hn : (l.map (·.1) ++ xs.map key).Nodup) :
    xs.foldl (fun l t => if l.any (fun x => decide (x.1 = key t)) then l else l ++ [(key t, val t)]) l
      = l ++ xs.map (fun t => (key t, val t)) := by
  induction xs generalizing l with
  | nil => simp
  | cons x xs ih =>
    have hx : l.any (fun y => decide (y.1 = key x)) = false := by
      rw [List.any_eq_false]
      intro y hy hyx
      have := (List.nodup_append.1 hn).2.2 y.1 (List.mem_map.2 ⟨y, hy, rfl⟩) (key x) (by simp)
      exact this (by simpa using hyx)
    simp only [List.foldl_cons, hx]
    rw [show (if false = true then l else l ++ [(key x, val x)]) = l ++ [(key x, val x)] from rfl]
    rw [ih]
    · simp
    · simpa using hn

theorem filterMap_eq_map_of_forall {α β : Type} (f : α → Option β) (g : α → β) (l : List α)
    (h : ∀ x ∈ l, f x = some (g x)) : l.filterMap f = l.map g := by
  induction l with
  | nil => rfl
  | cons x t ih =>
    rw [List.filterMap_cons, h x (by simp)]
    simp [ih (fun y hy => h y (List.mem_cons_of_mem _ hy))]

/-! ### the tables after writing the blocks `w` -/

variable (C : Crypto)

def rowOf (b : Block) : ChainRow := ⟨b.id C, b.header⟩
def hashesOf (b : Block) : List Bytes := b.txs.map fun t => C.sha256d (encTx t.tx)
def locOf (b : Block) : List (Bytes × Bytes) := b.txs.map fun t => (C.sha256d (encTx t.tx), b.id C)
def contOf (b : Block) : List (Bytes × Tx) := b.txs.map fun t => (C.sha256d (encTx t.tx), t.tx)

/-- the store that holds exactly the blocks `w`, written in this order -/
def storeOf (w : List Block) : Store :=
  ⟨w.map (rowOf C), w.flatMap (locOf C), w.flatMap (contOf C), false⟩

theorem locOf_fst (b : Block) : (locOf C b).map (·.1) = hashesOf C b := by
  simp [locOf, hashesOf, List.map_map, Function.comp_def]

theorem contOf_fst (b : Block) : (contOf C b).map (·.1) = hashesOf C b := by
  simp [contOf, hashesOf, List.map_map, Function.comp_def]

theorem flatMap_locOf_fst (w : List Block) :
    (w.flatMap (locOf C)).map (·.1) = w.flatMap (hashesOf C) := by
  induction w with
  | nil => rfl
  | cons b t ih => simp [List.flatMap_cons, locOf_fst, ih]

theorem flatMap_contOf_fst (w : List Block) :
    (w.flatMap (contOf C)).map (·.1) = w.flatMap (hashesOf C) := by
  induction w with
  | nil => rfl
  | cons b t ih => simp [List.flatMap_cons, contOf_fst, ih]

theorem insertLocator_fresh (blocks : List Block) (loc : List (Bytes × Bytes))
    (hn : (loc.map (·.1) ++ blocks.flatMap (hashesOf C)).Nodup) :
    insertLocator C loc blocks = loc ++ blocks.flatMap (locOf C) := by
  induction blocks generalizing loc with
  | nil => simp [insertLocator]
  | cons b rest ih =>
    have hfold : b.txs.foldl (fun l t =>
        let h := C.sha256d (encTx t.tx)
        if l.any (·.1 = h) then l else l ++ [(h, b.id C)]) loc = loc ++ locOf C b := by
      refine foldl_insert_fresh (fun t : CTx => C.sha256d (encTx t.tx)) (fun _ => b.id C) b.txs loc ?_
      rw [List.flatMap_cons, ← List.append_assoc] at hn
      exact (List.nodup_append.1 hn).1
    rw [insertLocator]
    simp only [hfold]
    rw [ih]
    · simp [List.flatMap_cons]
    · simpa [List.flatMap_cons, locOf_fst] using hn

theorem insertContent_fresh (blocks : List Block) (c : List (Bytes × Tx))
    (hn : (c.map (·.1) ++ blocks.flatMap (hashesOf C)).Nodup) :
    insertContent C c blocks = c ++ blocks.flatMap (contOf C) := by
  induction blocks generalizing c with
  | nil => simp [insertContent]
  | cons b rest ih =>
    have hfold : b.txs.foldl (fun l t =>
        let h := C.sha256d (encTx t.tx)
        if l.any (·.1 = h) then l else l ++ [(h, t.tx)]) c = c ++ contOf C b := by
      refine foldl_insert_fresh (fun t : CTx => C.sha256d (encTx t.tx)) (fun t => t.tx) b.txs c ?_
      rw [List.flatMap_cons, ← List.append_assoc] at hn
      exact (List.nodup_append.1 hn).1
    rw [insertContent]
    simp only [hfold]
    rw [ih]
    · simp [List.flatMap_cons]
    · simpa [List.flatMap_cons, contOf_fst] using hn

theorem insertChain_fresh (blocks : List Block) (rows : List ChainRow)
    (hn : (rows.map (·.id) ++ blocks.map (·.id C)).Nodup)
    (hp : ∀ pre b post, blocks = pre ++ b :: post →
      b.prev = zeros 32 ∨ b.prev ∈ rows.map (·.id) ++ pre.map (·.id C)) :
    insertChain rows blocks C = .ok (rows ++ blocks.map (rowOf C)) := by
  induction blocks generalizing rows with
  | nil => simp [insertChain]
  | cons b rest ih =>
    have hfresh : rows.any (fun r => decide (r.id = b.id C)) = false := by
      rw [List.any_eq_false]
      intro r hr hrb
      have := (List.nodup_append.1 hn).2.2 r.id (List.mem_map.2 ⟨r, hr, rfl⟩) (b.id C) (by simp)
      exact this (by simpa using hrb)
    have hparent : ¬ (b.prev ≠ zeros 32 ∧ (!(rows.any (fun r => decide (r.id = b.prev)))) = true) := by
      rintro ⟨h0, hnot⟩
      rcases hp [] b rest rfl with h | h
      · exact h0 h
      · simp only [List.map_nil, List.append_nil, List.mem_map] at h
        obtain ⟨r, hr, hrid⟩ := h
        have : rows.any (fun r => decide (r.id = b.prev)) = true :=
          List.any_eq_true.2 ⟨r, hr, by simpa using hrid⟩
        simp [this] at hnot
    rw [insertChain]
    simp only [hfresh, hparent]
    rw [show (if false = true then insertChain rows rest C
          else if False then (Except.error () : Except Unit (List ChainRow))
          else insertChain (rows ++ [⟨b.id C, b.header⟩]) rest C)
        = insertChain (rows ++ [⟨b.id C, b.header⟩]) rest C from by simp]
    rw [ih]
    · simp [rowOf]
    · simpa using hn
    · intro pre b' post hsplit
      rcases hp (b :: pre) b' post (by rw [hsplit]; rfl) with h | h
      · exact Or.inl h
      · refine Or.inr ?_
        simpa using h

theorem inputsForeignKeyOk_of (w blocks : List Block)
    (h : ∀ b ∈ blocks, ∀ t ∈ b.txs, ∀ i ∈ t.tx.inputs, i.ref.hash = zeros 32 ∨
      ∃ b' ∈ w, ∃ t' ∈ b'.txs, C.sha256d (encTx t'.tx) = i.ref.hash ∧ i.ref.index < t'.tx.outputs.length) :
    inputsForeignKeyOk (w.flatMap (contOf C)) blocks = true := by
  unfold inputsForeignKeyOk
  rw [List.all_eq_true]
  intro b hb
  rw [List.all_eq_true]
  intro t ht
  rw [List.all_eq_true]
  intro i hi
  rcases h b hb t ht i hi with h0 | ⟨b', hb', t', ht', hh, hidx⟩
  · simp [h0]
  · rw [Bool.or_eq_true]
    right
    unfold Store.hasOutput
    rw [List.any_eq_true]
    refine ⟨(C.sha256d (encTx t'.tx), t'.tx), ?_, ?_⟩
    · exact List.mem_flatMap.2 ⟨b', hb', List.mem_map.2 ⟨t', ht', rfl⟩⟩
    · simp [hh, hidx]

/-- one flush onto a store holding `w` -/
theorem write_storeOf (w batch : List Block)
    (hids : ((w ++ batch).map (·.id C)).Nodup)
    (hpar : ∀ pre b post, w ++ batch = pre ++ b :: post →
      b.prev = zeros 32 ∨ ∃ p ∈ pre, p.id C = b.prev)
    (hrefs : ∀ b ∈ batch, ∀ t ∈ b.txs, ∀ i ∈ t.tx.inputs, i.ref.hash = zeros 32 ∨
      ∃ b' ∈ w ++ batch, ∃ t' ∈ b'.txs, C.sha256d (encTx t'.tx) = i.ref.hash ∧ i.ref.index < t'.tx.outputs.length)
    (hshared : ((w ++ batch).flatMap (hashesOf C)).Nodup) :
    (storeOf C w).write C batch = (storeOf C (w ++ batch), true) := by
  have hchain : insertChain (w.map (rowOf C)) batch C = .ok ((w ++ batch).map (rowOf C)) := by
    rw [insertChain_fresh]
    · simp
    · simpa [List.map_map, Function.comp_def, rowOf] using hids
    · intro pre b post hsplit
      rcases hpar (w ++ pre) b post (by rw [hsplit, List.append_assoc]) with h | ⟨p, hp, hpid⟩
      · exact Or.inl h
      · refine Or.inr ?_
        rw [← hpid]
        rcases List.mem_append.1 hp with hp | hp
        · exact List.mem_append_left _ (by simp [rowOf, List.map_map, Function.comp_def]; exact ⟨p, hp, rfl⟩)
        · exact List.mem_append_right _ (List.mem_map.2 ⟨p, hp, rfl⟩)
  have hloc : insertLocator C (w.flatMap (locOf C)) batch = (w ++ batch).flatMap (locOf C) := by
    rw [insertLocator_fresh, List.flatMap_append]
    rw [flatMap_locOf_fst, ← List.flatMap_append]; exact hshared
  have hcont : insertContent C (w.flatMap (contOf C)) batch = (w ++ batch).flatMap (contOf C) := by
    rw [insertContent_fresh, List.flatMap_append]
    rw [flatMap_contOf_fst, ← List.flatMap_append]; exact hshared
  have hfk := inputsForeignKeyOk_of C (w ++ batch) batch hrefs
  simp only [Store.write, storeOf, hchain, hloc, hcont, hfk]
  simp

/-- a sequence of flushes, started on a store holding the batches `done` -/
theorem writeAll_storeOf (rest done : List (List Block))
    (hids : ((done ++ rest).flatten.map (·.id C)).Nodup)
    (hpar : ∀ pre b post, (done ++ rest).flatten = pre ++ b :: post →
      b.prev = zeros 32 ∨ ∃ p ∈ pre, p.id C = b.prev)
    (hrefs : ∀ d batch r, done ++ rest = d ++ batch :: r →
      ∀ b ∈ batch, ∀ t ∈ b.txs, ∀ i ∈ t.tx.inputs, i.ref.hash = zeros 32 ∨
        ∃ b' ∈ d.flatten ++ batch, ∃ t' ∈ b'.txs,
          C.sha256d (encTx t'.tx) = i.ref.hash ∧ i.ref.index < t'.tx.outputs.length)
    (hshared : ((done ++ rest).flatten.flatMap (hashesOf C)).Nodup) :
    Store.writeAll C (storeOf C done.flatten) rest = (storeOf C (done ++ rest).flatten, true) := by
  induction rest generalizing done with
  | nil => simp [Store.writeAll]
  | cons batch rest' ih =>
    have hflat : (done ++ batch :: rest').flatten = (done.flatten ++ batch) ++ rest'.flatten := by
      simp [List.flatten_append, List.flatten_cons]
    have e : done ++ batch :: rest' = (done ++ [batch]) ++ rest' := by simp
    have hw : (storeOf C done.flatten).write C batch = (storeOf C (done.flatten ++ batch), true) := by
      apply write_storeOf
      · rw [hflat, List.map_append] at hids
        exact (List.nodup_append.1 hids).1
      · intro pre b post hsplit
        exact hpar pre b (post ++ rest'.flatten) (by rw [hflat, hsplit]; simp)
      · exact hrefs done batch rest' rfl
      · rw [hflat, List.flatMap_append] at hshared
        exact (List.nodup_append.1 hshared).1
    rw [Store.writeAll, hw]
    simp only
    have hd : (done ++ [batch]).flatten = done.flatten ++ batch := by simp
    rw [← hd, e]
    apply ih
    · rw [← e]; exact hids
    · rw [← e]; exact hpar
    · rw [← e]; exact hrefs
    · rw [← e]; exact hshared

/-! ### reading back -/

theorem groupRuns_cons (h k : Bytes) (rest : List (Bytes × Bytes)) :
    groupRuns ((h, k) :: rest) =
      match groupRuns rest with
      | (k', hs) :: more => if k' = k then (k, h :: hs) :: more else (k, [h]) :: (k', hs) :: more
      | [] => [(k, [h])] := by
  rw [groupRuns]
  split <;> split <;> simp_all

theorem groupRuns_append_run (k : Bytes) (hs : List Bytes) (hne : hs ≠ [])
    (rest : List (Bytes × Bytes)) (hk : ∀ x ∈ (groupRuns rest).head?, x.1 ≠ k) :
    groupRuns (hs.map (fun h => (h, k)) ++ rest) = (k, hs) :: groupRuns rest := by
  induction hs with
  | nil => exact absurd rfl hne
  | cons h t ih =>
    cases t with
    | nil =>
      simp only [List.map_cons, List.map_nil, List.cons_append, List.nil_append]
      rw [groupRuns_cons]
      cases hg : groupRuns rest with
      | nil => rfl
      | cons p more =>
        obtain ⟨k', hs'⟩ := p
        have : k' ≠ k := hk (k', hs') (by simp [hg])
        simp [this]
    | cons h2 t' =>
      have := ih (by simp)
      simp only [List.map_cons, List.cons_append] at this ⊢
      rw [groupRuns_cons, this]
      simp

theorem locOf_eq (b : Block) : locOf C b = (hashesOf C b).map (fun h => (h, b.id C)) := by
  simp [locOf, hashesOf, List.map_map, Function.comp_def]

theorem groupRuns_locOf (w : List Block) (hne : ∀ b ∈ w, b.txs ≠ [])
    (hn : (w.map (·.id C)).Nodup) :
    groupRuns (w.flatMap (locOf C)) = w.map (fun b => (b.id C, hashesOf C b)) := by
  induction w with
  | nil => rfl
  | cons b t ih =>
    rw [List.map_cons, List.nodup_cons] at hn
    have iht := ih (fun b' hb' => hne b' (List.mem_cons_of_mem _ hb')) hn.2
    rw [List.flatMap_cons, locOf_eq, groupRuns_append_run, iht, List.map_cons]
    · have := hne b (by simp)
      simpa [hashesOf] using this
    · rw [iht]
      intro x hx hxk
      have hx' := List.mem_of_mem_head? hx
      obtain ⟨b', hb', rfl⟩ := List.mem_map.1 hx'
      exact hn.1 (List.mem_map.2 ⟨b', hb', hxk⟩)

theorem lastRun_of_mem (runs : List (Bytes × List Bytes)) (k : Bytes) (hs : List Bytes)
    (hn : (runs.map (·.1)).Nodup) (hm : (k, hs) ∈ runs) : lastRun runs k = some hs := by
  unfold lastRun
  rw [find?_of_nodup_fst runs.reverse k hs ?_ (List.mem_reverse.2 hm)]
  · rfl
  · rw [List.map_reverse]
    exact List.pairwise_reverse.2 (hn.imp fun h => h.symm)

theorem insertByHeight_perm (r : ChainRow) (l : List ChainRow) :
    (insertByHeight r l).Perm (r :: l) := by
  induction l with
  | nil => exact List.Perm.refl _
  | cons x rest ih =>
    rw [insertByHeight]
    split
    · exact List.Perm.refl _
    · exact ((List.perm_cons x).2 ih).trans (List.Perm.swap r x rest)

theorem sortByHeight_perm (rows : List ChainRow) : (sortByHeight rows).Perm rows := by
  have key : ∀ (rows acc : List ChainRow),
      (rows.foldl (fun acc r => insertByHeight r acc) acc).Perm (acc ++ rows) := by
    intro rows
    induction rows with
    | nil => intro acc; simp
    | cons r rest ih =>
      intro acc
      rw [List.foldl_cons]
      refine (ih _).trans ?_
      refine ((insertByHeight_perm r acc).append_right rest).trans ?_
      exact List.perm_middle.symm
  simpa [sortByHeight] using key rows []

def SortedH (l : List ChainRow) : Prop :=
  l.Pairwise (fun a b => a.header.summary.height ≤ b.header.summary.height)

theorem insertByHeight_sorted (r : ChainRow) (l : List ChainRow) (h : SortedH l) :
    SortedH (insertByHeight r l) := by
  induction l with
  | nil => simp [insertByHeight, SortedH]
  | cons x rest ih =>
    unfold SortedH at h ih ⊢
    rw [List.pairwise_cons] at h
    rw [insertByHeight]
    split
    · rename_i hlt
      refine List.pairwise_cons.2 ⟨?_, List.pairwise_cons.2 h⟩
      intro y hy
      rcases List.mem_cons.1 hy with rfl | hy
      · exact Nat.le_of_lt hlt
      · exact Nat.le_trans (Nat.le_of_lt hlt) (h.1 y hy)
    · rename_i hnlt
      refine List.pairwise_cons.2 ⟨?_, ih h.2⟩
      intro y hy
      have := (insertByHeight_perm r rest).mem_iff.1 hy
      rcases List.mem_cons.1 this with rfl | hy
      · exact Nat.le_of_not_lt hnlt
      · exact h.1 y hy

theorem sortByHeight_sorted (rows : List ChainRow) : SortedH (sortByHeight rows) := by
  have key : ∀ (rows acc : List ChainRow), SortedH acc →
      SortedH (rows.foldl (fun acc r => insertByHeight r acc) acc) := by
    intro rows
    induction rows with
    | nil => intro acc h; simpa using h
    | cons r rest ih =>
      intro acc h
      rw [List.foldl_cons]
      exact ih _ (insertByHeight_sorted r acc h)
  exact key rows [] List.Pairwise.nil

/-- the block `Store.read` builds for a row -/
def readRow (s : Store) (row : ChainRow) : Block :=
  ⟨row.header,
   ((lastRun (groupRuns s.locator) row.id).getD []).filterMap fun h =>
     (s.content.find? (·.1 = h)).map fun (_, t) => ⟨t, some h⟩,
   some row.id⟩

/-- the block read back for a written block `b` -/
def readOf (b : Block) : Block :=
  ⟨b.header, b.txs.map (fun t => ⟨t.tx, some (C.sha256d (encTx t.tx))⟩), some (b.id C)⟩

theorem lastRun_storeOf (w : List Block) (hne : ∀ b ∈ w, b.txs ≠ [])
    (hn : (w.map (·.id C)).Nodup) (b : Block) (hb : b ∈ w) :
    lastRun (groupRuns (storeOf C w).locator) (b.id C) = some (hashesOf C b) := by
  show lastRun (groupRuns (w.flatMap (locOf C))) (b.id C) = some (hashesOf C b)
  rw [groupRuns_locOf C w hne hn]
  apply lastRun_of_mem
  · simpa [List.map_map, Function.comp_def] using hn
  · exact List.mem_map.2 ⟨b, hb, rfl⟩

theorem readRow_storeOf (w : List Block) (hne : ∀ b ∈ w, b.txs ≠ [])
    (hn : (w.map (·.id C)).Nodup) (hshared : (w.flatMap (hashesOf C)).Nodup)
    (b : Block) (hb : b ∈ w) :
    readRow (storeOf C w) (rowOf C b) = readOf C b := by
  unfold readRow readOf
  have hl := lastRun_storeOf C w hne hn b hb
  simp only [rowOf] at hl ⊢
  rw [hl]
  simp only [Option.getD_some, hashesOf, List.filterMap_map]
  congr 1
  apply filterMap_eq_map_of_forall
  intro t ht
  have hmem : (C.sha256d (encTx t.tx), t.tx) ∈ (storeOf C w).content :=
    List.mem_flatMap.2 ⟨b, hb, List.mem_map.2 ⟨t, ht, rfl⟩⟩
  have hnd : ((storeOf C w).content.map (·.1)).Nodup := by
    show ((w.flatMap (contOf C)).map (·.1)).Nodup
    rw [flatMap_contOf_fst]; exact hshared
  have := find?_of_nodup_fst _ _ _ hnd hmem
  simp only [Function.comp_apply]
  rw [this]
  rfl

theorem read_eq_map (s : Store)
    (h : ∀ row ∈ sortByHeight s.chain, lastRun (groupRuns s.locator) row.id ≠ none) :
    s.read = (sortByHeight s.chain).map (readRow s) := by
  unfold Store.read
  apply filterMap_eq_map_of_forall
  intro row hrow
  cases hl : lastRun (groupRuns s.locator) row.id with
  | none => exact absurd hl (h row hrow)
  | some hs => simp [readRow, hl]

theorem read_storeOf (w : List Block) (hne : ∀ b ∈ w, b.txs ≠ [])
    (hn : (w.map (·.id C)).Nodup) :
    (storeOf C w).read = (sortByHeight (w.map (rowOf C))).map (readRow (storeOf C w)) := by
  apply read_eq_map
  intro row hrow
  have : row ∈ w.map (rowOf C) := (sortByHeight_perm _).mem_iff.1 hrow
  obtain ⟨b, hb, rfl⟩ := List.mem_map.1 this
  have := lastRun_storeOf C w hne hn b hb
  simp only [rowOf]
  rw [this]
  simp

/-! ### concrete blocks (counterexample D2 and non-vacuity of `GoodHistory`) -/

namespace Ex

theorem encodeVlq_zero : encodeVlq 0 = [0] := by
  have h0 : bitLen 0 = 0 := by unfold bitLen; simp
  simp [encodeVlq, vlqLen, h0, vlqDigits]

theorem encodeVlq_one : encodeVlq 1 = [1] := by
  have h0 : bitLen 0 = 0 := by unfold bitLen; simp
  have h1 : bitLen 1 = 1 := by rw [bitLen]; simp [h0]
  simp [encodeVlq, vlqLen, h1, vlqDigits]

theorem encTx_nil : encTx ⟨[], []⟩ = [0, 0, 0] := by
  simp [encTx, Tx.codec, Codec.iso, Codec.seq, Codec.const, Codec.list, Codec.encAll,
    encodeVlq_zero]

theorem encTx_one (pk : Bytes) :
    encTx ⟨[], [⟨0, pk⟩]⟩ = [0, 0, 1, 0, 0, 0, 0, 0, 0, 0, 0, 2] ++ pk := by
  simp [encTx, Tx.codec, Codec.iso, Codec.seq, Codec.const, Codec.list, Codec.encAll,
    encodeVlq_zero, encodeVlq_one, Output.codec, pkCodec, Codec.be, Codec.fixed, natToBytes]

def hdr (h : Nat) (prev : Bytes) : Header := ⟨⟨h, prev, [], 0, [], 0⟩, ⟨[], [], []⟩⟩

/-- reward transactions of `g`, `a`, `b` and the shared transaction -/
def txG : Tx := ⟨[], []⟩
def txA : Tx := ⟨[], [⟨0, []⟩]⟩
def txB : Tx := ⟨[], [⟨0, [0]⟩]⟩
def txS : Tx := ⟨[], [⟨0, [0, 0]⟩]⟩

def gB : Block := ⟨hdr 0 (zeros 32), [⟨txG, none⟩], some [1]⟩
def aB : Block := ⟨hdr 1 [1], [⟨txA, none⟩, ⟨txS, none⟩], some [2]⟩
def bB : Block := ⟨hdr 1 [1], [⟨txB, none⟩, ⟨txS, none⟩], some [3]⟩

/-- the hashes of the four transactions under `x ↦ x.take 4 ++ [length x]` -/
def hG : Bytes := [0, 0, 0, 3]
def hA : Bytes := [0, 0, 1, 0, 12]
def hB : Bytes := [0, 0, 1, 0, 13]
def hS : Bytes := [0, 0, 1, 0, 14]

/-- the store after the flushes `[[gB], [aB], [bB]]` under that hash -/
def exStore : Store :=
  ⟨[⟨[1], hdr 0 (zeros 32)⟩, ⟨[2], hdr 1 [1]⟩, ⟨[3], hdr 1 [1]⟩],
   [(hG, [1]), (hA, [2]), (hS, [2]), (hB, [3])],
   [(hG, txG), (hA, txA), (hS, txS), (hB, txB)],
   false⟩

def exStore1 : Store := ⟨[⟨[1], hdr 0 (zeros 32)⟩], [(hG, [1])], [(hG, txG)], false⟩

def exStore2 : Store :=
  ⟨[⟨[1], hdr 0 (zeros 32)⟩, ⟨[2], hdr 1 [1]⟩],
   [(hG, [1]), (hA, [2]), (hS, [2])],
   [(hG, txG), (hA, txA), (hS, txS)],
   false⟩

/-- what is read back under `bB`'s id -/
def bRead : Block := ⟨hdr 1 [1], [⟨txB, some hB⟩], some [3]⟩

theorem bRead_mem : bRead ∈ exStore.read := by decide

end Ex

end StoreL
end Model

import Model.Node
import Proofs.Contain
import Proofs.Stored

/-!
Helper lemmas for `Props/C13Node.lean`: every handler of the node changes the chain manager in one of three ways only —
not at all, by one `set_coinstate`, or by one `add_transaction_to_pool` that returned.
-/

namespace Model

/-- what one handler can do to the manager -/
inductive MgrStep (C : Crypto) (P : Params) (m m' : ChainMgr) : Prop where
  | same (h : m' = m)
  | set (cs : CoinState) (v : Bool) (h : m' = setCoinstate C m cs v)
  | submit (t : CTx) (r : Bool) (h : addTxToPool C P m t = .ok (m', r))

@[simp] theorem updatePeer_mgr (n : Node) (c : Nat) (f : PeerSt → PeerSt) : (n.updatePeer c f).mgr = n.mgr := rfl
@[simp] theorem send_mgr (n : Node) (c : Nat) (o : Out) : (n.send c o).mgr = n.mgr := rfl
@[simp] theorem broadcast_mgr (n : Node) (o : Out) : (n.broadcast o).mgr = n.mgr := rfl
@[simp] theorem disconnect_mgr (n : Node) (c : Nat) : (n.disconnect c).mgr = n.mgr := rfl

/-- a manager is its three fields -/
theorem chainMgr_ext {m m' : ChainMgr} (h1 : m.coinstate = m'.coinstate) (h2 : m.pool = m'.pool)
    (h3 : m.lastValid = m'.lastValid) : m = m' := by
  cases m; cases m'; simp only at h1 h2 h3; subst h1 h2 h3; rfl

theorem ContainedAt.mgr_eq {n n' : Node} {c : Nat} (h : ContainedAt n n' c) : n'.mgr = n.mgr :=
  chainMgr_ext h.1 h.2.1 h.2.2.1

/-- the block handler: nothing, or one `set_coinstate` (fall-back, validated adoption, unvalidated adoption) -/
theorem handleBlockReceived_mgrStep (C : Crypto) (P : Params) (n : Node) (c r : Nat) (b : Block) (now : Int) :
    MgrStep C P n.mgr (handleBlockReceived C P n c r b now).1.mgr := by
  unfold handleBlockReceived
  simp only []
  split
  · exact .same rfl
  · split
    · exact .same rfl
    · split
      · exact .same rfl
      · split
        · exact .same rfl
        · rename_i changed hadd
          by_cases hcond : r = 0 ∨ b.height % P.ibdValidationSkip = 0
          · simp only [hcond, ↓reduceIte]
            cases hv : validateBlockInState C P n.mgr.coinstate b with
            | error e =>
              simp only [Node.updatePeer, ↓reduceIte]
              cases hl : n.mgr.lastValid with
              | some lv => exact .set lv true rfl
              | none => exact .same rfl
            | ok u =>
              simp only [Bool.false_eq_true, ↓reduceIte]
              split
              · split
                · exact .set changed true rfl
                · exact .set changed true rfl
              · exact .set changed true rfl
          · simp only [hcond, ↓reduceIte, Bool.false_eq_true]
            split
            · split
              · exact .set changed false rfl
              · exact .set changed false rfl
            · exact .set changed false rfl

/-- the transaction handler: nothing, or one submission -/
theorem handleTxReceived_mgrStep (C : Crypto) (P : Params) (n : Node) (t : CTx) :
    MgrStep C P n.mgr (handleTxReceived C P n t).1.mgr := by
  unfold handleTxReceived
  split
  · exact .same rfl
  · split
    · exact .same rfl
    · rename_i m h; exact .submit t true h
    · rename_i m h; exact .submit t false h

theorem handleMessage_mgrStep (C : Crypto) (P : Params) (n : Node) (c i r : Nat) (m : InMsg) (now : Int) :
    MgrStep C P n.mgr (handleMessage C P n c i r m now).1.mgr := by
  cases m with
  | dataBlock b =>
    rw [handleMessage_dataBlock]
    cases hp : n.peers[c]? with
    | none => exact .same rfl
    | some p =>
      simp only
      split
      · exact .same rfl
      · exact handleBlockReceived_mgrStep C P n c r b now
  | dataTx t =>
    rw [handleMessage_dataTx]
    cases hp : n.peers[c]? with
    | none => exact .same rfl
    | some p =>
      simp only
      split
      · exact .same rfl
      · exact handleTxReceived_mgrStep C P n t
  | hello _ _ => exact .same (handleMessage_protocol_contained C P n c i r _ now trivial).mgr_eq
  | getBlocks _ => exact .same (handleMessage_protocol_contained C P n c i r _ now trivial).mgr_eq
  | inventory _ => exact .same (handleMessage_protocol_contained C P n c i r _ now trivial).mgr_eq
  | getData _ _ => exact .same (handleMessage_protocol_contained C P n c i r _ now trivial).mgr_eq
  | dataHeader => exact .same (handleMessage_protocol_contained C P n c i r _ now trivial).mgr_eq
  | getPeers => exact .same (handleMessage_protocol_contained C P n c i r _ now trivial).mgr_eq
  | peers => exact .same (handleMessage_protocol_contained C P n c i r _ now trivial).mgr_eq

theorem handleEvent_mgrStep (C : Crypto) (P : Params) (n : Node) (c : Nat) (ev : Incoming) (now : Int) :
    MgrStep C P n.mgr (handleEvent C P n c ev now).mgr := by
  cases ev with
  | closed => exact .same rfl
  | undecodable => exact .same rfl
  | badFrame => exact .same rfl
  | msg i r m =>
    have h := handleMessage_mgrStep C P n c i r m now
    unfold handleEvent
    simp only
    generalize handleMessage C P n c i r m now = res at h
    obtain ⟨n', o⟩ := res
    cases o with
    | none => exact h
    | some e => exact h

theorem minerFound_mgrStep (C : Crypto) (P : Params) (n : Node) (cs : CoinState) (s : Summary) (height : Nat)
    (txs : List CTx) (summaryHash : Bytes) (now : Int) :
    MgrStep C P n.mgr (minerFound C P n cs s height txs summaryHash now).1.1.mgr := by
  unfold minerFound
  split
  · exact .same rfl
  · simp only
    split
    · exact .same rfl
    · split
      · exact .same rfl
      · exact .set _ true rfl

end Model

import Model.Node
import Proofs.Contain

/-!
Helper lemmas for `Props/C20Stream.lean`: the handlers never touch the node's nonce, and they treat two nodes that differ
only in one connection alike (`EqExceptAt` has the same body as `C20.EqExcept`).
-/

namespace Model

/-! ### the nonce -/

@[simp] theorem Node.updatePeer_nonce (n : Node) (c : Nat) (f : PeerSt → PeerSt) : (n.updatePeer c f).nonce = n.nonce := rfl
@[simp] theorem Node.send_nonce (n : Node) (c : Nat) (o : Out) : (n.send c o).nonce = n.nonce := rfl
@[simp] theorem Node.broadcast_nonce (n : Node) (o : Out) : (n.broadcast o).nonce = n.nonce := rfl
@[simp] theorem Node.disconnect_nonce (n : Node) (c : Nat) : (n.disconnect c).nonce = n.nonce := rfl
@[simp] theorem Node.flush_nonce (C : Crypto) (n : Node) : (Node.flush C n).nonce = n.nonce := rfl

theorem foldl_send_nonce {α : Type} (g : α → Out) (c : Nat) (l : List α) :
    ∀ (n : Node), (l.foldl (fun nn i => nn.send c (g i)) n).nonce = n.nonce := by
  induction l with
  | nil => intro n; rfl
  | cons a rest ih => intro n; rw [List.foldl_cons, ih]; rfl

theorem handleBlockReceived_nonce (C : Crypto) (P : Params) (n : Node) (c r : Nat) (b : Block) (now : Int) :
    (handleBlockReceived C P n c r b now).1.nonce = n.nonce := by
  unfold handleBlockReceived
  simp only
  repeat' split
  all_goals first | rfl | simp_all

theorem handleTxReceived_nonce (C : Crypto) (P : Params) (n : Node) (t : CTx) :
    (handleTxReceived C P n t).1.nonce = n.nonce := by
  unfold handleTxReceived
  repeat' split
  all_goals rfl

theorem handleMessage_nonce (C : Crypto) (P : Params) (n : Node) (c i r : Nat) (m : InMsg) (now : Int) :
    (handleMessage C P n c i r m now).1.nonce = n.nonce := by
  unfold handleMessage
  cases hp : n.peers[c]? with
  | none => rfl
  | some p =>
    cases m with
    | dataBlock b => simp only; split; rfl; exact handleBlockReceived_nonce C P n c r b now
    | dataTx t => simp only; split; rfl; exact handleTxReceived_nonce C P n t
    | inventory ids =>
      simp only
      repeat' split
      all_goals first | rfl | (simp only [Node.send_nonce, foldl_send_nonce]; rfl)
    | _ =>
      simp only
      repeat' split
      all_goals rfl

theorem handleEvent_nonce (C : Crypto) (P : Params) (n : Node) (c : Nat) (ev : Incoming) (now : Int) :
    (handleEvent C P n c ev now).nonce = n.nonce := by
  cases ev with
  | msg i r m =>
    unfold handleEvent
    simp only
    have h := handleMessage_nonce C P n c i r m now
    generalize handleMessage C P n c i r m now = res at h
    obtain ⟨n', o⟩ := res
    cases o with
    | none => exact h
    | some e => exact h
  | undecodable => rfl
  | badFrame => rfl
  | closed => rfl

/-! ### two nodes that differ only in connection `c` -/

/-- same body as `C20.EqExcept` (which lives in `Props/C20Stream.lean`) -/
def EqExceptAt (c : Nat) (a b : Node) : Prop :=
  a.mgr = b.mgr ∧ a.wbuf = b.wbuf ∧ a.disk = b.disk ∧ a.nonce = b.nonce ∧ a.peers.length = b.peers.length ∧
  ∀ j, j ≠ c → a.peers[j]? = b.peers[j]?

/-- two lists of connections that differ at most at index `c` -/
def PeersEq (c : Nat) (pa pb : List PeerSt) : Prop :=
  pa.length = pb.length ∧ ∀ j, j ≠ c → pa[j]? = pb[j]?

theorem PeersEq.mapIdx {c : Nat} {pa pb : List PeerSt} (h : PeersEq c pa pb) (g : Nat → PeerSt → PeerSt) :
    PeersEq c (pa.mapIdx g) (pb.mapIdx g) := by
  refine ⟨by simp only [List.length_mapIdx]; exact h.1, fun j hj => ?_⟩
  simp only [List.getElem?_mapIdx, h.2 j hj]

theorem PeersEq.map {c : Nat} {pa pb : List PeerSt} (h : PeersEq c pa pb) (g : PeerSt → PeerSt) :
    PeersEq c (pa.map g) (pb.map g) := by
  refine ⟨by simp only [List.length_map]; exact h.1, fun j hj => ?_⟩
  simp only [List.getElem?_map, h.2 j hj]

theorem EqExceptAt.mk' {c : Nat} {pa pb : List PeerSt} (h : PeersEq c pa pb) (m : ChainMgr) (w dk : List Block) (nn : Nat) :
    EqExceptAt c ⟨m, w, dk, pa, nn⟩ ⟨m, w, dk, pb, nn⟩ :=
  ⟨rfl, rfl, rfl, rfl, h.1, h.2⟩

theorem handleBlockReceived_eqExcept (C : Crypto) (P : Params) (a b : Node) (c d r : Nat) (blk : Block) (now : Int)
    (h : EqExceptAt c a b) :
    EqExceptAt c (handleBlockReceived C P a d r blk now).1 (handleBlockReceived C P b d r blk now).1 ∧
    (handleBlockReceived C P a d r blk now).2 = (handleBlockReceived C P b d r blk now).2 := by
  obtain ⟨m, w, dk, pa, nn⟩ := a
  obtain ⟨m', w', dk', pb, nn'⟩ := b
  obtain ⟨h1, h2, h3, h4, h5, h6⟩ := h
  simp only at h1 h2 h3 h4 h5 h6
  subst h1 h2 h3 h4
  have hp : PeersEq c pa pb := ⟨h5, h6⟩
  unfold handleBlockReceived
  simp only [Node.updatePeer, Node.broadcast, Node.flush]
  repeat' split
  all_goals first
    | exact ⟨EqExceptAt.mk' (by repeat (first | exact hp | apply PeersEq.mapIdx | apply PeersEq.map)) _ _ _ _, rfl⟩

theorem handleTxReceived_eqExcept (C : Crypto) (P : Params) (a b : Node) (c : Nat) (t : CTx) (h : EqExceptAt c a b) :
    EqExceptAt c (handleTxReceived C P a t).1 (handleTxReceived C P b t).1 ∧
    (handleTxReceived C P a t).2 = (handleTxReceived C P b t).2 := by
  obtain ⟨m, w, dk, pa, nn⟩ := a
  obtain ⟨m', w', dk', pb, nn'⟩ := b
  obtain ⟨h1, h2, h3, h4, h5, h6⟩ := h
  simp only at h1 h2 h3 h4 h5 h6
  subst h1 h2 h3 h4
  have hp : PeersEq c pa pb := ⟨h5, h6⟩
  unfold handleTxReceived
  simp only [Node.broadcast]
  repeat' split
  all_goals first
    | exact ⟨EqExceptAt.mk' (by repeat (first | exact hp | apply PeersEq.mapIdx | apply PeersEq.map)) _ _ _ _, rfl⟩

namespace EqExceptAt

theorem updatePeer {c : Nat} {a b : Node} (h : EqExceptAt c a b) (d : Nat) (f : PeerSt → PeerSt) :
    EqExceptAt c (a.updatePeer d f) (b.updatePeer d f) := by
  obtain ⟨h1, h2, h3, h4, h5, h6⟩ := h
  exact ⟨h1, h2, h3, h4, (PeersEq.mapIdx ⟨h5, h6⟩ _).1, (PeersEq.mapIdx ⟨h5, h6⟩ _).2⟩

theorem send {c : Nat} {a b : Node} (h : EqExceptAt c a b) (d : Nat) (o : Out) :
    EqExceptAt c (a.send d o) (b.send d o) := h.updatePeer d _

theorem disconnect {c : Nat} {a b : Node} (h : EqExceptAt c a b) (d : Nat) :
    EqExceptAt c (a.disconnect d) (b.disconnect d) := h.updatePeer d _

theorem foldl_send {α : Type} (g : α → Out) (c d : Nat) (l : List α) :
    ∀ (a b : Node), EqExceptAt c a b →
      EqExceptAt c (l.foldl (fun nn i => nn.send d (g i)) a) (l.foldl (fun nn i => nn.send d (g i)) b) := by
  induction l with
  | nil => intro a b h; exact h
  | cons x rest ih => intro a b h; exact ih _ _ (h.send d _)

end EqExceptAt

theorem handleMessage_eqExcept (C : Crypto) (P : Params) (a b : Node) (c d : Nat) (hd : d ≠ c) (i r : Nat) (m : InMsg)
    (now : Int) (h : EqExceptAt c a b) :
    EqExceptAt c (handleMessage C P a d i r m now).1 (handleMessage C P b d i r m now).1 ∧
    (handleMessage C P a d i r m now).2 = (handleMessage C P b d i r m now).2 := by
  have hpd : a.peers[d]? = b.peers[d]? := h.2.2.2.2.2 d hd
  have hm : a.mgr = b.mgr := h.1
  have hn : a.nonce = b.nonce := h.2.2.2.1
  unfold handleMessage
  rw [← hpd, ← hm, ← hn]
  cases hp : a.peers[d]? with
  | none => exact ⟨h, rfl⟩
  | some p =>
    cases m with
    | dataBlock blk =>
      simp only
      split
      · exact ⟨h, rfl⟩
      · exact handleBlockReceived_eqExcept C P a b c d r blk now h
    | dataTx t =>
      simp only
      split
      · exact ⟨h, rfl⟩
      · exact handleTxReceived_eqExcept C P a b c t h
    | _ =>
      simp only
      repeat' split
      all_goals first
        | exact ⟨h, rfl⟩
        | exact ⟨h.send _ _, rfl⟩
        | exact ⟨h.updatePeer _ _, rfl⟩
        | exact ⟨(h.updatePeer _ _).disconnect _, rfl⟩
        | exact ⟨(EqExceptAt.foldl_send _ c d _ _ _ (h.updatePeer _ _)).send _ _, rfl⟩

theorem handleEvent_eqExcept (C : Crypto) (P : Params) (a b : Node) (c d : Nat) (hd : d ≠ c) (h : EqExceptAt c a b)
    (ev : Incoming) (now : Int) : EqExceptAt c (handleEvent C P a d ev now) (handleEvent C P b d ev now) := by
  cases ev with
  | msg i r m =>
    unfold handleEvent
    simp only
    have h' := handleMessage_eqExcept C P a b c d hd i r m now h
    generalize handleMessage C P a d i r m now = ra at h'
    generalize handleMessage C P b d i r m now = rb at h'
    obtain ⟨na, oa⟩ := ra
    obtain ⟨nb, ob⟩ := rb
    obtain ⟨h1, h2⟩ := h'
    simp only at h1 h2
    subst h2
    cases oa with
    | none => exact h1
    | some e => exact h1.disconnect d
  | undecodable => exact h.disconnect d
  | badFrame => exact h.disconnect d
  | closed => exact h.disconnect d

end Model

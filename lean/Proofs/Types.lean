import Model.Types
import Proofs.Codec

/-! Round trip and canonicity of every consensus type; round trip of every wire message. -/

namespace Model
open Codec

theorem OutRef.rt : RT OutRef.codec OutRef.WF :=
  iso_rt (seq_rt (fixed_rt 32) (be_rt 4)) (fun _ => rfl) (fun _ h => h)

theorem OutRef.canon : Canon OutRef.codec OutRef.WF :=
  iso_canon (seq_canon (fixed_canon 32) (be_canon 4)) (fun _ => rfl) (fun _ h => h)

theorem Sig.rt : RT Sig.codec Sig.WF := by
  intro a r h
  cases a with
  | signable => simp [Sig.codec]
  | coinbase ht d =>
    have := seq_rt (be_rt 4) lenBytes1_rt (ht, d) r h
    simp only [seq_enc, List.append_assoc, be_enc, lenBytes1_enc, List.cons_append] at this
    simp only [Sig.codec, List.cons_append, List.nil_append, List.append_assoc, be_enc,
      lenBytes1_enc]
    simp [this]
  | secp s =>
    have := fixed_rt 64 s r h
    simp only [fixed_enc] at this
    simp only [Sig.codec, List.cons_append, List.nil_append]
    simp [this]

theorem Sig.canon : Canon Sig.codec Sig.WF := by
  intro bs a r h
  simp only [Sig.codec] at h
  split at h
  · simp at h
  · rename_i t rest
    by_cases h0 : t = 0
    · simp only [h0, if_true, Option.some.injEq, Prod.mk.injEq] at h
      obtain ⟨h1, h2⟩ := h
      subst h1; subst h2; subst h0
      simp [Sig.codec, Sig.WF]
    · by_cases h1 : t = 1
      · subst h1
        simp only [h0, if_false, if_true] at h
        split at h
        · simp at h
        · rename_i ht d r' hd
          simp only [Option.some.injEq, Prod.mk.injEq] at h
          obtain ⟨e1, e2⟩ := h
          subst e1; subst e2
          obtain ⟨e, w⟩ := seq_canon (be_canon 4) lenBytes1_canon _ _ _ hd
          simp only [seq_enc] at e
          refine ⟨?_, w⟩
          simp only [Sig.codec, List.cons_append, List.nil_append, List.append_assoc]
          rw [e]; simp
      · by_cases h2 : t = 2
        · subst h2
          simp only [h0, h1, if_false, if_true] at h
          split at h
          · simp at h
          · rename_i s r' hd
            simp only [Option.some.injEq, Prod.mk.injEq] at h
            obtain ⟨e1, e2⟩ := h
            subst e1; subst e2
            obtain ⟨e, w⟩ := fixed_canon 64 _ _ _ hd
            simp only [fixed_enc] at e
            refine ⟨?_, w⟩
            simp only [Sig.codec, List.cons_append, List.nil_append]
            rw [e]
        · simp [h0, h1, h2] at h

theorem pk_rt : RT pkCodec (fun k => k.length = 64) :=
  iso_rt (seq_rt (const_rt [2]) (fixed_rt 64)) (fun _ => rfl) (fun _ h => ⟨trivial, h⟩)

theorem pk_canon : Canon pkCodec (fun k => k.length = 64) :=
  iso_canon (seq_canon (const_canon [2]) (fixed_canon 64)) (fun _ => rfl) (fun _ h => h.2)

theorem Input.rt : RT Input.codec Input.WF :=
  iso_rt (seq_rt OutRef.rt Sig.rt) (fun _ => rfl) (fun _ h => h)

theorem Input.canon : Canon Input.codec Input.WF :=
  iso_canon (seq_canon OutRef.canon Sig.canon) (fun _ => rfl) (fun _ h => h)

theorem Output.rt : RT Output.codec Output.WF :=
  iso_rt (seq_rt (be_rt 8) pk_rt) (fun _ => rfl) (fun _ h => h)

theorem Output.canon : Canon Output.codec Output.WF :=
  iso_canon (seq_canon (be_canon 8) pk_canon) (fun _ => rfl) (fun _ h => h)

theorem Tx.rt : RT Tx.codec Tx.WF :=
  iso_rt (seq_rt (const_rt [0]) (seq_rt (list_rt Input.rt) (list_rt Output.rt))) (fun _ => rfl)
    (fun _ h => ⟨trivial, h⟩)

theorem Tx.canon : Canon Tx.codec Tx.WF :=
  iso_canon (seq_canon (const_canon [0]) (seq_canon (list_canon Input.canon) (list_canon Output.canon)))
    (fun _ => rfl) (fun _ h => h.2)

theorem Evidence.rt : RT Evidence.codec Evidence.WF :=
  iso_rt (seq_rt (fixed_rt 32) (seq_rt (fixed_rt 32) (fixed_rt 32))) (fun _ => rfl) (fun _ h => h)

theorem Evidence.canon : Canon Evidence.codec Evidence.WF :=
  iso_canon (seq_canon (fixed_canon 32) (seq_canon (fixed_canon 32) (fixed_canon 32))) (fun _ => rfl)
    (fun _ h => h)

theorem Summary.rt : RT Summary.codec Summary.WF :=
  iso_rt (seq_rt vlq_rt (seq_rt (fixed_rt 32) (seq_rt (fixed_rt 32) (seq_rt (be_rt 4)
    (seq_rt (fixed_rt 32) (be_rt 4)))))) (fun _ => rfl) (fun _ h => ⟨trivial, h⟩)

theorem Summary.canon : Canon Summary.codec Summary.WF :=
  iso_canon (seq_canon vlq_canon (seq_canon (fixed_canon 32) (seq_canon (fixed_canon 32)
    (seq_canon (be_canon 4) (seq_canon (fixed_canon 32) (be_canon 4)))))) (fun _ => rfl)
    (fun _ h => h.2)

theorem Header.rt : RT Header.codec Header.WF :=
  iso_rt (seq_rt (const_rt [0]) (seq_rt Summary.rt Evidence.rt)) (fun _ => rfl)
    (fun _ h => ⟨trivial, h⟩)

theorem Header.canon : Canon Header.codec Header.WF :=
  iso_canon (seq_canon (const_canon [0]) (seq_canon Summary.canon Evidence.canon)) (fun _ => rfl)
    (fun _ h => h.2)

theorem BlockC.rt : RT BlockC.codec BlockC.WF :=
  iso_rt (seq_rt Header.rt (list_rt Tx.rt)) (fun _ => rfl) (fun _ h => h)

theorem BlockC.canon : Canon BlockC.codec BlockC.WF :=
  iso_canon (seq_canon Header.canon (list_canon Tx.canon)) (fun _ => rfl) (fun _ h => h)

/-! ### wire messages: round trip only (ignored version bytes and reserved space make the wire
format non-canonical by design; the property asks for canonicity of consensus objects only) -/

theorem MsgHeader.rt : RT MsgHeader.codec MsgHeader.WF :=
  iso_rt (seq_rt (skip_rt [0]) (seq_rt (be_rt 4) (seq_rt (be_rt 4) (seq_rt (be_rt 4)
    (seq_rt (be_rt 8) (skip_rt (zeros 32))))))) (fun _ => rfl)
    (fun _ h => ⟨trivial, h.1, h.2.1, h.2.2.1, h.2.2.2, trivial⟩)

theorem Hello.rt : RT Hello.codec Hello.WF :=
  iso_rt (seq_rt (skip_rt [0]) (seq_rt (fixed_rt 16) (seq_rt (be_rt 2) (seq_rt (fixed_rt 16)
    (seq_rt (be_rt 2) (seq_rt (be_rt 4) (seq_rt lenBytes1_rt (seq_rt (list_rt (be_rt 1))
    (skip_rt (zeros 256)))))))))) (fun _ => rfl)
    (fun _ h => ⟨trivial, h.1, h.2.1, h.2.2.1, h.2.2.2.1, h.2.2.2.2.1, h.2.2.2.2.2.1,
      h.2.2.2.2.2.2, trivial⟩)

theorem InvItem.rt : RT InvItem.codec InvItem.WF :=
  iso_rt (seq_rt (fixed_rt 2) (fixed_rt 32)) (fun _ => rfl) (fun _ h => h)

theorem PeerAddr.rt : RT PeerAddr.codec PeerAddr.WF :=
  iso_rt (seq_rt (be_rt 4) (seq_rt (fixed_rt 16) (be_rt 2))) (fun _ => rfl) (fun _ h => h)

theorem getBlocks_rt : RT getBlocksCodec (fun x => (∀ s ∈ x.1, s.length = 32) ∧ x.2.length = 32) :=
  iso_rt (seq_rt (const_rt [0]) (seq_rt (list_rt (fixed_rt 32)) (fixed_rt 32))) (fun _ => rfl)
    (fun _ h => ⟨trivial, h⟩)

theorem inventory_rt : RT inventoryCodec (fun l => ∀ i ∈ l, i.WF) :=
  iso_rt (seq_rt (const_rt [0]) (list_rt InvItem.rt)) (fun _ => rfl) (fun _ h => ⟨trivial, h⟩)

theorem getData_rt : RT getDataCodec (fun x => x.1.length = 2 ∧ x.2.length = 32) :=
  iso_rt (seq_rt (const_rt [0]) (seq_rt (fixed_rt 2) (fixed_rt 32))) (fun _ => rfl)
    (fun _ h => ⟨trivial, h⟩)

theorem peers_rt : RT peersCodec (fun l => ∀ a ∈ l, a.WF) :=
  iso_rt (seq_rt (const_rt [0]) (list_rt PeerAddr.rt)) (fun _ => rfl) (fun _ h => ⟨trivial, h⟩)

theorem DataItem.rt (d : DataItem) (r : Bytes) (h : d.WF) : DataItem.dec (d.enc ++ r) = some (d, r) := by
  cases d with
  | block b => simp [DataItem.enc, DataItem.dec, BlockC.rt b r h]
  | header x => simp [DataItem.enc, DataItem.dec, Header.rt x r h]
  | tx t => simp [DataItem.enc, DataItem.dec, Tx.rt t r h]

theorem Msg.rt (m : Msg) (r : Bytes) (h : m.WF) : Msg.dec (m.enc ++ r) = some (m, r) := by
  cases m with
  | hello x => simp [Msg.enc, Msg.dec, Hello.rt x r h]
  | getBlocks s t => simp [Msg.enc, Msg.dec, getBlocks_rt (s, t) r h]
  | inventory l => simp [Msg.enc, Msg.dec, inventory_rt l r h]
  | getData t x => simp [Msg.enc, Msg.dec, getData_rt (t, x) r h]
  | data d => simp [Msg.enc, Msg.dec, DataItem.rt d r h]
  | getPeers => simp [Msg.enc, Msg.dec]
  | peers l => simp [Msg.enc, Msg.dec, peers_rt l r h]

theorem frame_rt (hd : MsgHeader) (m : Msg) (h₁ : hd.WF) (h₂ : m.WF) :
    decodeFrame (encodeFrame hd m) = some (hd, m) := by
  have e : encodeFrame hd m = MsgHeader.codec.enc hd ++ (m.enc ++ []) := by simp [encodeFrame]
  simp only [decodeFrame]
  rw [e, MsgHeader.rt hd _ h₁]
  simp only
  rw [Msg.rt m [] h₂]

end Model

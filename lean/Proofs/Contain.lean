import Model.Node
import Proofs.Validation
import Proofs.Map
import Proofs.Chain
import Props.C13

/-!
Containment lemmas for the node model (used by `Props/C20.lean`): what the peer-local
operations (`updatePeer`, `send`, `disconnect`) and the handlers leave untouched.
-/

namespace Model

/-- same body as `C20.Contained` (which lives in `Props/C20.lean`) -/
def ContainedAt (n n' : Node) (c : Nat) : Prop :=
  n'.mgr.coinstate = n.mgr.coinstate ∧ n'.mgr.pool = n.mgr.pool ∧ n'.mgr.lastValid = n.mgr.lastValid ∧
  n'.wbuf = n.wbuf ∧ n'.disk = n.disk ∧ n'.peers.length = n.peers.length ∧
  ∀ j, j ≠ c → n'.peers[j]? = n.peers[j]?

namespace ContainedAt

theorem refl (n : Node) (c : Nat) : ContainedAt n n c :=
  ⟨rfl, rfl, rfl, rfl, rfl, rfl, fun _ _ => rfl⟩

theorem trans {a b d : Node} {c : Nat} (h1 : ContainedAt a b c) (h2 : ContainedAt b d c) :
    ContainedAt a d c := by
  obtain ⟨a1, a2, a3, a4, a5, a6, a7⟩ := h1
  obtain ⟨b1, b2, b3, b4, b5, b6, b7⟩ := h2
  exact ⟨b1.trans a1, b2.trans a2, b3.trans a3, b4.trans a4, b5.trans a5, b6.trans a6,
    fun j hj => (b7 j hj).trans (a7 j hj)⟩

theorem updatePeer (n : Node) (c : Nat) (f : PeerSt → PeerSt) :
    ContainedAt n (n.updatePeer c f) c := by
  refine ⟨rfl, rfl, rfl, rfl, rfl, ?_, ?_⟩
  · simp [Node.updatePeer]
  · intro j hj
    simp only [Node.updatePeer, List.getElem?_mapIdx]
    cases n.peers[j]? with
    | none => rfl
    | some p => simp [hj]

theorem send (n : Node) (c : Nat) (o : Out) : ContainedAt n (n.send c o) c :=
  updatePeer n c _

theorem disconnect (n : Node) (c : Nat) : ContainedAt n (n.disconnect c) c :=
  updatePeer n c _

theorem then_updatePeer {n n' : Node} {c : Nat} (h : ContainedAt n n' c) (f : PeerSt → PeerSt) :
    ContainedAt n (n'.updatePeer c f) c :=
  h.trans (updatePeer n' c f)

theorem then_send {n n' : Node} {c : Nat} (h : ContainedAt n n' c) (o : Out) :
    ContainedAt n (n'.send c o) c :=
  h.trans (send n' c o)

theorem then_disconnect {n n' : Node} {c : Nat} (h : ContainedAt n n' c) :
    ContainedAt n (n'.disconnect c) c :=
  h.trans (disconnect n' c)

theorem foldl_send {α : Type} (g : α → Out) (c : Nat) (l : List α) :
    ∀ (n n' : Node), ContainedAt n n' c →
      ContainedAt n (l.foldl (fun nn i => nn.send c (g i)) n') c := by
  induction l with
  | nil => intro n n' h; exact h
  | cons a rest ih => intro n n' h; exact ih n _ (h.then_send _)

/-- replacing manager and write buffer by ones with the same content -/
theorem with_mgr_wbuf {n n' : Node} {c : Nat} (h : ContainedAt n n' c) (m : ChainMgr) (w : List Block)
    (h1 : m.coinstate = n.mgr.coinstate) (h2 : m.pool = n.mgr.pool) (h3 : m.lastValid = n.mgr.lastValid)
    (h4 : w = n.wbuf) : ContainedAt n { n' with mgr := m, wbuf := w } c :=
  ⟨h1, h2, h3, h4, h.2.2.2.2.1, h.2.2.2.2.2.1, h.2.2.2.2.2.2⟩

end ContainedAt

/-! ### the event wrapper -/

theorem handleEvent_msg_contained (C : Crypto) (P : Params) (n : Node) (c i r : Nat) (m : InMsg) (now : Int)
    (h : ContainedAt n (handleMessage C P n c i r m now).1 c) :
    ContainedAt n (handleEvent C P n c (.msg i r m) now) c := by
  unfold handleEvent
  simp only
  generalize handleMessage C P n c i r m now = res at h
  obtain ⟨n', o⟩ := res
  cases o with
  | none => exact h
  | some e => exact ContainedAt.then_disconnect h

theorem handleEvent_garbage_contained (C : Crypto) (P : Params) (n : Node) (c : Nat) (now : Int)
    (ev : Incoming) (hev : match ev with | .msg _ _ _ => False | _ => True) :
    ContainedAt n (handleEvent C P n c ev now) c := by
  cases ev with
  | msg i r m => exact hev.elim
  | undecodable => exact ContainedAt.disconnect n c
  | badFrame => exact ContainedAt.disconnect n c
  | closed => exact ContainedAt.disconnect n c

/-! ### messages other than `Data` -/

theorem handleMessage_protocol_contained (C : Crypto) (P : Params) (n : Node) (c i r : Nat) (m : InMsg)
    (now : Int) (hm : match m with | .dataBlock _ => False | .dataTx _ => False | _ => True) :
    ContainedAt n (handleMessage C P n c i r m now).1 c := by
  unfold handleMessage
  cases hp : n.peers[c]? with
  | none => exact ContainedAt.refl n c
  | some p =>
    cases m with
    | dataBlock b => exact hm.elim
    | dataTx t => exact hm.elim
    | hello nonce port =>
      simp only
      split
      · exact (ContainedAt.updatePeer n c _).then_disconnect
      · exact ContainedAt.updatePeer n c _
    | getBlocks loc =>
      simp only
      split
      · exact ContainedAt.refl n c
      · split
        · exact ContainedAt.send n c _
        · exact ContainedAt.refl n c
    | inventory ids =>
      simp only
      split
      · exact ContainedAt.refl n c
      · split
        · exact ContainedAt.refl n c
        · split
          · exact ContainedAt.updatePeer n c _
          · exact (ContainedAt.foldl_send _ c _ n _ (ContainedAt.updatePeer n c _)).then_send _
    | getData ty id =>
      simp only
      split
      · exact ContainedAt.refl n c
      · split
        · exact ContainedAt.refl n c
        · split
          · exact ContainedAt.refl n c
          · exact ContainedAt.send n c _
    | dataHeader =>
      simp only
      split <;> exact ContainedAt.refl n c
    | getPeers =>
      simp only
      split
      · exact ContainedAt.refl n c
      · exact ContainedAt.send n c _
    | peers =>
      simp only
      split
      · exact ContainedAt.refl n c
      · exact ContainedAt.updatePeer n c _

/-! ### `Data(transaction)` -/

theorem handleTxReceived_contained (C : Crypto) (P : Params) (n : Node) (c : Nat) (t : CTx)
    (hrej : ∀ m', addTxToPool C P n.mgr t ≠ .ok (m', true)) :
    ContainedAt n (handleTxReceived C P n t).1 c := by
  unfold handleTxReceived
  split
  · exact ContainedAt.refl n c
  · split
    · exact ContainedAt.refl n c
    · rename_i m h; exact absurd h (hrej m)
    · rename_i m h
      rw [C13.not_admitted_leaves_pool C P n.mgr m t h]
      exact ContainedAt.refl n c

theorem handleTxReceived_err (C : Crypto) (P : Params) (n : Node) (t : CTx) (e : Err)
    (h : (handleTxReceived C P n t).2 = some e) : (handleTxReceived C P n t).1 = n := by
  unfold handleTxReceived at h ⊢
  split
  · rfl
  · split
    · rfl
    · rename_i m hm; rw [hm] at h; split at h <;> simp at h
    · rename_i m hm; rw [hm] at h; split at h <;> simp at h

/-! ### `Data(block)` -/

theorem add_ok_head_some_c (C : Crypto) {cs cs' : CoinState} {b : Block}
    (h : addBlockNoValidation C cs b = .ok cs') : ∃ hd, cs'.head = some hd := by
  obtain ⟨hb, _, _, _, hn, hs1, hs2⟩ := add_ok_inv C h
  unfold CoinState.head
  cases hc : cs.current with
  | none => rw [hn hc, hb]; exact ⟨b, by simp [Map.get?_set_self]⟩
  | some c0 =>
    by_cases hp : c0 = b.prev
    · rw [hs1 c0 hc hp, hb]; exact ⟨b, by simp [Map.get?_set_self]⟩
    · obtain ⟨cb, hcb, hcur⟩ := hs2 c0 hc hp
      rw [hcur, hb]
      simp only [Option.bind_some, Map.get?_set]
      by_cases hh : b.height > cb.height
      · exact ⟨b, by simp [hh]⟩
      · by_cases he : b.id C = c0
        · exact ⟨b, by simp [hh, he]⟩
        · exact ⟨cb, by simp [hh, he, hcb]⟩

theorem cleanupPool_same (C : Crypto) (P : Params) (m : ChainMgr) (h : C13.PoolInv C P m) :
    cleanupPool C m.coinstate m.pool = m.pool := by
  unfold cleanupPool
  rw [List.filter_eq_self]
  intro t ht
  rw [(h.1 t ht).2]

theorem handleBlockReceived_err_or (C : Crypto) (P : Params) (n : Node) (c r : Nat) (b : Block) (now : Int) :
    (handleBlockReceived C P n c r b now).2 = none ∨
    ContainedAt n (handleBlockReceived C P n c r b now).1 c := by
  unfold handleBlockReceived
  simp only
  split
  · exact .inr (ContainedAt.updatePeer n c _)
  · split
    · exact .inr (ContainedAt.updatePeer n c _)
    · split
      · exact .inr (ContainedAt.updatePeer n c _)
      · split
        · exact .inr (ContainedAt.updatePeer n c _)
        · rename_i changed hadd
          obtain ⟨hd, hhd⟩ := add_ok_head_some_c C hadd
          left
          simp only [hhd]
          repeat' split
          all_goals rfl

theorem handleBlockReceived_err (C : Crypto) (P : Params) (n : Node) (c r : Nat) (b : Block) (now : Int)
    (e : Err) (h : (handleBlockReceived C P n c r b now).2 = some e) :
    ContainedAt n (handleBlockReceived C P n c r b now).1 c := by
  rcases handleBlockReceived_err_or C P n c r b now with h' | h'
  · rw [h'] at h; cases h
  · exact h'

theorem addBlock_of_parts (C : Crypto) (P : Params) (cs cs' : CoinState) (b : Block) (now : Int) (u u' : Unit)
    (h1 : validateBlockByItself C P b now = .ok u) (h2 : validateBlockInState C P cs b = .ok u')
    (h3 : addBlockNoValidation C cs b = .ok cs') : addBlock C P cs b now = .ok cs' := by
  unfold addBlock
  rw [h1, h2, h3]
  rfl

theorem handleBlockReceived_rejected (C : Crypto) (P : Params) (n : Node) (c : Nat) (b : Block) (now : Int)
    (hlv : n.mgr.lastValid = some n.mgr.coinstate) (hw : n.wbuf = []) (hpool : C13.PoolInv C P n.mgr)
    (hrej : ∀ cs', addBlock C P n.mgr.coinstate b now ≠ .ok cs') :
    ContainedAt n (handleBlockReceived C P n c 0 b now).1 c := by
  unfold handleBlockReceived
  simp only
  split
  · exact ContainedAt.updatePeer n c _
  · split
    · exact ContainedAt.updatePeer n c _
    · split
      · exact ContainedAt.updatePeer n c _
      · rename_i u hself
        split
        · exact ContainedAt.updatePeer n c _
        · rename_i changed hadd
          cases hv : validateBlockInState C P n.mgr.coinstate b with
          | ok u' => exact absurd (addBlock_of_parts C P _ _ b now u u' hself hv hadd) (hrej changed)
          | error e' =>
            simp only [true_or, if_true]
            refine ContainedAt.with_mgr_wbuf (ContainedAt.updatePeer n c _) _ _ ?_ ?_ ?_ hw.symm
            · simp only [Node.updatePeer, hlv, setCoinstate]
            · simp only [Node.updatePeer, hlv, setCoinstate]
              exact cleanupPool_same C P n.mgr hpool
            · simp only [Node.updatePeer, hlv, setCoinstate, if_true]

/-! ### `handleMessage` on `Data` messages -/

theorem handleMessage_dataBlock (C : Crypto) (P : Params) (n : Node) (c i r : Nat) (b : Block) (now : Int) :
    handleMessage C P n c i r (.dataBlock b) now =
      match n.peers[c]? with
      | none => (n, some (.other "no such peer"))
      | some p =>
        if !p.helloReceived then (n, some (.other "First message must be Hello"))
        else handleBlockReceived C P n c r b now := by
  unfold handleMessage
  cases n.peers[c]? <;> rfl

theorem handleMessage_dataTx (C : Crypto) (P : Params) (n : Node) (c i r : Nat) (t : CTx) (now : Int) :
    handleMessage C P n c i r (.dataTx t) now =
      match n.peers[c]? with
      | none => (n, some (.other "no such peer"))
      | some p =>
        if !p.helloReceived then (n, some (.other "First message must be Hello"))
        else handleTxReceived C P n t := by
  unfold handleMessage
  cases n.peers[c]? <;> rfl

/-- whatever a handler did before raising stays on connection `c` -/
theorem handleMessage_err_contained (C : Crypto) (P : Params) (n : Node) (c i r : Nat) (m : InMsg)
    (now : Int) (e : Err) (herr : (handleMessage C P n c i r m now).2 = some e) :
    ContainedAt n (handleMessage C P n c i r m now).1 c := by
  cases m with
  | dataBlock b =>
    rw [handleMessage_dataBlock] at herr ⊢
    cases hp : n.peers[c]? with
    | none => exact ContainedAt.refl n c
    | some p =>
      simp only [hp] at herr ⊢
      split
      · exact ContainedAt.refl n c
      · rename_i hh
        rw [if_neg hh] at herr
        exact handleBlockReceived_err C P n c r b now e herr
  | dataTx t =>
    rw [handleMessage_dataTx] at herr ⊢
    cases hp : n.peers[c]? with
    | none => exact ContainedAt.refl n c
    | some p =>
      simp only [hp] at herr ⊢
      split
      · exact ContainedAt.refl n c
      · rename_i hh
        rw [if_neg hh] at herr
        rw [handleTxReceived_err C P n t e herr]
        exact ContainedAt.refl n c
  | hello _ _ => exact handleMessage_protocol_contained C P n c i r _ now trivial
  | getBlocks _ => exact handleMessage_protocol_contained C P n c i r _ now trivial
  | inventory _ => exact handleMessage_protocol_contained C P n c i r _ now trivial
  | getData _ _ => exact handleMessage_protocol_contained C P n c i r _ now trivial
  | dataHeader => exact handleMessage_protocol_contained C P n c i r _ now trivial
  | getPeers => exact handleMessage_protocol_contained C P n c i r _ now trivial
  | peers => exact handleMessage_protocol_contained C P n c i r _ now trivial

theorem handleMessage_rejected_block_contained (C : Crypto) (P : Params) (n : Node) (c i : Nat) (b : Block)
    (now : Int) (hlv : n.mgr.lastValid = some n.mgr.coinstate) (hw : n.wbuf = [])
    (hpool : C13.PoolInv C P n.mgr)
    (hrej : ∀ cs', addBlock C P n.mgr.coinstate b now ≠ .ok cs') :
    ContainedAt n (handleMessage C P n c i 0 (.dataBlock b) now).1 c := by
  rw [handleMessage_dataBlock]
  cases hp : n.peers[c]? with
  | none => exact ContainedAt.refl n c
  | some p =>
    simp only
    split
    · exact ContainedAt.refl n c
    · exact handleBlockReceived_rejected C P n c b now hlv hw hpool hrej

theorem handleMessage_rejected_tx_contained (C : Crypto) (P : Params) (n : Node) (c i r : Nat) (t : CTx)
    (now : Int) (hrej : ∀ m', addTxToPool C P n.mgr t ≠ .ok (m', true)) :
    ContainedAt n (handleMessage C P n c i r (.dataTx t) now).1 c := by
  rw [handleMessage_dataTx]
  cases hp : n.peers[c]? with
  | none => exact ContainedAt.refl n c
  | some p =>
    simp only
    split
    · exact ContainedAt.refl n c
    · exact handleTxReceived_contained C P n c t hrej

end Model

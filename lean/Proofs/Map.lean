import Model.Map

/-! Generic lemmas about the association-list maps of `Model.Map`. -/

namespace Model
namespace Map
variable {κ ν : Type} [DecidableEq κ]

@[simp] theorem get?_nil (k : κ) : get? ([] : Map κ ν) k = none := rfl

theorem get?_cons (k' : κ) (v : ν) (m : Map κ ν) (k : κ) :
    get? ((k', v) :: m) k = if k' = k then some v else get? m k := rfl

theorem get?_erase (m : Map κ ν) (k k' : κ) :
    (m.erase k).get? k' = if k' = k then none else m.get? k' := by
  induction m with
  | nil => simp [erase, get?]
  | cons p rest ih =>
    obtain ⟨k1, v⟩ := p
    simp only [erase, List.filter_cons] at ih ⊢
    by_cases h1 : k1 = k
    · subst h1
      simp only [ne_eq, not_true_eq_false, decide_false, Bool.false_eq_true, ↓reduceIte]
      rw [ih]
      by_cases h2 : k' = k1
      · simp [h2]
      · have : ¬ k1 = k' := fun h => h2 h.symm
        simp [h2, get?_cons, this]
    · simp only [ne_eq, h1, not_false_eq_true, decide_true, ↓reduceIte, get?_cons]
      rw [ih]
      by_cases h2 : k1 = k'
      · subst h2
        simp [h1]
      · simp [h2]

theorem get?_erase_self (m : Map κ ν) (k : κ) : (m.erase k).get? k = none := by
  simp [get?_erase]

theorem get?_erase_other (m : Map κ ν) (k k' : κ) (h : k' ≠ k) :
    (m.erase k).get? k' = m.get? k' := by
  simp [get?_erase, h]

theorem get?_set (m : Map κ ν) (k : κ) (v : ν) (k' : κ) :
    (m.set k v).get? k' = if k = k' then some v else m.get? k' := by
  simp only [set, get?_cons, get?_erase]
  by_cases h : k = k'
  · simp [h]
  · have : ¬ k' = k := fun h' => h h'.symm
    simp [h, this]

theorem get?_set_self (m : Map κ ν) (k : κ) (v : ν) : (m.set k v).get? k = some v := by
  simp [get?_set]

theorem get?_set_other (m : Map κ ν) (k : κ) (v : ν) (k' : κ) (h : k ≠ k') :
    (m.set k v).get? k' = m.get? k' := by
  simp [get?_set, h]

theorem contains_nil (k : κ) : contains ([] : Map κ ν) k = false := rfl

theorem contains_erase (m : Map κ ν) (k k' : κ) :
    (m.erase k).contains k' = (decide (k' ≠ k) && m.contains k') := by
  simp only [contains, get?_erase]
  by_cases h : k' = k <;> simp [h]

theorem contains_set (m : Map κ ν) (k : κ) (v : ν) (k' : κ) :
    (m.set k v).contains k' = (decide (k = k') || m.contains k') := by
  simp only [contains, get?_set]
  by_cases h : k = k' <;> simp [h]

/-- `if k in m: del m[k]` -/
theorem contains_ite_erase (m : Map κ ν) (k k' : κ) :
    (if m.contains k = true then m.erase k else m).contains k' =
      (decide (k' ≠ k) && m.contains k') := by
  split
  · exact contains_erase m k k'
  · next h =>
    by_cases hk : k' = k
    · subst hk; simp [h]
    · simp [hk]

theorem contains_eq_true_iff (m : Map κ ν) (k : κ) :
    m.contains k = true ↔ ∃ v, m.get? k = some v := by
  simp [contains, Option.isSome_iff_exists]

end Map
end Model

import Model.Ledger
import Proofs.Map
import Proofs.Replay

/-!
Lemmas for `Props/C03Balance.lean`: the per-key balances computed by `pkbSpend` / `pkbCredit`
track the unspent set maintained by `removeInputs` / `addOutputs`.

`uValue` / `uRefs` are local copies of `C03.utxoValue` / `C03.utxoRefs` (this file cannot import
the property file); the property file bridges by `rfl`.
-/

namespace Model
namespace Bal

/-! ## keys of an association list -/

section Keys
variable {κ ν : Type} [DecidableEq κ]

theorem mem_keys_iff_contains (m : Map κ ν) (k : κ) :
    k ∈ m.map (·.1) ↔ m.contains k = true := by
  induction m with
  | nil => simp [Map.contains, Map.get?]
  | cons e rest ih =>
    obtain ⟨k1, v⟩ := e
    simp only [List.map_cons, List.mem_cons, Map.contains, Map.get?_cons]
    by_cases h : k1 = k
    · simp [h]
    · have h' : ¬ k = k1 := fun e => h e.symm
      simp only [h, h', ↓reduceIte, false_or]
      exact ih

theorem get?_none_of_contains_false (m : Map κ ν) (k : κ) (h : m.contains k = false) :
    m.get? k = none := by
  simpa [Map.contains] using h

theorem get?_none_of_not_mem (m : Map κ ν) (k : κ) (h : k ∉ m.map (·.1)) : m.get? k = none := by
  apply get?_none_of_contains_false
  cases hc : m.contains k with
  | false => rfl
  | true => exact absurd ((mem_keys_iff_contains m k).mpr hc) h

theorem nodup_erase (m : Map κ ν) (k : κ) (h : (m.map (·.1)).Nodup) :
    ((m.erase k).map (·.1)).Nodup :=
  List.Nodup.sublist (List.Sublist.map _ List.filter_sublist) h

theorem nodup_set (m : Map κ ν) (k : κ) (v : ν) (h : (m.map (·.1)).Nodup) :
    ((m.set k v).map (·.1)).Nodup := by
  simp only [Map.set, List.map_cons, List.nodup_cons]
  refine ⟨?_, nodup_erase m k h⟩
  rw [mem_keys_iff_contains, Map.contains_erase]
  simp

/-- with distinct keys, the entry found under `k` can be pulled to the front -/
theorem perm_erase (m : Map κ ν) (k : κ) (v : ν) (hn : (m.map (·.1)).Nodup)
    (hg : m.get? k = some v) : m.Perm ((k, v) :: m.erase k) := by
  induction m with
  | nil => simp [Map.get?] at hg
  | cons e rest ih =>
    obtain ⟨k1, v1⟩ := e
    simp only [List.map_cons, List.nodup_cons] at hn
    rw [Map.get?_cons] at hg
    by_cases h : k1 = k
    · subst h
      simp only [↓reduceIte, Option.some.injEq] at hg
      subst hg
      have h1 := Map.erase_of_get?_none rest k1 (get?_none_of_not_mem rest k1 hn.1)
      have : Map.erase ((k1, v1) :: rest) k1 = rest := by
        simp only [Map.erase, List.filter_cons, ne_eq, not_true_eq_false, decide_false,
          Bool.false_eq_true, ↓reduceIte] at h1 ⊢
        exact h1
      rw [this]
    · simp only [h, ↓reduceIte] at hg
      have : Map.erase ((k1, v1) :: rest) k = (k1, v1) :: Map.erase rest k := by
        simp [Map.erase, h]
      rw [this]
      exact ((ih hn.2 hg).cons (k1, v1)).trans (List.Perm.swap _ _ _)

end Keys

/-! ## value and references of a key in an unspent set -/

def uValue (u : Utxo) (pk : Bytes) : Int :=
  ((u.filter (fun e => e.2.pk = pk)).map (fun e => (e.2.value : Int))).sum

def uRefs (u : Utxo) (pk : Bytes) : List OutRef := (u.filter (fun e => e.2.pk = pk)).map (·.1)

theorem sum_perm {l₁ l₂ : List Int} (h : l₁.Perm l₂) : l₁.sum = l₂.sum := by
  induction h with
  | nil => rfl
  | cons a _ ih => simp only [List.sum_cons, ih]
  | swap a b l => simp only [List.sum_cons]; omega
  | trans _ _ ih1 ih2 => exact ih1.trans ih2

theorem uValue_perm {u u' : Utxo} (h : u.Perm u') (pk : Bytes) : uValue u pk = uValue u' pk :=
  sum_perm ((h.filter _).map _)

theorem uRefs_perm {u u' : Utxo} (h : u.Perm u') (pk : Bytes) :
    (uRefs u pk).Perm (uRefs u' pk) := (h.filter _).map _

theorem uValue_cons (k : OutRef) (o : Output) (u : Utxo) (pk : Bytes) :
    uValue ((k, o) :: u) pk = if o.pk = pk then (o.value : Int) + uValue u pk else uValue u pk := by
  unfold uValue
  by_cases h : o.pk = pk <;> simp [h]

theorem uRefs_cons (k : OutRef) (o : Output) (u : Utxo) (pk : Bytes) :
    uRefs ((k, o) :: u) pk = if o.pk = pk then k :: uRefs u pk else uRefs u pk := by
  unfold uRefs
  by_cases h : o.pk = pk <;> simp [h]

theorem uValue_of_uRefs_nil (u : Utxo) (pk : Bytes) (h : uRefs u pk = []) : uValue u pk = 0 := by
  unfold uRefs at h
  unfold uValue
  rw [List.map_eq_nil_iff] at h
  rw [h]
  rfl

theorem uRefs_erase (u : Utxo) (r : OutRef) (pk : Bytes) :
    uRefs (u.erase r) pk = (uRefs u pk).filter (fun x => x ≠ r) := by
  induction u with
  | nil => rfl
  | cons e rest ih =>
    obtain ⟨k, o⟩ := e
    have ih' : uRefs (List.filter (fun p => decide (p.1 ≠ r)) rest) pk =
        (uRefs rest pk).filter (fun x => x ≠ r) := ih
    by_cases h1 : k = r <;> by_cases h2 : o.pk = pk <;>
      simpa [Map.erase, uRefs_cons, h1, h2] using ih'

/-! ## the relation between an unspent set and the balances -/

def AgreeAt (u : Utxo) (ob : Option PKBalance) (pk : Bytes) : Prop :=
  match ob with
  | some bal => bal.value = uValue u pk ∧ bal.refs.Perm (uRefs u pk)
  | none => uRefs u pk = []

def Agree (u : Utxo) (p : PKBalances) : Prop :=
  (u.map (·.1)).Nodup ∧ ∀ pk, AgreeAt u (p.get? pk) pk

theorem agree_nil : Agree [] [] := ⟨List.nodup_nil, fun _ => rfl⟩

theorem agreeAt_congr {u u' : Utxo} {ob : Option PKBalance} {pk : Bytes}
    (hv : uValue u pk = uValue u' pk) (hr : (uRefs u pk).Perm (uRefs u' pk))
    (h : AgreeAt u ob pk) : AgreeAt u' ob pk := by
  cases ob with
  | none =>
    have h' : uRefs u pk = [] := h
    rw [h'] at hr
    exact List.Perm.nil_eq hr |>.symm
  | some bal =>
    have h' : bal.value = uValue u pk ∧ bal.refs.Perm (uRefs u pk) := h
    exact ⟨h'.1.trans hv, h'.2.trans hr⟩

/-- one spent reference -/
theorem agree_erase {u : Utxo} {p : PKBalances} (r : OutRef) (o : Output) (bal : PKBalance)
    (h : Agree u p) (hu : u.get? r = some o) (hp : p.get? o.pk = some bal) :
    Agree (u.erase r)
      (p.set o.pk ⟨bal.value - o.value, bal.refs.filter (fun x => x ≠ r)⟩) := by
  refine ⟨nodup_erase u r h.1, fun pk => ?_⟩
  have hperm := perm_erase u r o h.1 hu
  have hpk := h.2 pk
  rw [Map.get?_set]
  by_cases hk : o.pk = pk
  · subst hk
    rw [hp] at hpk
    have hpk' : bal.value = uValue u o.pk ∧ bal.refs.Perm (uRefs u o.pk) := hpk
    simp only [↓reduceIte]
    show bal.value - o.value = uValue (u.erase r) o.pk ∧
      (bal.refs.filter (fun x => x ≠ r)).Perm (uRefs (u.erase r) o.pk)
    constructor
    · have := uValue_perm hperm o.pk
      rw [uValue_cons] at this
      simp only [↓reduceIte] at this
      omega
    · rw [uRefs_erase]
      exact hpk'.2.filter _
  · simp only [hk, ↓reduceIte]
    refine agreeAt_congr ?_ ?_ hpk
    · have := uValue_perm hperm pk
      rw [uValue_cons] at this
      simpa only [hk, ↓reduceIte] using this
    · have := uRefs_perm hperm pk
      rw [uRefs_cons] at this
      simpa only [hk, ↓reduceIte] using this

/-- one created reference -/
theorem agree_set {u : Utxo} {p : PKBalances} (k : OutRef) (o : Output)
    (h : Agree u p) (hk : u.contains k = false) :
    Agree (u.set k o)
      (p.set o.pk ⟨((p.get? o.pk).getD ⟨0, []⟩).value + o.value,
        ((p.get? o.pk).getD ⟨0, []⟩).refs ++ [k]⟩) := by
  have hset : u.set k o = (k, o) :: u := by
    unfold Map.set
    rw [Map.erase_of_get?_none u k (get?_none_of_contains_false u k hk)]
  rw [hset]
  refine ⟨?_, fun pk => ?_⟩
  · simp only [List.map_cons, List.nodup_cons]
    refine ⟨?_, h.1⟩
    rw [mem_keys_iff_contains, hk]
    simp
  · have hpk := h.2 pk
    rw [Map.get?_set]
    by_cases hq : o.pk = pk
    · subst hq
      simp only [↓reduceIte]
      show _ = uValue ((k, o) :: u) o.pk ∧ List.Perm _ (uRefs ((k, o) :: u) o.pk)
      rw [uValue_cons, uRefs_cons]
      simp only [↓reduceIte]
      cases hg : p.get? o.pk with
      | none =>
        rw [hg] at hpk
        have h0 : uRefs u o.pk = [] := hpk
        rw [h0, uValue_of_uRefs_nil u o.pk h0]
        simp
      | some bal =>
        rw [hg] at hpk
        have hb : bal.value = uValue u o.pk ∧ bal.refs.Perm (uRefs u o.pk) := hpk
        simp only [Option.getD_some]
        refine ⟨by omega, ?_⟩
        exact (List.perm_append_singleton k bal.refs).trans (hb.2.cons k)
    · simp only [hq, ↓reduceIte]
      refine agreeAt_congr ?_ ?_ hpk
      · rw [uValue_cons]; simp only [hq, ↓reduceIte]
      · rw [uRefs_cons]; simp only [hq, ↓reduceIte]; exact List.Perm.refl _

/-! ## the running unspent set of a block against the parent's set -/

/-- a reference known to the parent's set `u₀` and still present in `u` carries the same output -/
def Compat (u u₀ : Utxo) : Prop :=
  ∀ r o, u₀.get? r = some o → u.contains r = true → u.get? r = some o

theorem compat_refl (u : Utxo) : Compat u u := fun _ _ h _ => h

theorem compat_erase {u u₀ : Utxo} (k : OutRef) (h : Compat u u₀) : Compat (u.erase k) u₀ := by
  intro r o h0 hc
  rw [Map.contains_erase] at hc
  simp only [ne_eq, Bool.and_eq_true, decide_eq_true_eq] at hc
  rw [Map.get?_erase_other _ _ _ hc.1]
  exact h r o h0 hc.2

theorem compat_set {u u₀ : Utxo} (k : OutRef) (v : Output) (h : Compat u u₀)
    (hk : u₀.contains k = false) : Compat (u.set k v) u₀ := by
  intro r o h0 hc
  have hne : k ≠ r := by
    intro e
    subst e
    simp [Map.contains, h0] at hk
  rw [Map.contains_set] at hc
  simp only [hne, decide_false, Bool.false_or] at hc
  rw [Map.get?_set_other _ _ _ _ hne]
  exact h r o h0 hc

/-! ## all outputs of a transaction -/

theorem agree_addOutputs (txid : Bytes) : ∀ (outs : List Output) (u : Utxo) (p : PKBalances)
    (start : Nat), Agree u p →
    (∀ i, start ≤ i → i < start + outs.length → u.contains ⟨txid, i⟩ = false) →
    Agree (addOutputs u txid outs start) (pkbCredit p txid outs start) := by
  intro outs
  induction outs with
  | nil => intro u p start h _; exact h
  | cons o rest ih =>
    intro u p start h hf
    show Agree (addOutputs (u.set ⟨txid, start⟩ o) txid rest (start + 1))
      (pkbCredit (p.set o.pk ⟨((p.get? o.pk).getD ⟨0, []⟩).value + o.value,
        ((p.get? o.pk).getD ⟨0, []⟩).refs ++ [⟨txid, start⟩]⟩) txid rest (start + 1))
    apply ih
    · exact agree_set _ o h (hf start (Nat.le_refl _) (by simp))
    · intro i h1 h2
      rw [Map.contains_set]
      have := hf i (by omega) (by simp only [List.length_cons]; omega)
      have hne : ¬ start = i := by omega
      simp [this, hne]

theorem compat_addOutputs (u₀ : Utxo) (txid : Bytes) : ∀ (outs : List Output) (u : Utxo)
    (start : Nat), Compat u u₀ →
    (∀ i, start ≤ i → i < start + outs.length → u₀.contains ⟨txid, i⟩ = false) →
    Compat (addOutputs u txid outs start) u₀ := by
  intro outs
  induction outs with
  | nil => intro u start h _; exact h
  | cons o rest ih =>
    intro u start h hf
    show Compat (addOutputs (u.set ⟨txid, start⟩ o) txid rest (start + 1)) u₀
    apply ih
    · exact compat_set _ o h (hf start (Nat.le_refl _) (by simp))
    · intro i h1 h2
      exact hf i (by omega) (by simp only [List.length_cons]; omega)

theorem nodup_addOutputs (txid : Bytes) : ∀ (outs : List Output) (u : Utxo) (start : Nat),
    (u.map (·.1)).Nodup → ((addOutputs u txid outs start).map (·.1)).Nodup := by
  intro outs
  induction outs with
  | nil => intro u start h; exact h
  | cons o rest ih =>
    intro u start h
    show ((addOutputs (u.set ⟨txid, start⟩ o) txid rest (start + 1)).map (·.1)).Nodup
    exact ih _ _ (nodup_set u _ o h)

/-! ## all inputs of a transaction -/

theorem nodup_removeInputs : ∀ (ins : List Input) (u u' : Utxo),
    (u.map (·.1)).Nodup → removeInputs u ins = .ok u' → (u'.map (·.1)).Nodup := by
  intro ins
  induction ins with
  | nil => intro u u' h hr; cases hr; exact h
  | cons i rest ih =>
    intro u u' h hr
    by_cases hc : u.contains i.ref = true
    · simp only [removeInputs, hc, ↓reduceIte] at hr
      exact ih _ _ (nodup_erase u _ h) hr
    · simp only [removeInputs, hc] at hr
      cases hr

/-- `pkbSpend` looks the spent outputs up in the parent's set `u₀`, `removeInputs` deletes them
from the running set `u`: the two stay in step as long as `u` is compatible with `u₀` -/
theorem agree_spend (u₀ : Utxo) : ∀ (ins : List Input) (u : Utxo) (p : PKBalances) (u' : Utxo)
    (p' : PKBalances), Agree u p → Compat u u₀ → removeInputs u ins = .ok u' →
    pkbSpend u₀ p ins = .ok p' → Agree u' p' ∧ Compat u' u₀ := by
  intro ins
  induction ins with
  | nil =>
    intro u p u' p' ha hc h1 h2
    cases h1; cases h2
    exact ⟨ha, hc⟩
  | cons i rest ih =>
    intro u p u' p' ha hc h1 h2
    by_cases hcon : u.contains i.ref = true
    · simp only [removeInputs, hcon, ↓reduceIte] at h1
      cases h0 : u₀.get? i.ref with
      | none => simp only [pkbSpend, h0] at h2; cases h2
      | some o =>
        cases hp : p.get? o.pk with
        | none => simp only [pkbSpend, h0, hp] at h2; cases h2
        | some bal =>
          simp only [pkbSpend, h0, hp] at h2
          have hu : u.get? i.ref = some o := hc _ _ h0 hcon
          exact ih _ _ _ _ (agree_erase i.ref o bal ha hu hp) (compat_erase _ hc) h1 h2
    · simp only [removeInputs, hcon] at h1
      cases h1

/-! ## one transaction -/

variable (C : Crypto)

theorem utoApplyTx_true (u : Utxo) (t : CTx) :
    utoApplyTx C u t true = .ok (addOutputs u (t.id C) t.tx.outputs 0) := rfl

theorem pkbApplyTx_true (u : Utxo) (p : PKBalances) (t : CTx) :
    pkbApplyTx C u p t true = .ok (pkbCredit p (t.id C) t.tx.outputs 0) := rfl

theorem utoApplyTx_false_ok {u u' : Utxo} {t : CTx} (h : utoApplyTx C u t false = .ok u') :
    ∃ u₁, removeInputs u t.tx.inputs = .ok u₁ ∧ u' = addOutputs u₁ (t.id C) t.tx.outputs 0 := by
  unfold utoApplyTx at h
  simp only [Bool.false_eq_true, ↓reduceIte, bind, Except.bind, pure, Except.pure] at h
  cases hr : removeInputs u t.tx.inputs with
  | error e => rw [hr] at h; cases h
  | ok u₁ => rw [hr] at h; cases h; exact ⟨u₁, rfl, rfl⟩

theorem pkbApplyTx_false_ok {u₀ : Utxo} {p p' : PKBalances} {t : CTx}
    (h : pkbApplyTx C u₀ p t false = .ok p') :
    ∃ p₁, pkbSpend u₀ p t.tx.inputs = .ok p₁ ∧ p' = pkbCredit p₁ (t.id C) t.tx.outputs 0 := by
  unfold pkbApplyTx at h
  simp only [Bool.false_eq_true, ↓reduceIte, bind, Except.bind, pure, Except.pure] at h
  cases hr : pkbSpend u₀ p t.tx.inputs with
  | error e => rw [hr] at h; cases h
  | ok p₁ => rw [hr] at h; cases h; exact ⟨p₁, rfl, rfl⟩

/-- the reward transaction of a block: outputs only -/
theorem agree_coinbase {u : Utxo} {p : PKBalances} (t : CTx) (ha : Agree u p)
    (hf : ∀ i, i < t.tx.outputs.length → u.contains ⟨t.id C, i⟩ = false) :
    Agree (addOutputs u (t.id C) t.tx.outputs 0) (pkbCredit p (t.id C) t.tx.outputs 0) ∧
      Compat (addOutputs u (t.id C) t.tx.outputs 0) u :=
  ⟨agree_addOutputs _ _ _ _ _ ha (fun i _ h => hf i (by omega)),
   compat_addOutputs u _ _ _ _ (compat_refl u) (fun i _ h => hf i (by omega))⟩

/-- any other transaction: inputs, then outputs -/
theorem agree_tx {u₀ u u₁ : Utxo} {p p₁ : PKBalances} (t : CTx) (ha : Agree u p)
    (hc : Compat u u₀) (hr : removeInputs u t.tx.inputs = .ok u₁)
    (hs : pkbSpend u₀ p t.tx.inputs = .ok p₁)
    (hf : ∀ i, i < t.tx.outputs.length → u₁.contains ⟨t.id C, i⟩ = false)
    (hf₀ : ∀ i, i < t.tx.outputs.length → u₀.contains ⟨t.id C, i⟩ = false) :
    Agree (addOutputs u₁ (t.id C) t.tx.outputs 0) (pkbCredit p₁ (t.id C) t.tx.outputs 0) ∧
      Compat (addOutputs u₁ (t.id C) t.tx.outputs 0) u₀ := by
  obtain ⟨ha₁, hc₁⟩ := agree_spend u₀ _ _ _ _ _ ha hc hr hs
  exact ⟨agree_addOutputs _ _ _ _ _ ha₁ (fun i _ h => hf i (by omega)),
    compat_addOutputs u₀ _ _ _ _ hc₁ (fun i _ h => hf₀ i (by omega))⟩

/-! ## decomposition of the block and chain folds -/

theorem utoApplyTxs_cons_ok {u u' : Utxo} {t : CTx} {rest : List CTx}
    (h : utoApplyTxs C u (t :: rest) = .ok u') :
    ∃ u₁, utoApplyTx C u t false = .ok u₁ ∧ utoApplyTxs C u₁ rest = .ok u' := by
  unfold utoApplyTxs at h
  simp only [bind, Except.bind] at h
  cases hr : utoApplyTx C u t false with
  | error e => rw [hr] at h; cases h
  | ok u₁ => rw [hr] at h; exact ⟨u₁, rfl, h⟩

theorem pkbApplyTxs_cons_ok {u₀ : Utxo} {p p' : PKBalances} {t : CTx} {rest : List CTx}
    (h : pkbApplyTxs C u₀ p (t :: rest) = .ok p') :
    ∃ p₁, pkbApplyTx C u₀ p t false = .ok p₁ ∧ pkbApplyTxs C u₀ p₁ rest = .ok p' := by
  unfold pkbApplyTxs at h
  simp only [bind, Except.bind] at h
  cases hr : pkbApplyTx C u₀ p t false with
  | error e => rw [hr] at h; cases h
  | ok p₁ => rw [hr] at h; exact ⟨p₁, rfl, h⟩

theorem utoApplyBlock_ok {u u' : Utxo} {b : Block} (h : utoApplyBlock C u b = .ok u') :
    ∃ cb rest, b.txs = cb :: rest ∧
      utoApplyTxs C (addOutputs u (cb.id C) cb.tx.outputs 0) rest = .ok u' := by
  unfold utoApplyBlock at h
  cases hb : b.txs with
  | nil => rw [hb] at h; cases h
  | cons cb rest =>
    rw [hb] at h
    exact ⟨cb, rest, rfl, h⟩

theorem pkbApplyBlock_ok {u₀ : Utxo} {p p' : PKBalances} {b : Block}
    (h : pkbApplyBlock C u₀ p b = .ok p') :
    ∃ cb rest, b.txs = cb :: rest ∧
      pkbApplyTxs C u₀ (pkbCredit p (cb.id C) cb.tx.outputs 0) rest = .ok p' := by
  unfold pkbApplyBlock at h
  cases hb : b.txs with
  | nil => rw [hb] at h; cases h
  | cons cb rest =>
    rw [hb] at h
    exact ⟨cb, rest, rfl, h⟩

theorem replay_cons_ok {b : Block} {rest : List Block} {u : Utxo} {p : PKBalances}
    {r : Utxo × PKBalances} (h : replay C (b :: rest) u p = .ok r) :
    ∃ p' u', pkbApplyBlock C u p b = .ok p' ∧ utoApplyBlock C u b = .ok u' ∧
      replay C rest u' p' = .ok r := by
  unfold replay at h
  simp only [bind, Except.bind] at h
  cases hp : pkbApplyBlock C u p b with
  | error e => rw [hp] at h; cases h
  | ok p' =>
    rw [hp] at h
    cases hu : utoApplyBlock C u b with
    | error e => rw [hu] at h; cases h
    | ok u' => rw [hu] at h; exact ⟨p', u', rfl, rfl, h⟩

/-! ## distinct keys along the replay (no side condition) -/

theorem nodup_utoApplyTxs : ∀ (txs : List CTx) (u u' : Utxo), (u.map (·.1)).Nodup →
    utoApplyTxs C u txs = .ok u' → (u'.map (·.1)).Nodup := by
  intro txs
  induction txs with
  | nil => intro u u' h hr; cases hr; exact h
  | cons t rest ih =>
    intro u u' h hr
    obtain ⟨u₁, h1, h2⟩ := utoApplyTxs_cons_ok C hr
    obtain ⟨u₂, h3, rfl⟩ := utoApplyTx_false_ok C h1
    exact ih _ _ (nodup_addOutputs _ _ _ _ (nodup_removeInputs _ _ _ h h3)) h2

theorem nodup_utoApplyBlock {u u' : Utxo} {b : Block} (h : (u.map (·.1)).Nodup)
    (hr : utoApplyBlock C u b = .ok u') : (u'.map (·.1)).Nodup := by
  obtain ⟨cb, rest, _, h2⟩ := utoApplyBlock_ok C hr
  exact nodup_utoApplyTxs C _ _ _ (nodup_addOutputs _ _ _ _ h) h2

theorem nodup_replay : ∀ (chain : List Block) (u₀ : Utxo) (p₀ : PKBalances) (u : Utxo)
    (p : PKBalances), (u₀.map (·.1)).Nodup → replay C chain u₀ p₀ = .ok (u, p) →
    (u.map (·.1)).Nodup := by
  intro chain
  induction chain with
  | nil => intro u₀ p₀ u p h hr; cases hr; exact h
  | cons b rest ih =>
    intro u₀ p₀ u p h hr
    obtain ⟨p', u', _, h2, h3⟩ := replay_cons_ok C hr
    exact ih _ _ _ _ (nodup_utoApplyBlock C h h2) h3

end Bal
end Model

import Model.Node
import Model.Spec
import Proofs.Map
import Proofs.Chain
import Proofs.Sync

/-!
Lemmas used by `Props/C10Walk.lean`: the requester's follow-up loop `walk` against one server state,
the shape of the active chain (`ActiveChain`) and that every state built from a well-formed arrival
history has it (`built`), the server's scan over a locator built from another well-formed state.
-/

namespace C10Walk
open Model

variable (C : Crypto) (P : Params)

-- `walk` itself is defined in Model/Node.lean (so that the driver runs it)

/-! ## the shape of an active chain -/

/-- `index` is the by-height index of the head `hd` of `cs`, it holds a block at exactly the heights
`0 … hd.height`, each stored under its id with that height, each linked to the one below -/
structure ActiveChain (cs : CoinState) (index : Map Nat Block) (hd : Block) : Prop where
  cur : cs.current.bind cs.byHeightAt.get? = some index
  head : cs.head = some hd
  full : ∀ h, h ≤ hd.height → ∃ blk, index.get? h = some blk
  top : ∀ h, hd.height < h → index.get? h = none
  stored : ∀ h blk, index.get? h = some blk → cs.blocks.get? (blk.id C) = some blk ∧ blk.height = h
  link : ∀ h blk nxt, index.get? h = some blk → index.get? (h + 1) = some nxt → nxt.prev = blk.id C

theorem ActiveChain.le_of_some {cs : CoinState} {index : Map Nat Block} {hd : Block}
    (W : ActiveChain C cs index hd) {h : Nat} {blk : Block} (hg : index.get? h = some blk) :
    h ≤ hd.height := by
  refine Nat.le_of_not_lt fun hlt => ?_
  rw [W.top h hlt] at hg
  cases hg

/-! ## states built from well-formed arrival histories -/

/-- what the by-height index stored for the block `b` of the history `bs` looks like -/
structure IdxInv (bs : List Block) (b : Block) (idx : Map Nat Block) : Prop where
  self : idx.get? b.height = some b
  full : ∀ h, h ≤ b.height → ∃ a, idx.get? h = some a
  top : ∀ h, b.height < h → idx.get? h = none
  mem : ∀ h a, idx.get? h = some a → a ∈ bs ∧ a.height = h
  link : ∀ h a n, idx.get? h = some a → idx.get? (h + 1) = some n → n.prev = a.id C
  gen : idx.get? 0 = bs.head?

theorem IdxInv.mono {bs : List Block} {b : Block} {idx : Map Nat Block} (I : IdxInv C bs b idx)
    (hne : bs ≠ []) (l : List Block) : IdxInv C (bs ++ l) b idx := by
  refine ⟨I.self, I.full, I.top, ?_, I.link, ?_⟩
  · intro h a ha
    exact ⟨List.mem_append_left _ (I.mem h a ha).1, (I.mem h a ha).2⟩
  · rw [I.gen]
    cases bs with
    | nil => exact absurd rfl hne
    | cons x rest => rfl

/-- the facts about a state built from a well-formed history that the walk theorems use -/
structure StateInv (bs : List Block) (s : CoinState) : Prop where
  idx : ∀ b ∈ bs, ∃ idx, s.byHeightAt.get? (b.id C) = some idx ∧ IdxInv C bs b idx
  store : ∀ b ∈ bs, s.blocks.get? (b.id C) = some b
  storeInv : ∀ e y, s.blocks.get? e = some y → y ∈ bs ∧ y.id C = e
  cur : ∃ m ∈ bs, s.current = some (m.id C)

theorem stateInv (bs : List Block) (s : CoinState) (hwf : WFArrivals C bs)
    (hf : foldBlocks C .empty bs = .ok s) : StateInv C bs s := by
  induction hwf generalizing s with
  | genesis g h1 h2 h3 =>
    obtain ⟨hb, -, hbh, -, hc, -⟩ := add_ok_inv C (foldBlocks_single_ok C hf)
    have hbh := hbh h1
    have hc := hc rfl
    refine ⟨?_, ?_, ?_, ⟨g, List.mem_singleton.2 rfl, hc⟩⟩
    · intro b hb'
      rw [List.mem_singleton.1 hb', hbh]
      refine ⟨[(0, g)], by simp [Map.get?_cons], ?_⟩
      refine ⟨?_, ?_, ?_, ?_, ?_, ?_⟩
      · rw [h2]; simp [Map.get?_cons]
      · intro h hh
        have : h = 0 := by omega
        subst this
        exact ⟨g, by simp [Map.get?_cons]⟩
      · intro h hh
        have : ¬ 0 = h := by omega
        simp [Map.get?_cons, this]
      · intro h a ha
        rw [Map.get?_cons] at ha
        split at ha
        · rename_i h0
          cases ha
          exact ⟨List.mem_singleton.2 rfl, h0 ▸ h2⟩
        · cases ha
      · intro h a n _ hn
        rw [Map.get?_cons] at hn
        split at hn
        · omega
        · cases hn
      · simp [Map.get?_cons]
    · intro b hb'
      rw [List.mem_singleton.1 hb', hb, Map.get?_set_self]
    · intro e y hy
      rw [hb, Map.get?_set] at hy
      split at hy
      · rename_i he
        cases hy
        exact ⟨List.mem_singleton.2 rfl, he⟩
      · cases hy
  | snoc bs x p hwf hp hprev hht hnz hfresh ih =>
    obtain ⟨s₀, hf₀, ha⟩ := foldBlocks_snoc_ok C hf
    have F := hwf.facts C
    have I₀ := ih s₀ hf₀
    have hz : x.prev ≠ zeros 32 := by rw [hprev]; exact F.nz p hp
    obtain ⟨hb, -, -, hbh, hc0, hc1, hc2⟩ := add_ok_inv C ha
    obtain ⟨bh, hbhp, hbh⟩ := hbh hz
    obtain ⟨idxp, hidxp, Ip⟩ := I₀.idx p hp
    rw [hprev, hidxp] at hbhp
    cases hbhp
    have hxmem : x ∈ bs ++ [x] := List.mem_append_right _ (List.mem_singleton.2 rfl)
    refine ⟨?_, ?_, ?_, ?_⟩
    · intro b hb'
      rcases List.mem_append.1 hb' with hb' | hb'
      · have hne : x.id C ≠ b.id C := fun e => hfresh b hb' e.symm
        obtain ⟨idx, hidx, I⟩ := I₀.idx b hb'
        exact ⟨idx, by rw [hbh, Map.get?_set_other _ _ _ _ hne]; exact hidx, I.mono C F.ne [x]⟩
      · rw [List.mem_singleton.1 hb']
        refine ⟨_, by rw [hbh, Map.get?_set_self], ?_⟩
        have Ip' := Ip.mono C F.ne [x]
        refine ⟨Map.get?_set_self .., ?_, ?_, ?_, ?_, ?_⟩
        · intro h hh
          by_cases he : x.height = h
          · exact ⟨x, by rw [Map.get?_set, if_pos he]⟩
          · rw [Map.get?_set, if_neg he]
            exact Ip.full h (by omega)
        · intro h hh
          have he : ¬ x.height = h := by omega
          rw [Map.get?_set, if_neg he]
          exact Ip.top h (by omega)
        · intro h a hget
          rw [Map.get?_set] at hget
          split at hget
          · rename_i he
            cases hget
            exact ⟨hxmem, he⟩
          · exact Ip'.mem h a hget
        · intro h a n hga hgn
          rw [Map.get?_set] at hga hgn
          split at hgn
          · rename_i he
            cases hgn
            have he' : ¬ x.height = h := by omega
            rw [if_neg he'] at hga
            have : h = p.height := by omega
            rw [this, Ip.self] at hga
            cases hga
            exact hprev
          · split at hga
            · rename_i he
              rw [Ip.top (h + 1) (by omega)] at hgn
              cases hgn
            · exact Ip.link h a n hga hgn
        · have he : ¬ x.height = 0 := by omega
          rw [Map.get?_set, if_neg he]
          exact Ip'.gen
    · intro b hb'
      rw [hb]
      rcases List.mem_append.1 hb' with hb' | hb'
      · have hne : x.id C ≠ b.id C := fun e => hfresh b hb' e.symm
        rw [Map.get?_set_other _ _ _ _ hne]
        exact I₀.store b hb'
      · rw [List.mem_singleton.1 hb', Map.get?_set_self]
    · intro e y hy
      rw [hb, Map.get?_set] at hy
      split at hy
      · rename_i he
        cases hy
        exact ⟨hxmem, he⟩
      · obtain ⟨h1, h2⟩ := I₀.storeInv e y hy
        exact ⟨List.mem_append_left _ h1, h2⟩
    · obtain ⟨m, hm, hcur⟩ := I₀.cur
      by_cases hmp : m.id C = x.prev
      · exact ⟨x, hxmem, hc1 _ hcur hmp⟩
      · obtain ⟨cb, -, hc⟩ := hc2 _ hcur hmp
        rw [hc]
        split
        · exact ⟨x, hxmem, rfl⟩
        · exact ⟨m, List.mem_append_left _ hm, rfl⟩

/-- what a state built from a well-formed history offers: an active chain all of whose blocks are
blocks of the history, a store that holds exactly the history, and the first block of the history at
height 0 of the active chain -/
structure Built (bs : List Block) (s : CoinState) (index : Map Nat Block) (hd : Block) : Prop where
  chain : ActiveChain C s index hd
  mem : ∀ h blk, index.get? h = some blk → blk ∈ bs
  storeInv : ∀ e y, s.blocks.get? e = some y → y ∈ bs ∧ y.id C = e
  gen : index.get? 0 = bs.head?

theorem built_exists (bs : List Block) (s : CoinState) (hwf : WFArrivals C bs)
    (hf : foldBlocks C .empty bs = .ok s) : ∃ index hd, Built C bs s index hd := by
  have I := stateInv C bs s hwf hf
  obtain ⟨m, hm, hcur⟩ := I.cur
  obtain ⟨idx, hidx, J⟩ := I.idx m hm
  refine ⟨idx, m, ⟨?_, ?_, J.full, J.top, ?_, J.link⟩, fun h blk hg => (J.mem h blk hg).1,
    I.storeInv, J.gen⟩
  · rw [hcur, Option.bind_some, hidx]
  · unfold CoinState.head
    rw [hcur, Option.bind_some, I.store m hm]
  · intro h blk hg
    obtain ⟨h1, h2⟩ := J.mem h blk hg
    exact ⟨I.store blk h1, h2⟩

/-- the index and the head of a built state are the ones `built_exists` describes -/
theorem built (bs : List Block) (s : CoinState) (hwf : WFArrivals C bs)
    (hf : foldBlocks C .empty bs = .ok s) (index : Map Nat Block) (hd : Block)
    (hidx : s.current.bind s.byHeightAt.get? = some index) (hhd : s.head = some hd) :
    Built C bs s index hd := by
  obtain ⟨index', hd', B⟩ := built_exists C bs s hwf hf
  have h1 : index' = index := Option.some.inj (B.chain.cur.symm.trans hidx)
  have h2 : hd' = hd := Option.some.inj (B.chain.head.symm.trans hhd)
  subst h1 h2
  exact B

/-! ## ids along an index -/

/-- the id of the block the index holds at height `h` (the empty string if there is none) -/
def idAt (index : Map Nat Block) (h : Nat) : Bytes := ((index.get? h).map (·.id C)).getD []

/-- the ids of the blocks the index holds at heights `start, …, start + n - 1` -/
def chainIds (index : Map Nat Block) (start n : Nat) : List Bytes :=
  (List.range' start n).map (idAt C index)

theorem idAt_of_some {index : Map Nat Block} {h : Nat} {blk : Block} (hg : index.get? h = some blk) :
    idAt C index h = blk.id C := by
  simp [idAt, hg]

theorem chainIds_length (index : Map Nat Block) (start n : Nat) :
    (chainIds C index start n).length = n := by
  simp [chainIds]

theorem chainIds_getElem (index : Map Nat Block) (start n k : Nat)
    (hk : k < (chainIds C index start n).length) :
    (chainIds C index start n)[k] = idAt C index (start + k) := by
  simp [chainIds]

theorem chainIds_append (index : Map Nat Block) (start m n : Nat) :
    chainIds C index start m ++ chainIds C index (start + m) n = chainIds C index start (m + n) := by
  unfold chainIds
  rw [← List.map_append]
  congr 1
  have := @List.range'_append start m n 1
  rw [Nat.one_mul] at this
  exact this

theorem chainIds_getLast (index : Map Nat Block) (start m : Nat) :
    (chainIds C index start (m + 1)).getLast? = some (idAt C index (start + m)) := by
  unfold chainIds
  rw [List.range'_concat, List.map_append]
  simp

theorem mem_chainIds (index : Map Nat Block) (start n h : Nat) (h1 : start ≤ h) (h2 : h < start + n) :
    idAt C index h ∈ chainIds C index start n := by
  unfold chainIds
  rw [List.mem_map]
  exact ⟨h, by rw [List.mem_range'_1]; omega, rfl⟩

/-! ## `mapM` in `Except`, the other way round -/

theorem mapM_except_eq_ok {ε α β : Type} (f : α → Except ε β) (g : α → β) : ∀ (l : List α),
    (∀ x ∈ l, f x = .ok (g x)) → l.mapM f = .ok (l.map g) := by
  intro l
  induction l with
  | nil => intro _; rfl
  | cons a rest ih =>
    intro h
    rw [List.mapM_cons, h a (List.mem_cons_self ..), ih (fun x hx => h x (List.mem_cons_of_mem _ hx))]
    rfl

theorem mapM_except_ok_map {ε α β : Type} (f : α → Except ε β) (g : α → β) : ∀ (l : List α)
    (ys : List β), l.mapM f = .ok ys → (∀ x ∈ l, ∀ y, f x = .ok y → y = g x) → ys = l.map g := by
  intro l
  induction l with
  | nil =>
    intro ys h _
    rw [List.mapM_nil] at h
    cases h
    rfl
  | cons a rest ih =>
    intro ys h hg
    rw [List.mapM_cons] at h
    cases hfa : f a with
    | error e => rw [hfa] at h; cases h
    | ok y =>
      cases hr : rest.mapM f with
      | error e => rw [hfa, hr] at h; cases h
      | ok ys' =>
        rw [hfa, hr] at h
        cases h
        rw [List.map_cons, ← hg a (List.mem_cons_self ..) y hfa,
          ← ih ys' hr (fun x hx => hg x (List.mem_cons_of_mem _ hx))]

/-! ## the inventory reply, from the result of the scan -/

theorem reply_of_scan_none {cs : CoinState} {index : Map Nat Block} {hd : Block}
    (hidx : cs.current.bind cs.byHeightAt.get? = some index) (hhd : cs.head = some hd)
    (loc : List Bytes) (hs : inventoryReply.scan cs index loc = none) :
    inventoryReply C P cs loc = .ok [] := by
  unfold inventoryReply
  simp only [hidx, hhd, hs]

theorem reply_of_scan_start {cs : CoinState} {index : Map Nat Block} {hd : Block}
    (W : ActiveChain C cs index hd) (loc : List Bytes) (start : Nat)
    (hs : inventoryReply.scan cs index loc = some (some start)) :
    inventoryReply C P cs loc =
      .ok (chainIds C index start (min (start + P.inventorySize) (hd.height + 1) - start)) := by
  unfold inventoryReply
  simp only [W.cur, W.head, hs]
  unfold chainIds
  apply mapM_except_eq_ok
  intro h hh
  rw [List.mem_range'_1] at hh
  obtain ⟨blk, hg⟩ := W.full h (by omega)
  rw [hg, idAt_of_some C hg]

/-! ## the scan for a one-entry locator on the active chain -/

theorem scan_single_below {cs : CoinState} {index : Map Nat Block} {hd : Block}
    (W : ActiveChain C cs index hd) {k : Nat} {x : Block} (hx : index.get? k = some x)
    (hk : k < hd.height) : inventoryReply.scan cs index [x.id C] = some (some (k + 1)) := by
  obtain ⟨hst, hh⟩ := W.stored k x hx
  obtain ⟨nxt, hn⟩ := W.full (k + 1) hk
  have hl := W.link k x nxt hx hn
  unfold inventoryReply.scan
  simp only [hst, hh, hn, hl, ↓reduceIte]

theorem scan_single_head {cs : CoinState} {index : Map Nat Block} {hd : Block}
    (W : ActiveChain C cs index hd) {x : Block} (hx : index.get? hd.height = some x) :
    inventoryReply.scan cs index [x.id C] = none := by
  obtain ⟨hst, hh⟩ := W.stored _ x hx
  have hn := W.top (hd.height + 1) (Nat.lt_succ_self _)
  unfold inventoryReply.scan
  simp only [hst, hh, hn]

/-! ## the walk -/

theorem walk_zero (cs : CoinState) (loc : List Bytes) : walk C P cs 0 loc = .ok [] := rfl

theorem walk_succ_empty (cs : CoinState) (fuel : Nat) (loc : List Bytes)
    (h : inventoryReply C P cs loc = .ok []) : walk C P cs (fuel + 1) loc = .ok [] := by
  simp only [walk, h, List.getLast?_nil]

theorem walk_succ_cons (cs : CoinState) (fuel : Nat) (loc ids rest : List Bytes) (last : Bytes)
    (h : inventoryReply C P cs loc = .ok ids) (hl : ids.getLast? = some last)
    (hr : walk C P cs fuel [last] = .ok rest) : walk C P cs (fuel + 1) loc = .ok (ids ++ rest) := by
  simp only [walk, h, hl, hr]

/-- continuing after the block of the active chain at height `k` lists the heights above `k` -/
theorem walk_from {cs : CoinState} {index : Map Nat Block} {hd : Block}
    (W : ActiveChain C cs index hd) (hinv : 0 < P.inventorySize) : ∀ (fuel k : Nat) (x : Block),
    index.get? k = some x → hd.height - k ≤ fuel →
    walk C P cs fuel [x.id C] = .ok (chainIds C index (k + 1) (hd.height - k)) := by
  intro fuel
  induction fuel with
  | zero =>
    intro k x _ hf
    have : hd.height - k = 0 := by omega
    rw [this]
    rfl
  | succ fuel ih =>
    intro k x hx hf
    have hk := W.le_of_some C hx
    by_cases hlt : k < hd.height
    · have hr := reply_of_scan_start C P W [x.id C] (k + 1) (scan_single_below C W hx hlt)
      obtain ⟨m, hm⟩ : ∃ m, min (k + 1 + P.inventorySize) (hd.height + 1) - (k + 1) = m + 1 :=
        ⟨min (k + 1 + P.inventorySize) (hd.height + 1) - (k + 1) - 1, by omega⟩
      rw [hm] at hr
      obtain ⟨x', hx'⟩ := W.full (k + 1 + m) (by omega)
      have hlast := chainIds_getLast C index (k + 1) m
      rw [idAt_of_some C hx'] at hlast
      have hrest := ih (k + 1 + m) x' hx' (by omega)
      rw [walk_succ_cons C P cs fuel _ _ _ _ hr hlast hrest, Nat.add_assoc (k + 1) m 1,
        chainIds_append]
      congr 2
      omega
    · have hkeq : k = hd.height := by omega
      subst hkeq
      rw [Nat.sub_self]
      exact walk_succ_empty C P cs fuel _
        (reply_of_scan_none C P W.cur W.head _ (scan_single_head C W hx))

/-- the walk with a locator for which the server's scan yields `start` lists the heights from
`start` to the head -/
theorem walk_of_scan_start {cs : CoinState} {index : Map Nat Block} {hd : Block}
    (W : ActiveChain C cs index hd) (hinv : 0 < P.inventorySize) (fuel start : Nat) (loc : List Bytes)
    (hs : inventoryReply.scan cs index loc = some (some start))
    (hf : hd.height + 1 - start ≤ fuel) :
    walk C P cs fuel loc = .ok (chainIds C index start (hd.height + 1 - start)) := by
  cases fuel with
  | zero =>
    have : hd.height + 1 - start = 0 := by omega
    rw [this]
    rfl
  | succ fuel =>
    have hr := reply_of_scan_start C P W loc start hs
    by_cases hlt : start ≤ hd.height
    · obtain ⟨m, hm⟩ : ∃ m, min (start + P.inventorySize) (hd.height + 1) - start = m + 1 :=
        ⟨min (start + P.inventorySize) (hd.height + 1) - start - 1, by omega⟩
      rw [hm] at hr
      obtain ⟨x', hx'⟩ := W.full (start + m) (by omega)
      have hlast := chainIds_getLast C index start m
      rw [idAt_of_some C hx'] at hlast
      have hrest := walk_from C P W hinv fuel (start + m) x' hx' (by omega)
      rw [walk_succ_cons C P cs fuel _ _ _ _ hr hlast hrest, Nat.add_assoc start m 1,
        chainIds_append]
      congr 2
      omega
    · have h0 : min (start + P.inventorySize) (hd.height + 1) - start = 0 := by omega
      have h1 : hd.height + 1 - start = 0 := by omega
      rw [h0] at hr
      rw [h1]
      exact walk_succ_empty C P cs fuel _ hr

/-- the walk with a locator for which the server's scan stops without a start height lists nothing -/
theorem walk_of_scan_none {cs : CoinState} {index : Map Nat Block} {hd : Block}
    (hidx : cs.current.bind cs.byHeightAt.get? = some index) (hhd : cs.head = some hd)
    (fuel : Nat) (loc : List Bytes) (hs : inventoryReply.scan cs index loc = none) :
    walk C P cs fuel loc = .ok [] := by
  cases fuel with
  | zero => rfl
  | succ fuel => exact walk_succ_empty C P cs fuel _ (reply_of_scan_none C P hidx hhd loc hs)

/-! ## a requester's locator against a server: both built from well-formed histories -/

/-- the two active chains hold blocks with the same id at height `j` -/
def Agree (index rindex : Map Nat Block) (j : Nat) : Prop :=
  ∃ a b, index.get? j = some a ∧ rindex.get? j = some b ∧ a.id C = b.id C

theorem scan_cons (cs : CoinState) (index : Map Nat Block) (e : Bytes) (rest : List Bytes) :
    inventoryReply.scan cs index (e :: rest) =
      match cs.blocks.get? e with
      | none => inventoryReply.scan cs index rest
      | some blk =>
        match index.get? (blk.height + 1) with
        | none => none
        | some nxt =>
          if nxt.prev = e then some (some (blk.height + 1)) else inventoryReply.scan cs index rest := by
  rw [inventoryReply.scan]
  rfl

section TwoStates
variable {ss rs : List Block} {srv req : CoinState} {index rindex : Map Nat Block} {hd rhd : Block}

/-- agreement at a height propagates downwards: parents of blocks with the same id have the same id -/
theorem agree_down (Bs : Built C ss srv index hd) (Br : Built C rs req rindex rhd)
    (hcompat : ∀ a ∈ rs, ∀ b ∈ ss, a.id C = b.id C → a.prev = b.prev ∧ a.height = b.height) :
    ∀ j, Agree C index rindex j → ∀ i, i ≤ j → Agree C index rindex i := by
  intro j
  induction j with
  | zero =>
    intro h i hi
    have : i = 0 := by omega
    subst this
    exact h
  | succ j ih =>
    intro h i hi
    by_cases he : i = j + 1
    · subst he; exact h
    · obtain ⟨a, b, ha, hb, hab⟩ := h
      have h1 := Bs.chain.le_of_some C ha
      have h2 := Br.chain.le_of_some C hb
      obtain ⟨a', ha'⟩ := Bs.chain.full j (by omega)
      obtain ⟨b', hb'⟩ := Br.chain.full j (by omega)
      have l1 := Bs.chain.link j a' a ha' ha
      have l2 := Br.chain.link j b' b hb' hb
      obtain ⟨hp, -⟩ := hcompat b (Br.mem _ b hb) a (Bs.mem _ a ha) hab.symm
      refine ih ⟨a', b', ha', hb', ?_⟩ i (by omega)
      rw [← l1, ← l2, hp]

/-- the server's scan over the ids of the requester's active chain at the heights `L`: it yields a
start height just above a height at which the two active chains agree (height 0, the shared first
block, when no entry matches), or it stops at an entry at least as high as the server's head -/
theorem scan_locator (Bs : Built C ss srv index hd) (Br : Built C rs req rindex rhd)
    (hcompat : ∀ a ∈ rs, ∀ b ∈ ss, a.id C = b.id C → a.prev = b.prev ∧ a.height = b.height)
    (hgen : rs.head? = ss.head?) : ∀ (L : List Nat), (∀ k ∈ L, k ≤ rhd.height) →
    (∃ start, 1 ≤ start ∧
      inventoryReply.scan srv index (L.map (idAt C rindex)) = some (some start) ∧
      Agree C index rindex (start - 1)) ∨
    (inventoryReply.scan srv index (L.map (idAt C rindex)) = none ∧ hd.height ≤ rhd.height) := by
  intro L
  induction L with
  | nil =>
    intro _
    left
    refine ⟨1, Nat.le_refl _, by rw [List.map_nil, inventoryReply.scan], ?_⟩
    obtain ⟨a, ha⟩ := Bs.chain.full 0 (Nat.zero_le _)
    refine ⟨a, a, ha, ?_, rfl⟩
    rw [Br.gen, hgen, ← Bs.gen]
    exact ha
  | cons k L ih =>
    intro hL
    have hk : k ≤ rhd.height := hL k (List.mem_cons_self ..)
    have IH := ih (fun j hj => hL j (List.mem_cons_of_mem _ hj))
    obtain ⟨b, hb⟩ := Br.chain.full k hk
    rw [List.map_cons, idAt_of_some C hb, scan_cons]
    cases hget : srv.blocks.get? (b.id C) with
    | none => exact IH
    | some y =>
      obtain ⟨hy, hyid⟩ := Bs.storeInv _ y hget
      obtain ⟨-, hyh⟩ := hcompat b (Br.mem k b hb) y hy hyid.symm
      have hbh := (Br.chain.stored k b hb).2
      have hyk : y.height = k := hyh.symm.trans hbh
      simp only [hyk]
      cases hn : index.get? (k + 1) with
      | none =>
        right
        refine ⟨rfl, ?_⟩
        refine Nat.le_of_not_lt fun hlt => ?_
        obtain ⟨n, hn'⟩ := Bs.chain.full (k + 1) (by omega)
        rw [hn] at hn'
        cases hn'
      | some nxt =>
        by_cases hp : nxt.prev = b.id C
        · left
          refine ⟨k + 1, by omega, by simp only [hp, ↓reduceIte], ?_⟩
          have h1 := Bs.chain.le_of_some C hn
          obtain ⟨a, ha⟩ := Bs.chain.full k (by omega)
          have hl := Bs.chain.link k a nxt ha hn
          exact ⟨a, b, ha, hb, by rw [← hl, hp]⟩
        · simp only [hp, ↓reduceIte]
          exact IH

/-- the locator a built state sends: the ids of its active chain at the locator heights -/
theorem locator_built (Br : Built C rs req rindex rhd) (loc : List Bytes)
    (hloc : locator C req = .ok loc) : loc = (recentHeights rhd.height).map (idAt C rindex) := by
  unfold locator at hloc
  simp only [Br.chain.cur, Br.chain.head] at hloc
  refine mapM_except_ok_map _ _ _ _ hloc ?_
  intro x _ y hy
  cases hg : rindex.get? x with
  | none => rw [hg] at hy; cases hy
  | some blk =>
    rw [hg] at hy
    cases hy
    exact (idAt_of_some C hg).symm

/-- a built state can always build its locator -/
theorem locator_built_ok (Br : Built C rs req rindex rhd) :
    locator C req = .ok ((recentHeights rhd.height).map (idAt C rindex)) := by
  unfold locator
  simp only [Br.chain.cur, Br.chain.head]
  apply mapM_except_eq_ok
  intro h hh
  obtain ⟨blk, hg⟩ := Br.chain.full h (recentHeights_le _ h hh)
  rw [hg, idAt_of_some C hg]

/-- every block of the server's active chain is listed by the walk or stored by the requester under
its id, unless the walk lists nothing because the requester's head is at least as high as the
server's -/
theorem offered_or_stored (Bs : Built C ss srv index hd) (Br : Built C rs req rindex rhd)
    (hcompat : ∀ a ∈ rs, ∀ b ∈ ss, a.id C = b.id C → a.prev = b.prev ∧ a.height = b.height)
    (hgen : rs.head? = ss.head?) (hinv : 0 < P.inventorySize) (fuel : Nat) (hfuel : hd.height ≤ fuel)
    (loc : List Bytes) (hloc : locator C req = .ok loc) :
    ∃ ids, walk C P srv fuel loc = .ok ids ∧
      ((∀ h blk, index.get? h = some blk →
          blk.id C ∈ ids ∨ (req.blocks.get? (blk.id C)).isSome = true) ∨
       (ids = [] ∧ hd.height ≤ rhd.height)) := by
  have hl := locator_built C Br loc hloc
  rcases scan_locator C Bs Br hcompat hgen (recentHeights rhd.height)
      (fun k hk => recentHeights_le _ k hk) with ⟨start, h1, hs, hag⟩ | ⟨hs, hle⟩
  · rw [← hl] at hs
    refine ⟨_, walk_of_scan_start C P Bs.chain hinv fuel start loc hs (by omega), Or.inl ?_⟩
    intro h blk hg
    have hh := Bs.chain.le_of_some C hg
    by_cases hlt : h < start
    · right
      obtain ⟨a, b, ha, hb, hab⟩ := agree_down C Bs Br hcompat (start - 1) hag h (by omega)
      rw [hg] at ha
      cases ha
      rw [hab, (Br.chain.stored h b hb).1]
      rfl
    · left
      rw [← idAt_of_some C hg]
      exact mem_chainIds C index start _ h (by omega) (by omega)
  · rw [← hl] at hs
    exact ⟨[], walk_of_scan_none C P Bs.chain.cur Bs.chain.head fuel loc hs, Or.inr ⟨rfl, hle⟩⟩

end TwoStates

end C10Walk

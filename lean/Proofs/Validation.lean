import Model.Consensus

/-! Inversion lemmas: what a successful validation established. -/

namespace Model

@[simp] theorem require_bind_ok {α : Type} (c : Bool) (msg : String) (f : Unit → Except Err α) (a : α) :
    ((require c msg) >>= f) = .ok a ↔ (c = true ∧ f () = .ok a) := by
  cases c <;> simp [require, bind, Except.bind]

@[simp] theorem require_ok (c : Bool) (msg : String) (u : Unit) : require c msg = .ok u ↔ c = true := by
  cases c <;> simp [require]

@[simp] theorem requireRange_bind_ok {α : Type} (c : Bool) (f : Unit → Except Err α) (a : α) :
    ((requireRange c) >>= f) = .ok a ↔ (c = true ∧ f () = .ok a) := by
  cases c <;> simp [requireRange, bind, Except.bind]

@[simp] theorem requireRange_ok (c : Bool) (u : Unit) : requireRange c = .ok u ↔ c = true := by
  cases c <;> simp [requireRange]

theorem bind_ok_iff {α β : Type} (x : Except Err α) (f : α → Except Err β) (b : β) :
    (x >>= f) = .ok b ↔ ∃ a, x = .ok a ∧ f a = .ok b := by
  cases x <;> simp [bind, Except.bind]

theorem forAll_ok {α : Type} (f : α → Except Err Unit) (l : List α) :
    forAll f l = .ok () ↔ ∀ a ∈ l, f a = .ok () := by
  induction l with
  | nil => simp [forAll]
  | cons a rest ih =>
    simp only [forAll, bind_ok_iff, List.mem_cons, forall_eq_or_imp]
    constructor
    · rintro ⟨_, h1, h2⟩; exact ⟨h1, ih.mp h2⟩
    · rintro ⟨h1, h2⟩; exact ⟨(), h1, ih.mpr h2⟩

theorem validateTxByItself_ok (P : Params) (t : CTx) :
    validateTxByItself P t = .ok () ↔
      (t.tx.inputs.length ≠ 0 ∧ t.tx.outputs.length ≠ 0 ∧ (encTx t.tx).length ≤ P.maxBlockSize ∧
       (∀ o ∈ t.tx.outputs, 0 < o.value ∧ o.value ≤ P.maxSashimi) ∧
       (0 < outputsValue t.tx.outputs ∧ outputsValue t.tx.outputs ≤ P.maxSashimi) ∧
       (t.tx.inputs.map (·.ref)).Nodup ∧
       (∀ i ∈ t.tx.inputs, i.ref ≠ thinAir) ∧
       (∀ i ∈ t.tx.inputs, i.sig.isSecp = true)) := by
  unfold validateTxByItself
  simp [sashimiInRange]

theorem validateHeaderByItself_ok (C : Crypto) (P : Params) (h : Header) (now : Int) :
    validateHeaderByItself C P h now = .ok () ↔
      (bytesLt (C.sha256d (encHeader h)) h.summary.target = true ∧
       (h.summary.timestamp : Int) ≤ now + P.maxFutureBlockTime) := by
  unfold validateHeaderByItself
  simp

theorem validateCoinbaseByItself_ok (P : Params) (t : CTx) (h : Nat) :
    validateCoinbaseByItself P t = .ok h ↔
      ∃ d, t.tx.inputs = [⟨thinAir, .coinbase h d⟩] ∧ d.length ≤ P.maxCoinbaseData := by
  unfold validateCoinbaseByItself
  constructor
  · intro hv
    split at hv
    · rename_i i hi
      by_cases hne : i.ref ≠ thinAir
      · simp [hne, verr] at hv
      · have href : i.ref = thinAir := by simpa using hne
        simp only [hne, if_false] at hv
        split at hv
        · rename_i h' d hs
          split at hv
          · simp [verr] at hv
          · rename_i hd
            simp only [Except.ok.injEq] at hv
            subst hv
            refine ⟨d, ?_, by omega⟩
            rw [hi]
            cases i
            simp_all
        · simp [verr] at hv
    · simp [verr] at hv
  · rintro ⟨d, hi, hd⟩
    rw [hi]
    simp
    omega

/-- what `validate_block_by_itself` established -/
structure ByItself (C : Crypto) (P : Params) (b : Block) (now : Int) : Prop where
  pow : bytesLt (C.sha256d (encHeader b.header)) b.target = true
  notFuture : (b.timestamp : Int) ≤ now + P.maxFutureBlockTime
  nonempty : ∃ cb rest, b.txs = cb :: rest ∧
    (∃ d, cb.tx.inputs = [⟨thinAir, .coinbase b.height d⟩] ∧ d.length ≤ P.maxCoinbaseData) ∧
    (∀ t ∈ rest, validateTxByItself P t = .ok ()) ∧
    noDuplicateTxs C rest = true ∧ (allRefs rest).Nodup
  size : (encBlock b).length ≤ P.maxBlockSize
  merkle : calcMerkleRoot C b.txs = some b.header.summary.merkleRoot

theorem validateBlockByItself_ok (C : Crypto) (P : Params) (b : Block) (now : Int)
    (h : validateBlockByItself C P b now = .ok ()) : ByItself C P b now := by
  unfold validateBlockByItself at h
  rw [bind_ok_iff] at h
  obtain ⟨_, hh, h⟩ := h
  rw [validateHeaderByItself_ok] at hh
  split at h
  · simp [verr] at h
  · rename_i cb rest htx
    rw [require_bind_ok] at h
    obtain ⟨hsize, h⟩ := h
    rw [bind_ok_iff] at h
    obtain ⟨ht, hcb, h⟩ := h
    rw [require_bind_ok] at h
    obtain ⟨hheq, h⟩ := h
    rw [bind_ok_iff] at h
    obtain ⟨_, hall, h⟩ := h
    rw [require_bind_ok] at h
    obtain ⟨hnd, h⟩ := h
    rw [require_bind_ok] at h
    obtain ⟨hrefs, hm⟩ := h
    simp only [require_ok, decide_eq_true_eq] at hm hheq hsize hrefs
    subst hheq
    rw [validateCoinbaseByItself_ok] at hcb
    rw [forAll_ok] at hall
    exact ⟨hh.1, hh.2, ⟨cb, rest, htx, hcb, hall, hnd, hrefs⟩, hsize, hm⟩

theorem validateInputs_ok (C : Crypto) (u : Utxo) (t : Tx) : ∀ (ins : List Input) (total : Nat),
    validateInputs C u t ins = .ok total →
      (∀ i ∈ ins, ∃ o s, u.get? i.ref = some o ∧ i.sig = .secp s ∧
        C.verify o.pk (encTx (signable t)) s = true) ∧
      inputsValue u ins = .ok total := by
  intro ins
  induction ins with
  | nil => intro total h; simp [validateInputs] at h; subst h; simp [inputsValue]
  | cons i rest ih =>
    intro total h
    simp only [validateInputs] at h
    split at h
    · simp [verr] at h
    · rename_i o ho
      rw [bind_ok_iff] at h
      obtain ⟨_, hs, h⟩ := h
      rw [bind_ok_iff] at h
      obtain ⟨r, hr, h⟩ := h
      simp only [pure, Except.pure, Except.ok.injEq] at h
      obtain ⟨ih1, ih2⟩ := ih r hr
      have hsig : ∃ s, i.sig = .secp s ∧ C.verify o.pk (encTx (signable t)) s = true := by
        unfold validateSignature at hs
        split at hs
        · rename_i s hsg
          split at hs
          · rename_i hv; exact ⟨s, hsg, hv⟩
          · simp [verr] at hs
        · simp at hs
      obtain ⟨s, hs1, hs2⟩ := hsig
      constructor
      · intro j hj
        simp only [List.mem_cons] at hj
        rcases hj with rfl | hj
        · exact ⟨o, s, ho, hs1, hs2⟩
        · exact ih1 j hj
      · simp only [inputsValue, ho, ih2]
        simp [bind, Except.bind, pure, Except.pure, h]

theorem validateTxInState_ok (C : Crypto) (u : Utxo) (t : CTx) (h : validateTxInState C u t = .ok ()) :
    ∃ total, (∀ i ∈ t.tx.inputs, ∃ o s, u.get? i.ref = some o ∧ i.sig = .secp s ∧
        C.verify o.pk (encTx (signable t.tx)) s = true) ∧
      inputsValue u t.tx.inputs = .ok total ∧ outputsValue t.tx.outputs ≤ total := by
  unfold validateTxInState at h
  rw [bind_ok_iff] at h
  obtain ⟨total, hv, h⟩ := h
  simp only [require_ok, decide_eq_true_eq] at h
  obtain ⟨h1, h2⟩ := validateInputs_ok C u t.tx _ _ hv
  exact ⟨total, h1, h2, h⟩

/-- what `validate_block_in_coinstate` established for a block above the checkpoint horizon -/
structure InState (C : Crypto) (P : Params) (cs : CoinState) (b : Block) : Prop where
  parent : ∃ pb, cs.blocks.get? b.prev = some pb ∧ pb.timestamp < b.timestamp ∧
    b.height = pb.height + 1 ∧
    calcTarget C P cs (pb.height + 1) b.timestamp pb = .ok b.target
  evidence : constructEvidence C P cs b.header.summary b.height b.txs = .ok b.header.evidence
  ledger : ∃ u cb rest fees, cs.utxoAt.get? b.prev = some u ∧ b.txs = cb :: rest ∧
    blockFees u rest = .ok fees ∧
    (outputsValue cb.tx.outputs : Int) ≤ fees + subsidy P b.height ∧
    ∀ t ∈ rest, validateTxInState C u t = .ok ()

theorem validateBlockInState_ok (C : Crypto) (P : Params) (cs : CoinState) (b : Block)
    (hz : ¬ ((b.height : Int) ≤ P.maxKnownHeight))
    (h : validateBlockInState C P cs b = .ok ()) : InState C P cs b := by
  unfold validateBlockInState at h
  rw [if_neg hz] at h
  rw [bind_ok_iff] at h
  obtain ⟨_, hsum, h⟩ := h
  rw [bind_ok_iff] at h
  obtain ⟨ev, hev, h⟩ := h
  simp only [require_bind_ok, decide_eq_true_eq] at h
  obtain ⟨heveq, h⟩ := h
  -- summary
  unfold validateSummaryInState at hsum
  split at hsum
  · simp [verr] at hsum
  · rename_i pb hpb
    rw [require_bind_ok] at hsum
    obtain ⟨hts, hsum⟩ := hsum
    rw [bind_ok_iff] at hsum
    obtain ⟨tgt, htgt, htgteq⟩ := hsum
    simp only [require_ok, decide_eq_true_eq] at htgteq hts
    split at h
    · simp at h
    · rename_i cb rest htx
      rw [bind_ok_iff] at h
      obtain ⟨_, hcb, h⟩ := h
      unfold validateCoinbaseInState at hcb
      rw [show b.prev = b.header.summary.prev from rfl, hpb] at hcb
      rw [require_bind_ok] at hcb
      obtain ⟨hheight, hcb⟩ := hcb
      simp only [decide_eq_true_eq] at hheight
      split at hcb
      · simp at hcb
      · rename_i u hu
        rw [bind_ok_iff] at hcb
        obtain ⟨fees, hfees, hcb⟩ := hcb
        simp only [require_ok, decide_eq_true_eq] at hcb
        rw [show b.prev = b.header.summary.prev from rfl, hu] at h
        rw [forAll_ok] at h
        refine ⟨⟨pb, hpb, hts, hheight, ?_⟩, ?_, ⟨u, cb, rest, fees, hu, htx, ?_, hcb, h⟩⟩
        · show calcTarget C P cs (pb.height + 1) b.header.summary.timestamp pb = .ok b.header.summary.target
          rw [htgt, htgteq]
        · rw [hev, heveq]
        · rw [htx] at hfees; exact hfees

theorem addBlock_ok (C : Crypto) (P : Params) (cs cs' : CoinState) (b : Block) (now : Int)
    (h : addBlock C P cs b now = .ok cs') :
    validateBlockByItself C P b now = .ok () ∧ validateBlockInState C P cs b = .ok () ∧
    addBlockNoValidation C cs b = .ok cs' := by
  unfold addBlock at h
  rw [bind_ok_iff] at h
  obtain ⟨_, h1, h⟩ := h
  rw [bind_ok_iff] at h
  obtain ⟨_, h2, h3⟩ := h
  exact ⟨h1, h2, h3⟩

end Model

import Model.PeerBook
import Proofs.Map
import Proofs.Book

/-! A second invariant about own addresses (`Model.PeerBook`): once `(host, port)` of `k` is a
recorded own address, the part of the attempt log that concerns `k` never changes again — no new
attempt to `k` is logged. Unlike `Book.SelfInv` it does not require the log to be free of attempts
to `k` (which no reachable book with that own address satisfies: the address was learnt by
dialling it). -/

namespace Model
namespace Book

/-- `(host, port)` of `k` is a recorded own address and the logged attempts to `k` are exactly `L` -/
def SelfInv' (k : PeerKey) (L : List (PeerKey × Int × Nat)) (b : Book) : Prop :=
  (k.host, k.port) ∈ b.myAddresses ∧ b.attempts.filter (fun e => decide (e.1 = k)) = L

theorem SelfInv'.congr {k : PeerKey} {L : List (PeerKey × Int × Nat)} {b b' : Book} (h : SelfInv' k L b)
    (hm : b'.myAddresses = b.myAddresses) (ha : b'.attempts = b.attempts) : SelfInv' k L b' := by
  unfold SelfInv'; rw [hm, ha]; exact h

theorem SelfInv'.stepPeers {k : PeerKey} {L : List (PeerKey × Int × Nat)} (P : Params) (now : Int)
    (l : List (PeerKey × DiscPeer)) {b : Book}
    (h : SelfInv' k L b) : SelfInv' k L (Book.stepPeers P now b l) := by
  induction l generalizing b with
  | nil => exact h
  | cons x rest ih =>
    obtain ⟨k', d0⟩ := x
    simp only [Book.stepPeers]
    split
    · exact ih h
    · next d hd =>
      split
      · next hguard =>
        simp only [Bool.and_eq_true, Bool.not_eq_true', List.contains_eq_mem, decide_eq_false_iff_not] at hguard
        apply ih
        refine ⟨?_, ?_⟩
        · rw [myAddresses_startOutgoing]; exact h.1
        · rw [attempts_startOutgoing]
          have hne : ¬ k' = k := by
            intro e'
            apply hguard.1.2
            rw [e']; exact h.1
          show List.filter (fun e => decide (e.1 = k)) ((k', now, d.banScore) :: b.attempts) = L
          rw [List.filter_cons_of_neg (by simpa using hne)]
          exact h.2
      · exact ih h

theorem SelfInv'.apply {k : PeerKey} {L : List (PeerKey × Int × Nat)} (P : Params) {b : Book}
    (h : SelfInv' k L b) (ev : BookEvent) : SelfInv' k L (Book.apply P b ev) := by
  cases ev with
  | step now => exact h.stepPeers P now _
  | incoming host port =>
    simp only [Book.apply]
    exact h.congr (myAddresses_peerConnected _ _ _) (attempts_peerConnected _ _ _)
  | hello k' mine myPort =>
    simp only [Book.apply]
    split
    · exact h
    · split
      · exact h.congr (myAddresses_announce _ _ _) (attempts_announce _ _ _)
      · split
        · refine ⟨?_, ?_⟩
          · rw [myAddresses_disconnect]
            exact List.mem_cons_of_mem _ h.1
          · rw [attempts_disconnect]; exact h.2
        · exact h
  | peers l =>
    rw [apply_peers_eq]
    exact h.congr (myAddresses_foldl_announce _ _) (attempts_foldl_announce _ _)
  | close k' =>
    simp only [Book.apply]
    split
    · exact h
    · exact h.congr (myAddresses_disconnect _ _ _) (attempts_disconnect _ _ _)

theorem SelfInv'.run {k : PeerKey} {L : List (PeerKey × Int × Nat)} (P : Params) (evs : List BookEvent)
    {b : Book} (h : SelfInv' k L b) : SelfInv' k L (Book.run P b evs) := by
  induction evs generalizing b with
  | nil => exact h
  | cons ev rest ih =>
    simp only [Book.run, List.foldl_cons]
    exact ih (h.apply P ev)

end Book
end Model

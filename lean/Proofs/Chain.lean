import Model.Spec
import Proofs.Map

/-!
Lemmas about `addBlockNoValidation`, `foldBlocks`, `WFArrivals`, `findBlock`, `chainOf` and
`firstMax`, used by `Props/C04.lean`.
-/

namespace Model
variable (C : Crypto)

/-! ## inversion of `addBlockNoValidation` -/

/-- what every field (except `utxoAt`) of the result is when `add_block_no_validation` does not
raise -/
theorem add_ok_inv {cs cs' : CoinState} {b : Block}
    (h : addBlockNoValidation C cs b = .ok cs') :
    cs'.blocks = cs.blocks.set (b.id C) b ∧
    cs'.heads = (if cs.heads.contains b.prev then cs.heads.erase b.prev else cs.heads).set
      (b.id C) b ∧
    (b.prev = zeros 32 → cs'.byHeightAt = [(b.id C, [(0, b)])]) ∧
    (b.prev ≠ zeros 32 → ∃ bh, cs.byHeightAt.get? b.prev = some bh ∧
      cs'.byHeightAt = cs.byHeightAt.set (b.id C) (bh.set b.height b)) ∧
    (cs.current = none → cs'.current = some (b.id C)) ∧
    (∀ c, cs.current = some c → c = b.prev → cs'.current = some (b.id C)) ∧
    (∀ c, cs.current = some c → c ≠ b.prev → ∃ cb, cs.blocks.get? c = some cb ∧
      cs'.current = some (if b.height > cb.height then b.id C else c)) := by
  unfold addBlockNoValidation at h
  simp only [bind, Except.bind, pure, Except.pure, throw, throwThe, MonadExceptOf.throw] at h
  by_cases hz : b.prev = zeros 32
  · simp only [hz, ↓reduceIte] at h ⊢
    split at h
    · cases h
    · split at h
      · cases h; simp_all
      · split at h
        · cases h; simp_all
        · split at h
          · cases h
          · cases h; simp_all
  · simp only [hz, ↓reduceIte] at h ⊢
    split at h
    · split at h
      · cases h
      · split at h
        · split at h
          · cases h; simp_all
          · split at h
            · cases h; simp_all
            · split at h
              · cases h
              · cases h; simp_all
        · cases h
    · cases h

/-! ## `foldBlocks` -/

theorem foldBlocks_snoc (cs : CoinState) (bs : List Block) (b : Block) :
    foldBlocks C cs (bs ++ [b]) =
      match foldBlocks C cs bs with
      | .error e => .error e
      | .ok s => addBlockNoValidation C s b := by
  induction bs generalizing cs with
  | nil =>
    simp only [List.nil_append, foldBlocks]
    cases addBlockNoValidation C cs b <;> rfl
  | cons x rest ih =>
    simp only [List.cons_append, foldBlocks]
    cases addBlockNoValidation C cs x with
    | error e => rfl
    | ok s' => exact ih s'

theorem foldBlocks_snoc_ok {cs s : CoinState} {bs : List Block} {b : Block}
    (h : foldBlocks C cs (bs ++ [b]) = .ok s) :
    ∃ s₀, foldBlocks C cs bs = .ok s₀ ∧ addBlockNoValidation C s₀ b = .ok s := by
  rw [foldBlocks_snoc] at h
  cases h0 : foldBlocks C cs bs with
  | error e => rw [h0] at h; cases h
  | ok s₀ => rw [h0] at h; exact ⟨s₀, rfl, h⟩

theorem foldBlocks_single_ok {cs s : CoinState} {b : Block}
    (h : foldBlocks C cs [b] = .ok s) : addBlockNoValidation C cs b = .ok s := by
  simp only [foldBlocks] at h
  cases h0 : addBlockNoValidation C cs b with
  | error e => rw [h0] at h; cases h
  | ok s₀ => rw [h0] at h; exact h

/-! ## facts about well-formed histories -/

structure HistFacts (bs : List Block) : Prop where
  inj : ∀ x ∈ bs, ∀ y ∈ bs, x.id C = y.id C → x = y
  nz : ∀ x ∈ bs, x.id C ≠ zeros 32
  par : ∀ x ∈ bs, (x.prev = zeros 32 ∧ x.height = 0) ∨
    ∃ q ∈ bs, x.prev = q.id C ∧ x.height = q.height + 1
  ht : ∀ x ∈ bs, x.height < bs.length
  ne : bs ≠ []

theorem WFArrivals.facts {bs : List Block} (h : WFArrivals C bs) : HistFacts C bs := by
  induction h with
  | genesis g h1 h2 h3 =>
    refine ⟨?_, ?_, ?_, ?_, ?_⟩
    · intro x hx y hy _
      simp only [List.mem_singleton] at hx hy
      rw [hx, hy]
    · intro x hx
      simp only [List.mem_singleton] at hx
      rw [hx]; exact h3
    · intro x hx
      simp only [List.mem_singleton] at hx
      rw [hx]; exact Or.inl ⟨h1, h2⟩
    · intro x hx
      simp only [List.mem_singleton] at hx
      rw [hx, h2]; simp
    · simp
  | snoc bs b p _ hp hprev hht hnz hfresh ih =>
    refine ⟨?_, ?_, ?_, ?_, ?_⟩
    · intro x hx y hy hxy
      simp only [List.mem_append, List.mem_singleton] at hx hy
      rcases hx with hx | hx <;> rcases hy with hy | hy
      · exact ih.inj x hx y hy hxy
      · subst hy; exact absurd hxy (hfresh x hx)
      · subst hx; exact absurd hxy.symm (hfresh y hy)
      · rw [hx, hy]
    · intro x hx
      simp only [List.mem_append, List.mem_singleton] at hx
      rcases hx with hx | hx
      · exact ih.nz x hx
      · rw [hx]; exact hnz
    · intro x hx
      simp only [List.mem_append, List.mem_singleton] at hx
      rcases hx with hx | hx
      · rcases ih.par x hx with h | ⟨q, hq, h⟩
        · exact Or.inl h
        · exact Or.inr ⟨q, List.mem_append_left _ hq, h⟩
      · subst hx
        exact Or.inr ⟨p, List.mem_append_left _ hp, hprev, hht⟩
    · intro x hx
      simp only [List.mem_append, List.mem_singleton] at hx
      simp only [List.length_append, List.length_singleton]
      rcases hx with hx | hx
      · have := ih.ht x hx; omega
      · subst hx
        have := ih.ht p hp; omega
    · simp

/-- in a well-formed history a block is a genesis block iff its parent reference is all zeros,
and otherwise its parent is in the history -/
theorem HistFacts.parent {bs : List Block} (F : HistFacts C bs) {x : Block} (hx : x ∈ bs)
    (hz : x.prev ≠ zeros 32) : ∃ q ∈ bs, x.prev = q.id C ∧ x.height = q.height + 1 := by
  rcases F.par x hx with h | h
  · exact absurd h.1 hz
  · exact h

theorem HistFacts.height_zero {bs : List Block} (F : HistFacts C bs) {x : Block} (hx : x ∈ bs)
    (h0 : x.height = 0) : x.prev = zeros 32 := by
  rcases F.par x hx with h | ⟨q, _, _, h⟩
  · exact h.1
  · omega

/-! ## `findBlock` -/

theorem findBlock_of_mem {bs : List Block} (F : HistFacts C bs) {x : Block} (hx : x ∈ bs) :
    findBlock C bs (x.id C) = some x := by
  unfold findBlock
  cases h : bs.find? (fun b => b.id C = x.id C) with
  | none =>
    rw [List.find?_eq_none] at h
    have := h x hx
    simp at this
  | some y =>
    have h1 := List.find?_some h
    have h2 := List.mem_of_find?_eq_some h
    simp only [decide_eq_true_eq] at h1
    rw [F.inj y h2 x hx h1]

theorem findBlock_append {bs : List Block} {id : Bytes} {q : Block} (l : List Block)
    (h : findBlock C bs id = some q) : findBlock C (bs ++ l) id = some q := by
  unfold findBlock at h ⊢
  rw [List.find?_append, h]
  rfl

/-! ## `chainOf` -/

theorem chainOf_append {bs : List Block} (F : HistFacts C bs) (l : List Block) (f : Nat)
    {x : Block} (hx : x ∈ bs) : chainOf C (bs ++ l) f x = chainOf C bs f x := by
  induction f generalizing x with
  | zero => rfl
  | succ f ih =>
    unfold chainOf
    by_cases hz : x.prev = zeros 32
    · simp only [hz, ↓reduceIte]
    · obtain ⟨q, hq, hp, _⟩ := F.parent C hx hz
      have h1 := findBlock_of_mem C F hq
      have h2 := findBlock_append C l h1
      rw [hp] at hz
      simp only [hp, hz, ↓reduceIte, h1, h2, ih hq]

theorem chainOf_fuel {bs : List Block} (F : HistFacts C bs) (f₁ f₂ : Nat) {x : Block}
    (hx : x ∈ bs) (h₁ : x.height ≤ f₁) (h₂ : x.height ≤ f₂) :
    chainOf C bs f₁ x = chainOf C bs f₂ x := by
  induction f₁ generalizing f₂ x with
  | zero =>
    have hz := F.height_zero C hx (by omega)
    cases f₂ with
    | zero => rfl
    | succ f₂ => simp only [chainOf, hz, ↓reduceIte]
  | succ f₁ ih =>
    by_cases hz : x.prev = zeros 32
    · cases f₂ with
      | zero => simp only [chainOf, hz, ↓reduceIte]
      | succ f₂ => simp only [chainOf, hz, ↓reduceIte]
    · obtain ⟨q, hq, hp, hh⟩ := F.parent C hx hz
      have h1 := findBlock_of_mem C F hq
      cases f₂ with
      | zero => omega
      | succ f₂ =>
        rw [hp] at hz
        simp only [chainOf, hp, hz, ↓reduceIte, h1]
        rw [ih f₂ hq (by omega) (by omega)]

theorem chainOf_height_le {bs : List Block} (F : HistFacts C bs) (f : Nat) {x a : Block}
    (hx : x ∈ bs) (ha : a ∈ chainOf C bs f x) : a.height ≤ x.height := by
  induction f generalizing x with
  | zero =>
    simp only [chainOf, List.mem_singleton] at ha
    rw [ha]; exact Nat.le_refl _
  | succ f ih =>
    unfold chainOf at ha
    by_cases hz : x.prev = zeros 32
    · simp only [hz, ↓reduceIte, List.mem_singleton] at ha
      rw [ha]; exact Nat.le_refl _
    · obtain ⟨q, hq, hp, hh⟩ := F.parent C hx hz
      have h1 := findBlock_of_mem C F hq
      rw [hp] at hz
      simp only [hp, hz, ↓reduceIte, h1, List.mem_append, List.mem_singleton] at ha
      rcases ha with ha | ha
      · have := ih hq ha; omega
      · rw [ha]; exact Nat.le_refl _

/-- the chain of a newly arrived block is its parent's chain, then itself -/
theorem chainOf_snoc_new {bs : List Block} (F : HistFacts C bs) {b p : Block} (hp : p ∈ bs)
    (hprev : b.prev = p.id C) :
    chainOf C (bs ++ [b]) (bs ++ [b]).length b = chainOf C bs bs.length p ++ [b] := by
  have hz : p.id C ≠ zeros 32 := F.nz p hp
  have h1 := findBlock_append C [b] (findBlock_of_mem C F hp)
  simp only [List.length_append, List.length_singleton, chainOf, hprev, hz, ↓reduceIte, h1]
  rw [chainOf_append C F [b] _ hp]

/-- the chain of an earlier block is not changed by a later arrival -/
theorem chainOf_snoc_old {bs : List Block} (F : HistFacts C bs) (b : Block) {x : Block}
    (hx : x ∈ bs) :
    chainOf C (bs ++ [b]) (bs ++ [b]).length x = chainOf C bs bs.length x := by
  rw [chainOf_append C F [b] _ hx]
  have := F.ht x hx
  apply chainOf_fuel C F _ _ hx
  · simp only [List.length_append, List.length_singleton]; omega
  · omega

/-! ## `firstMax` -/

theorem firstMax_snoc (bs : List Block) (b : Block) :
    firstMax (bs ++ [b]) =
      match firstMax bs with
      | none => some b
      | some m => if b.height > m.height then some b else some m := by
  induction bs with
  | nil => rfl
  | cons x rest ih =>
    simp only [List.cons_append, firstMax, ih]
    cases h : firstMax rest with
    | none => simp only
    | some m =>
      simp only
      by_cases h1 : b.height > m.height <;> by_cases h2 : m.height > x.height <;>
        by_cases h3 : b.height > x.height <;> simp [h1, h2, h3] <;> omega

theorem firstMax_mem {bs : List Block} {m : Block} (h : firstMax bs = some m) : m ∈ bs := by
  induction bs generalizing m with
  | nil => cases h
  | cons x rest ih =>
    simp only [firstMax] at h
    cases h0 : firstMax rest with
    | none =>
      rw [h0] at h
      simp only [Option.some.injEq] at h
      rw [← h]; exact List.mem_cons_self
    | some m' =>
      rw [h0] at h
      simp only at h
      split at h
      · simp only [Option.some.injEq] at h
        rw [← h]; exact List.mem_cons_of_mem _ (ih h0)
      · simp only [Option.some.injEq] at h
        rw [← h]; exact List.mem_cons_self

theorem firstMax_ne_none {bs : List Block} (h : bs ≠ []) : firstMax bs ≠ none := by
  cases bs with
  | nil => exact absurd rfl h
  | cons x rest =>
    simp only [firstMax]
    cases firstMax rest with
    | none => simp
    | some m => simp only; split <;> simp

end Model

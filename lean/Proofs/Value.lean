import Model.Spec
import Proofs.Validation
import Proofs.Map
import Proofs.Chain

/-!
Value accounting for `Props/C02.lean`: how `totalValue` moves through `utoApplyBlock`.

`N w R` is the value held in `w` under keys that are not in `R`.  The block's references `R0`
are consumed in processing order; the accounting needs no freshness assumption on transaction ids.
-/

namespace Model

/-- membership of a reference in a list is decidable through `DecidableEq` (the derived `BEq` of
`OutRef` carries no `LawfulBEq` instance) -/
instance OutRef.decMem (k : OutRef) (R : List OutRef) : Decidable (k ∈ R) :=
  @List.instDecidableMemOfLawfulBEq OutRef instBEqOfDecidableEq inferInstance k R

/-- total value held under keys not in `R` -/
def N (w : Utxo) (R : List OutRef) : Nat :=
  ((w.filter (fun (p : OutRef × Output) => decide (p.1 ∉ R))).map (·.2.value)).sum

/-- the value the map returns for each reference of a list (0 when absent), summed -/
def refsValue (u : Utxo) (R : List OutRef) : Nat :=
  (R.map (fun r => match u.get? r with | some o => o.value | none => 0)).sum

/-- the sum of all outputs of a list of transactions -/
def outsTotal (txs : List CTx) : Nat := (txs.map (fun t => outputsValue t.tx.outputs)).sum

theorem N_nil_map (R : List OutRef) : N [] R = 0 := rfl

theorem N_cons (k : OutRef) (o : Output) (m : Utxo) (R : List OutRef) :
    N ((k, o) :: m) R = (if k ∈ R then 0 else o.value) + N m R := by
  unfold N
  by_cases h : k ∈ R <;> simp [h]

/-- (L4) -/
theorem N_nil (w : Utxo) : N w [] = totalValue w := by
  have : w.filter (fun _ => true) = w := List.filter_eq_self.2 (fun _ _ => rfl)
  simp [N, totalValue, this]

/-- (L1) -/
theorem N_erase (w : Utxo) (r : OutRef) (R : List OutRef) : N (w.erase r) R = N w (r :: R) := by
  induction w with
  | nil => rfl
  | cons p m ih =>
    obtain ⟨k, o⟩ := p
    have e : Map.erase ((k, o) :: m) r = if k = r then Map.erase m r else (k, o) :: Map.erase m r := by
      by_cases h : k = r <;> simp [Map.erase, h]
    rw [e, N_cons]
    by_cases h : k = r
    · simp only [h, ↓reduceIte, List.mem_cons, true_or, Nat.zero_add]
      rw [ih]
    · rw [if_neg h, N_cons, ih]
      simp only [List.mem_cons, h, false_or]

theorem N_cons_le (w : Utxo) (r : OutRef) (R : List OutRef) : N w (r :: R) ≤ N w R := by
  induction w with
  | nil => exact Nat.le_refl _
  | cons p m ih =>
    obtain ⟨k, o⟩ := p
    rw [N_cons, N_cons]
    by_cases h1 : k = r
    · simp only [h1, List.mem_cons, true_or, ↓reduceIte]
      omega
    · simp only [List.mem_cons, h1, false_or]
      omega

theorem N_append_le (w : Utxo) (R' R : List OutRef) : N w (R' ++ R) ≤ N w R := by
  induction R' with
  | nil => exact Nat.le_refl _
  | cons r R' ih => exact Nat.le_trans (N_cons_le w r (R' ++ R)) ih

/-- (L2) -/
theorem N_set_le (w : Utxo) (k : OutRef) (o : Output) (R : List OutRef) :
    N (w.set k o) R ≤ N w R + o.value := by
  unfold Map.set
  rw [N_cons, N_erase]
  have := N_cons_le w k R
  split <;> omega

theorem N_addOutputs_le (txid : Bytes) (R : List OutRef) : ∀ (outs : List Output) (w : Utxo) (i : Nat),
    N (addOutputs w txid outs i) R ≤ N w R + outputsValue outs := by
  intro outs
  induction outs with
  | nil => intro w i; simp [addOutputs, outputsValue]
  | cons o rest ih =>
    intro w i
    simp only [addOutputs]
    have h1 := ih (w.set ⟨txid, i⟩ o) (i + 1)
    have h2 := N_set_le w ⟨txid, i⟩ o R
    simp only [outputsValue, List.map_cons, List.sum_cons] at h1 ⊢
    omega

theorem N_removeInputs (R : List OutRef) : ∀ (ins : List Input) (w w' : Utxo),
    removeInputs w ins = .ok w' → N w' R = N w (ins.map (·.ref) ++ R) := by
  intro ins
  induction ins with
  | nil =>
    intro w w' h
    simp only [removeInputs, Except.ok.injEq] at h
    subst h
    rfl
  | cons i rest ih =>
    intro w w' h
    simp only [removeInputs] at h
    split at h
    · rw [ih _ _ h, N_erase]
      rfl
    · cases h

theorem allRefs_cons (t : CTx) (rest : List CTx) :
    allRefs (t :: rest) = t.tx.inputs.map (·.ref) ++ allRefs rest := by
  simp [allRefs]

theorem outsTotal_cons (t : CTx) (rest : List CTx) :
    outsTotal (t :: rest) = outputsValue t.tx.outputs + outsTotal rest := by
  simp [outsTotal]

theorem N_utoApplyTx_coinbase (C : Crypto) (w w' : Utxo) (t : CTx) (R : List OutRef)
    (h : utoApplyTx C w t true = .ok w') : N w' R ≤ N w R + outputsValue t.tx.outputs := by
  simp only [utoApplyTx, ↓reduceIte, bind, Except.bind, pure, Except.pure, Except.ok.injEq] at h
  subst h
  exact N_addOutputs_le _ _ _ _ _

theorem N_utoApplyTx (C : Crypto) (w w' : Utxo) (t : CTx) (R : List OutRef)
    (h : utoApplyTx C w t false = .ok w') :
    N w' R ≤ N w (t.tx.inputs.map (·.ref) ++ R) + outputsValue t.tx.outputs := by
  simp only [utoApplyTx, Bool.false_eq_true, ↓reduceIte] at h
  rw [bind_ok_iff] at h
  obtain ⟨w0, h0, h⟩ := h
  simp only [pure, Except.pure, Except.ok.injEq] at h
  subst h
  have := N_addOutputs_le (t.id C) R t.tx.outputs w0 0
  rw [N_removeInputs R _ _ _ h0] at this
  exact this

theorem N_utoApplyTxs (C : Crypto) (R : List OutRef) : ∀ (txs : List CTx) (w w' : Utxo),
    utoApplyTxs C w txs = .ok w' → N w' R ≤ N w (allRefs txs ++ R) + outsTotal txs := by
  intro txs
  induction txs with
  | nil =>
    intro w w' h
    simp only [utoApplyTxs, Except.ok.injEq] at h
    subst h
    simp [allRefs, outsTotal]
  | cons t rest ih =>
    intro w w' h
    simp only [utoApplyTxs] at h
    rw [bind_ok_iff] at h
    obtain ⟨w1, h1, h⟩ := h
    have a := ih _ _ h
    have b := N_utoApplyTx C w w1 t (allRefs rest ++ R) h1
    rw [allRefs_cons, outsTotal_cons, List.append_assoc]
    omega

/-- the accounting through `uto_apply_block`, for any starting map -/
theorem totalValue_utoApplyBlock (C : Crypto) (w w' : Utxo) (b : Block) (cb : CTx) (rest : List CTx)
    (htx : b.txs = cb :: rest) (h : utoApplyBlock C w b = .ok w') :
    totalValue w' ≤ N w (allRefs rest) + outputsValue cb.tx.outputs + outsTotal rest := by
  unfold utoApplyBlock at h
  rw [htx] at h
  simp only at h
  rw [bind_ok_iff] at h
  obtain ⟨w1, h1, h⟩ := h
  have a := N_utoApplyTxs C [] rest w1 w' h
  have b := N_utoApplyTx_coinbase C w w1 cb (allRefs rest) h1
  rw [N_nil, List.append_nil] at a
  omega

/-! ### (L3) what is filtered out covers the looked-up values -/

theorem N_cons_add_le (w : Utxo) (r : OutRef) (R : List OutRef) (hr : r ∉ R) :
    N w (r :: R) + (match w.get? r with | some o => o.value | none => 0) ≤ N w R := by
  induction w with
  | nil => simp [N_nil_map]
  | cons p m ih =>
    obtain ⟨k, o⟩ := p
    rw [N_cons, N_cons, Map.get?_cons]
    by_cases h1 : k = r
    · subst h1
      have := N_cons_le m k R
      simp only [List.mem_cons, true_or, ↓reduceIte, hr]
      omega
    · simp only [List.mem_cons, h1, false_or, ↓reduceIte]
      omega

theorem N_add_refsValue_le (u : Utxo) : ∀ (R : List OutRef), R.Nodup →
    N u R + refsValue u R ≤ totalValue u := by
  intro R
  induction R with
  | nil => intro _; simp [N_nil, refsValue]
  | cons r R ih =>
    intro hnd
    rw [List.nodup_cons] at hnd
    have a := ih hnd.2
    have b := N_cons_add_le u r R hnd.1
    simp only [refsValue, List.map_cons, List.sum_cons] at a ⊢
    omega

theorem refsValue_append (u : Utxo) (R R' : List OutRef) :
    refsValue u (R ++ R') = refsValue u R + refsValue u R' := by
  simp [refsValue]

/-! ### fees -/

theorem inputsValue_eq (u : Utxo) : ∀ (ins : List Input) (total : Nat),
    inputsValue u ins = .ok total → total = refsValue u (ins.map (·.ref)) := by
  intro ins
  induction ins with
  | nil => intro total h; simp only [inputsValue, Except.ok.injEq] at h; subst h; rfl
  | cons i rest ih =>
    intro total h
    simp only [inputsValue] at h
    split at h
    · cases h
    · rename_i o ho
      rw [bind_ok_iff] at h
      obtain ⟨r, hr, h⟩ := h
      simp only [pure, Except.pure, Except.ok.injEq] at h
      subst h
      rw [ih r hr]
      simp only [refsValue, List.map_cons, List.sum_cons, ho]

theorem blockFees_eq (u : Utxo) : ∀ (rest : List CTx) (fees : Int),
    blockFees u rest = .ok fees →
      fees = (refsValue u (allRefs rest) : Int) - (outsTotal rest : Int) := by
  intro rest
  induction rest with
  | nil => intro fees h; simp only [blockFees, Except.ok.injEq] at h; subst h; rfl
  | cons t rest ih =>
    intro fees h
    simp only [blockFees] at h
    rw [bind_ok_iff] at h
    obtain ⟨f, hf, h⟩ := h
    rw [bind_ok_iff] at h
    obtain ⟨r, hr, h⟩ := h
    simp only [pure, Except.pure, Except.ok.injEq] at h
    subst h
    unfold txFee at hf
    rw [bind_ok_iff] at hf
    obtain ⟨i, hi, hf⟩ := hf
    simp only [pure, Except.pure, Except.ok.injEq] at hf
    subst hf
    rw [ih r hr, inputsValue_eq u _ _ hi, allRefs_cons, refsValue_append, outsTotal_cons]
    omega

theorem blockFees_nonneg' (u : Utxo) : ∀ (rest : List CTx) (fees : Int),
    blockFees u rest = .ok fees →
    (∀ t ∈ rest, ∃ total, inputsValue u t.tx.inputs = .ok total ∧ outputsValue t.tx.outputs ≤ total) →
    0 ≤ fees := by
  intro rest
  induction rest with
  | nil => intro fees h _; simp only [blockFees, Except.ok.injEq] at h; subst h; exact Int.le_refl _
  | cons t rest ih =>
    intro fees h hall
    simp only [blockFees] at h
    rw [bind_ok_iff] at h
    obtain ⟨f, hf, h⟩ := h
    rw [bind_ok_iff] at h
    obtain ⟨r, hr, h⟩ := h
    simp only [pure, Except.pure, Except.ok.injEq] at h
    subst h
    unfold txFee at hf
    rw [bind_ok_iff] at hf
    obtain ⟨i, hi, hf⟩ := hf
    simp only [pure, Except.pure, Except.ok.injEq] at hf
    subst hf
    obtain ⟨total, ht, hle⟩ := hall t List.mem_cons_self
    rw [hi] at ht
    cases ht
    have := ih r hr (fun t' ht' => hall t' (List.mem_cons_of_mem _ ht'))
    omega

/-! ### the new unspent map stored by `add_block_no_validation` -/

theorem add_ok_utxo_value (C : Crypto) {cs cs' : CoinState} {b : Block}
    (h : addBlockNoValidation C cs b = .ok cs') :
    ∃ u₀ u', (b.prev = zeros 32 → u₀ = []) ∧
      (b.prev ≠ zeros 32 → cs.utxoAt.get? b.prev = some u₀) ∧
      utoApplyBlock C u₀ b = .ok u' ∧ cs'.utxoAt = cs.utxoAt.set (b.id C) u' := by
  unfold addBlockNoValidation at h
  simp only [bind, Except.bind, pure, Except.pure, throw, throwThe, MonadExceptOf.throw] at h
  by_cases hz : b.prev = zeros 32
  · simp only [hz, ↓reduceIte] at h
    split at h
    · cases h
    · rename_i u' hu'
      refine ⟨[], u', fun _ => rfl, fun h => absurd hz h, hu', ?_⟩
      split at h
      · cases h; rfl
      · split at h
        · cases h; rfl
        · split at h
          · cases h
          · cases h; rfl
  · simp only [hz, ↓reduceIte] at h
    split at h
    · rename_i u₀ hu₀
      split at h
      · cases h
      · rename_i u' hu'
        refine ⟨u₀, u', fun h => absurd h hz, fun _ => hu₀, hu', ?_⟩
        split at h
        · split at h
          · cases h; rfl
          · split at h
            · cases h; rfl
            · split at h
              · cases h
              · cases h; rfl
        · cases h
    · cases h

end Model

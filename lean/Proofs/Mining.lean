import Model.Node
import Proofs.Validation
import Proofs.Map
import Proofs.Chain
import Proofs.Value

/-!
Lemmas for `Props/C12.lean` (the miner): the "introduction" direction of the validators, what
`minerCandidate` returns, success of `utoApplyBlock` / `addBlockNoValidation` on a block whose
references are present and pairwise distinct, and the block store's flush.
-/

namespace Model

/-! ## `Except` plumbing -/

theorem ok_bind {α β : Type} (a : α) (f : α → Except Err β) :
    ((Except.ok a : Except Err α) >>= f) = f a := rfl

/-! ## introduction direction of the validators -/

theorem validateBlockByItself_intro (C : Crypto) (P : Params) (b : Block) (now : Int)
    (h : ByItself C P b now) : validateBlockByItself C P b now = .ok () := by
  obtain ⟨hpow, hnf, ⟨cb, rest, htx, hcb, hall, hnd, hrefs⟩, hsize, hm⟩ := h
  unfold validateBlockByItself
  rw [(validateHeaderByItself_ok C P b.header now).mpr ⟨hpow, hnf⟩, ok_bind]
  split
  · rename_i h0; rw [htx] at h0; cases h0
  · rename_i cb' rest' h0
    rw [htx] at h0
    cases h0
    rw [(validateCoinbaseByItself_ok P cb b.height).mpr hcb, (forAll_ok _ _).mpr hall]
    simp [ok_bind, hsize, hnd, hrefs, hm]

theorem validateBlockInState_intro (C : Crypto) (P : Params) (cs : CoinState) (b : Block)
    (hz : ¬ ((b.height : Int) ≤ P.maxKnownHeight)) (h : InState C P cs b) :
    validateBlockInState C P cs b = .ok () := by
  obtain ⟨⟨pb, hpb, hts, hheight, htgt⟩, hev, ⟨u, cb, rest, fees, hu, htx, hfees, hle, hall⟩⟩ := h
  unfold validateBlockInState
  rw [if_neg hz]
  have hsum : validateSummaryInState C P cs b.header.summary = .ok () := by
    unfold validateSummaryInState
    rw [show cs.blocks.get? b.header.summary.prev = some pb from hpb]
    simp only
    rw [show calcTarget C P cs (pb.height + 1) b.header.summary.timestamp pb = .ok b.header.summary.target
      from htgt]
    simp [ok_bind]
    exact hts
  rw [hsum, ok_bind, hev, ok_bind]
  split
  · rename_i h0; rw [htx] at h0; cases h0
  · rename_i cb' rest' h0
    rw [htx] at h0
    cases h0
    have hcb : validateCoinbaseInState P cs cb b = .ok () := by
      unfold validateCoinbaseInState
      rw [hpb]
      simp only
      rw [hu]
      simp only
      rw [htx]
      simp only [List.tail_cons]
      rw [hfees]
      simp [ok_bind, hheight]
      rw [← hheight]; exact hle
    rw [hcb, hu]
    simp [ok_bind]
    exact (forAll_ok _ _).mpr hall

/-! ## what `minerCandidate` returns -/

/-- the reward transaction the miner builds -/
def rewardTx (P : Params) (height : Nat) (fees : Int) (pk : Bytes) : CTx :=
  CTx.fresh ⟨[⟨thinAir, .coinbase height []⟩], [⟨((subsidy P height : Int) + fees).toNat, pk⟩]⟩

theorem minerCandidate_ok (C : Crypto) (P : Params) (m : ChainMgr) (pk : Bytes) (clock nonce : Nat)
    (s : Summary) (h : Nat) (txs : List CTx)
    (hc : minerCandidate C P m pk clock nonce = .ok (s, h, txs)) :
    ∃ hd cur u fees root target,
      m.coinstate.current = some cur ∧ m.coinstate.blocks.get? cur = some hd ∧
      m.coinstate.utxoAt.get? cur = some u ∧ blockFees u m.pool = .ok fees ∧
      calcMerkleRoot C (rewardTx P (hd.height + 1) fees pk :: m.pool) = some root ∧
      calcTarget C P m.coinstate (hd.height + 1) (max clock (hd.timestamp + 1)) hd = .ok target ∧
      s = ⟨hd.height + 1, cur, root, max clock (hd.timestamp + 1), target, nonce⟩ ∧
      h = hd.height + 1 ∧ txs = rewardTx P (hd.height + 1) fees pk :: m.pool := by
  unfold minerCandidate at hc
  split at hc
  · cases hc
  · rename_i hd hhd
    unfold constructEvidenceInput at hc
    rw [hhd] at hc
    cases hcur : m.coinstate.current with
    | none => rw [hcur] at hc; cases hc
    | some cur =>
      rw [hcur] at hc
      simp only at hc
      have hb : m.coinstate.blocks.get? cur = some hd := by
        simpa [CoinState.head, hcur] using hhd
      split at hc
      · cases hc
      · rename_i u hu
        rw [bind_ok_iff] at hc
        obtain ⟨cb, hcb, hc⟩ := hc
        unfold constructCoinbase at hcb
        rw [bind_ok_iff] at hcb
        obtain ⟨fees, hfees, hcb⟩ := hcb
        simp only [pure, Except.pure, Except.ok.injEq] at hcb
        subst hcb
        split at hc
        · cases hc
        · rename_i root hroot
          rw [bind_ok_iff] at hc
          obtain ⟨target, htarget, hc⟩ := hc
          simp only [pure, Except.pure, Except.ok.injEq, Prod.mk.injEq] at hc
          obtain ⟨h1, h2, h3⟩ := hc
          exact ⟨hd, cur, u, fees, root, target, rfl, hb, hu, hfees, hroot, htarget, h1.symm,
            h2.symm, h3.symm⟩

/-! ## no duplicate transactions among transactions with pairwise distinct references -/

theorem noDuplicateTxs_of_nodup (C : Crypto) : ∀ (l : List CTx),
    (∀ t ∈ l, t.tx.inputs.length ≠ 0) → (allRefs l).Nodup → noDuplicateTxs C l = true := by
  intro l
  induction l with
  | nil => intro _ _; rfl
  | cons t rest ih =>
    intro hne hnd
    rw [allRefs_cons, List.nodup_append] at hnd
    obtain ⟨_, hr, hdis⟩ := hnd
    simp only [noDuplicateTxs, Bool.and_eq_true, Bool.not_eq_true', List.any_eq_false,
      decide_eq_true_eq]
    refine ⟨?_, ih (fun x hx => hne x (List.mem_cons_of_mem _ hx)) hr⟩
    intro t' ht' ⟨_, heq⟩
    have h0 := hne t List.mem_cons_self
    cases hin : t.tx.inputs with
    | nil => rw [hin] at h0; exact h0 rfl
    | cons i is =>
      apply hdis i.ref
      · rw [hin]; simp
      · simp only [allRefs, List.mem_flatMap, List.mem_map]
        exact ⟨t', ht', i, by rw [heq, hin]; exact List.mem_cons_self, rfl⟩
      · rfl

/-! ## `uto_apply_block` succeeds when every reference is present and used once -/

theorem addOutputs_contains (txid : Bytes) (k : OutRef) : ∀ (outs : List Output) (u : Utxo) (i : Nat),
    u.contains k = true → (addOutputs u txid outs i).contains k = true := by
  intro outs
  induction outs with
  | nil => intro u i h; exact h
  | cons o rest ih =>
    intro u i h
    simp only [addOutputs]
    apply ih
    rw [Map.contains_set, h, Bool.or_true]

theorem removeInputs_ok : ∀ (ins : List Input) (u : Utxo),
    (ins.map (·.ref)).Nodup → (∀ i ∈ ins, u.contains i.ref = true) →
    ∃ u', removeInputs u ins = .ok u' ∧
      ∀ k, k ∉ ins.map (·.ref) → u.contains k = true → u'.contains k = true := by
  intro ins
  induction ins with
  | nil => intro u _ _; exact ⟨u, rfl, fun _ _ h => h⟩
  | cons i rest ih =>
    intro u hnd hall
    simp only [List.map_cons, List.nodup_cons] at hnd
    have hi := hall i List.mem_cons_self
    have hrest : ∀ j ∈ rest, (u.erase i.ref).contains j.ref = true := by
      intro j hj
      rw [Map.contains_erase, hall j (List.mem_cons_of_mem _ hj), Bool.and_true,
        decide_eq_true_eq]
      intro heq
      exact hnd.1 (heq ▸ List.mem_map_of_mem hj)
    obtain ⟨u', hu', hk⟩ := ih (u.erase i.ref) hnd.2 hrest
    refine ⟨u', by simp only [removeInputs, hi, ↓reduceIte, hu'], ?_⟩
    intro k hk' hc
    simp only [List.map_cons, List.mem_cons, not_or] at hk'
    apply hk k hk'.2
    rw [Map.contains_erase, hc, Bool.and_true, decide_eq_true_eq]
    exact hk'.1

theorem utoApplyTxs_ok (C : Crypto) : ∀ (txs : List CTx) (u : Utxo),
    (allRefs txs).Nodup → (∀ r ∈ allRefs txs, u.contains r = true) →
    ∃ u', utoApplyTxs C u txs = .ok u' := by
  intro txs
  induction txs with
  | nil => intro u _ _; exact ⟨u, rfl⟩
  | cons t rest ih =>
    intro u hnd hall
    rw [allRefs_cons] at hnd hall
    rw [List.nodup_append] at hnd
    obtain ⟨hnd1, hnd2, hdis⟩ := hnd
    obtain ⟨u₁, hu₁, hk⟩ := removeInputs_ok t.tx.inputs u hnd1 (by
      intro i hi
      exact hall _ (List.mem_append_left _ (List.mem_map_of_mem hi)))
    obtain ⟨u', hu'⟩ := ih (addOutputs u₁ (t.id C) t.tx.outputs 0) hnd2 (by
      intro r hr
      apply addOutputs_contains
      apply hk r
      · intro hr'; exact hdis r hr' r hr rfl
      · exact hall r (List.mem_append_right _ hr))
    refine ⟨u', ?_⟩
    simp only [utoApplyTxs, utoApplyTx, Bool.false_eq_true, ↓reduceIte, hu₁, ok_bind, pure,
      Except.pure, hu']

theorem utoApplyBlock_ok (C : Crypto) (u : Utxo) (b : Block) (cb : CTx) (rest : List CTx)
    (htx : b.txs = cb :: rest) (hnd : (allRefs rest).Nodup)
    (hall : ∀ r ∈ allRefs rest, u.contains r = true) : ∃ u', utoApplyBlock C u b = .ok u' := by
  obtain ⟨u', hu'⟩ := utoApplyTxs_ok C rest (addOutputs u (cb.id C) cb.tx.outputs 0) hnd (by
    intro r hr; exact addOutputs_contains _ _ _ _ _ (hall r hr))
  refine ⟨u', ?_⟩
  unfold utoApplyBlock
  rw [htx]
  simp only [utoApplyTx, ↓reduceIte, pure, Except.pure, ok_bind, hu']

/-- `add_block_no_validation` does not raise for a block on the current head whose parent's
unspent set and by-height map are stored -/
theorem addBlockNoValidation_ok (C : Crypto) (cs : CoinState) (b : Block) (u u' : Utxo)
    (bh : Map Nat Block) (hz : b.prev ≠ zeros 32) (hu : cs.utxoAt.get? b.prev = some u)
    (happ : utoApplyBlock C u b = .ok u') (hbh : cs.byHeightAt.get? b.prev = some bh)
    (hcur : cs.current = some b.prev) : ∃ cs', addBlockNoValidation C cs b = .ok cs' := by
  unfold addBlockNoValidation
  simp only [hz, ↓reduceIte, hu, hbh, hcur, pure, Except.pure, ok_bind, happ]
  exact ⟨_, rfl⟩

/-! ## the block store's flush -/

theorem flush_fold (C : Crypto) : ∀ (w d : List Block),
    (∀ x ∈ d, x ∈ w.foldl (fun d b => if d.any (fun x => x.id C = b.id C) then d else d ++ [b]) d) ∧
    (∀ b ∈ w, ∃ x ∈ w.foldl (fun d b => if d.any (fun x => x.id C = b.id C) then d else d ++ [b]) d,
      x.id C = b.id C) := by
  intro w
  induction w with
  | nil => intro d; exact ⟨fun x hx => hx, fun b hb => by cases hb⟩
  | cons a rest ih =>
    intro d
    simp only [List.foldl_cons]
    obtain ⟨ih1, ih2⟩ := ih (if d.any (fun x => x.id C = a.id C) then d else d ++ [a])
    constructor
    · intro x hx
      apply ih1
      split
      · exact hx
      · exact List.mem_append_left _ hx
    · intro b hb
      simp only [List.mem_cons] at hb
      rcases hb with rfl | hb
      · by_cases hany : d.any (fun x => x.id C = b.id C) = true
        · obtain ⟨x, hx, hxe⟩ := List.any_eq_true.mp hany
          exact ⟨x, ih1 x (by rw [if_pos hany]; exact hx), by simpa using hxe⟩
        · exact ⟨b, ih1 b (by rw [if_neg hany]; simp), rfl⟩
      · exact ih2 b hb

end Model

import Model.Framing

/-! Lemmas about the frame parser: appending data commutes with what has already been parsed. -/

namespace Model

variable (magic : Bytes) (maxSize : Nat) (bad : Bytes → Bool)

def app (st : RState) (d : Bytes) : RState := { st with buffer := st.buffer ++ d }

/-- reachable states: a length is only ever read after the magic -/
def RState.Inv (st : RState) : Prop := st.len.isSome = true → st.magicRead = true

/-- two results agree on what is observable: payloads, error, and the state when no error -/
def RResult.Same (r r' : RResult) : Prop :=
  r.payloads = r'.payloads ∧ r.err = r'.err ∧ (r.err = none → r.st = r'.st)

theorem RResult.Same.refl (r : RResult) : r.Same r := ⟨rfl, rfl, fun _ => rfl⟩

theorem RResult.Same.trans {a b c : RResult} (h₁ : a.Same b) (h₂ : b.Same c) : a.Same c :=
  ⟨h₁.1.trans h₂.1, h₁.2.1.trans h₂.2.1, fun h => (h₁.2.2 h).trans (h₂.2.2 (h₁.2.1 ▸ h))⟩

theorem RResult.Same.symm {a b : RResult} (h : a.Same b) : b.Same a :=
  ⟨h.1.symm, h.2.1.symm, fun hb => (h.2.2 (h.2.1 ▸ hb)).symm⟩

/-! ### characterisation of `recv` by the outcome of `settle` -/

theorem recv_err {st : RState} {e : FErr} (h : settle magic maxSize st = .error e) :
    recv magic maxSize bad st = ⟨st, [], some e⟩ := by
  rw [recv]; split
  · rename_i e' h'; rw [h] at h'; cases h'; rfl
  · rename_i s h'; rw [h] at h'; cases h'

theorem recv_none {st s₂ : RState} (h : settle magic maxSize st = .ok s₂) (hl : s₂.len = none) :
    recv magic maxSize bad st = ⟨s₂, [], none⟩ := by
  rw [recv]; split
  · rename_i e' h'; rw [h] at h'; cases h'
  · rename_i s h'; rw [h] at h'; cases h'
    split
    · rfl
    · rename_i n hn; simp [hl] at hn

theorem recv_short {st s₂ : RState} {n : Nat} (h : settle magic maxSize st = .ok s₂)
    (hl : s₂.len = some n) (hn : ¬ n ≤ s₂.buffer.length) :
    recv magic maxSize bad st = ⟨s₂, [], none⟩ := by
  rw [recv]; split
  · rename_i e' h'; rw [h] at h'; cases h'
  · rename_i s h'; rw [h] at h'; cases h'
    split
    · rename_i hn'; simp [hl] at hn'
    · rename_i m hm; rw [hl] at hm; cases hm
      simp [hn]

theorem recv_bad {st s₂ : RState} {n : Nat} (h : settle magic maxSize st = .ok s₂)
    (hl : s₂.len = some n) (hn : n ≤ s₂.buffer.length) (hb : bad (s₂.buffer.take n) = true) :
    recv magic maxSize bad st = ⟨s₂, [], some .handler⟩ := by
  rw [recv]; split
  · rename_i e' h'; rw [h] at h'; cases h'
  · rename_i s h'; rw [h] at h'; cases h'
    split
    · rename_i hn'; simp [hl] at hn'
    · rename_i m hm; rw [hl] at hm; cases hm
      simp [hn, hb]

theorem recv_good {st s₂ : RState} {n : Nat} (h : settle magic maxSize st = .ok s₂)
    (hl : s₂.len = some n) (hn : n ≤ s₂.buffer.length) (hb : bad (s₂.buffer.take n) = false) :
    recv magic maxSize bad st =
      ⟨(recv magic maxSize bad ⟨s₂.buffer.drop n, false, none⟩).st,
       s₂.buffer.take n :: (recv magic maxSize bad ⟨s₂.buffer.drop n, false, none⟩).payloads,
       (recv magic maxSize bad ⟨s₂.buffer.drop n, false, none⟩).err⟩ := by
  rw [recv]; split
  · rename_i e' h'; rw [h] at h'; cases h'
  · rename_i s h'; rw [h] at h'; cases h'
    split
    · rename_i hn'; simp [hl] at hn'
    · rename_i m hm; rw [hl] at hm; cases hm
      simp [hn, hb]

/-- `recv` depends on its argument only through `settle` (up to the unobservable error state) -/
theorem recv_congr {a b : RState} (h : settle magic maxSize a = settle magic maxSize b) :
    (recv magic maxSize bad a).Same (recv magic maxSize bad b) := by
  cases hb : settle magic maxSize b with
  | error e =>
    rw [recv_err magic maxSize bad (h.trans hb), recv_err magic maxSize bad hb]
    exact ⟨rfl, rfl, fun h => by cases h⟩
  | ok s₂ =>
    have ha := h.trans hb
    cases hl : s₂.len with
    | none =>
      rw [recv_none magic maxSize bad ha hl, recv_none magic maxSize bad hb hl]
      exact RResult.Same.refl _
    | some n =>
      by_cases hn : n ≤ s₂.buffer.length
      · cases hbad : bad (s₂.buffer.take n) with
        | true =>
          rw [recv_bad magic maxSize bad ha hl hn hbad, recv_bad magic maxSize bad hb hl hn hbad]
          exact RResult.Same.refl _
        | false =>
          rw [recv_good magic maxSize bad ha hl hn hbad, recv_good magic maxSize bad hb hl hn hbad]
          exact RResult.Same.refl _
      · rw [recv_short magic maxSize bad ha hl hn, recv_short magic maxSize bad hb hl hn]
        exact RResult.Same.refl _

/-! ### `settle` and appended data -/

theorem take4_app {b d : Bytes} (h : 4 ≤ b.length) : (b ++ d).take 4 = b.take 4 :=
  List.take_append_of_le_length h

theorem drop4_app {b d : Bytes} (h : 4 ≤ b.length) : (b ++ d).drop 4 = b.drop 4 ++ d :=
  List.drop_append_of_le_length h

theorem phaseM_err {st : RState} {e : FErr} (d : Bytes) (h : phaseM magic st = .error e) :
    phaseM magic (app st d) = .error e := by
  unfold phaseM at h ⊢
  split at h
  · rename_i hc
    simp only [Bool.and_eq_true, Bool.not_eq_eq_eq_not, Bool.not_true, decide_eq_true_eq] at hc
    have hc' : (!(app st d).magicRead && decide (4 ≤ (app st d).buffer.length)) = true := by
      simp [app, hc.1]; omega
    rw [if_pos hc']
    simp only [app, take4_app hc.2]
    split at h
    · rename_i hm; rw [if_pos hm]; exact h
    · cases h
  · cases h

/-- if the magic phase fired or could not fire for a reason that more data does not change,
it does the same on the extended buffer -/
theorem phaseM_app_fired {st s₁ : RState} (d : Bytes) (h : phaseM magic st = .ok s₁)
    (hf : st.magicRead = true ∨ 4 ≤ st.buffer.length) :
    phaseM magic (app st d) = .ok (app s₁ d) := by
  unfold phaseM at h ⊢
  by_cases hm : st.magicRead = true
  · simp [hm] at h
    cases h
    simp [app, hm]
  · have hlen : 4 ≤ st.buffer.length := by
      rcases hf with h' | h'
      · exact absurd h' hm
      · exact h'
    have hm' : st.magicRead = false := by simpa using hm
    have hc : (!st.magicRead && decide (4 ≤ st.buffer.length)) = true := by simp [hm', hlen]
    have hc' : (!(app st d).magicRead && decide (4 ≤ (app st d).buffer.length)) = true := by
      simp [app, hm']; omega
    rw [if_pos hc] at h
    rw [if_pos hc']
    simp only [app, take4_app hlen, drop4_app hlen]
    split at h
    · cases h
    · rename_i hne; rw [if_neg hne]; cases h; rfl

theorem phaseL_err {st : RState} {e : FErr} (d : Bytes) (h : phaseL maxSize st = .error e) :
    phaseL maxSize (app st d) = .error e := by
  unfold phaseL at h ⊢
  split at h
  · rename_i hc
    simp only [Bool.and_eq_true, Option.isNone_iff_eq_none, decide_eq_true_eq] at hc
    have hc' : ((app st d).len.isNone && decide (4 ≤ (app st d).buffer.length)) = true := by
      simp [app, hc.1]; omega
    rw [if_pos hc']
    simp only [app, take4_app hc.2]
    simp only at h
    split at h
    · rename_i hm; rw [if_pos hm]; exact h
    · cases h
  · cases h

theorem phaseL_app_fired {st s₂ : RState} (d : Bytes) (h : phaseL maxSize st = .ok s₂)
    (hf : st.len.isSome = true ∨ 4 ≤ st.buffer.length) :
    phaseL maxSize (app st d) = .ok (app s₂ d) := by
  unfold phaseL at h ⊢
  by_cases hl : st.len.isSome = true
  · have : st.len.isNone = false := by
      cases hx : st.len <;> simp_all
    simp [this] at h
    cases h
    simp [app, this]
  · have hlen : 4 ≤ st.buffer.length := by
      rcases hf with h' | h'
      · exact absurd h' hl
      · exact h'
    have hnone : st.len.isNone = true := by
      cases hx : st.len <;> simp_all
    have hc : (st.len.isNone && decide (4 ≤ st.buffer.length)) = true := by simp [hnone, hlen]
    have hc' : ((app st d).len.isNone && decide (4 ≤ (app st d).buffer.length)) = true := by
      simp [app, hnone]; omega
    rw [if_pos hc] at h
    rw [if_pos hc']
    simp only [app, take4_app hlen, drop4_app hlen]
    simp only at h
    split at h
    · cases h
    · rename_i hne; rw [if_neg hne]; cases h; rfl

theorem settle_err {st : RState} {e : FErr} (d : Bytes) (hinv : st.Inv)
    (h : settle magic maxSize st = .error e) : settle magic maxSize (app st d) = .error e := by
  unfold settle at h ⊢
  cases hm : phaseM magic st with
  | error e' =>
    rw [hm] at h; cases h
    rw [phaseM_err magic d hm]
  | ok s₁ =>
    rw [hm] at h
    simp only at h
    -- the length phase raised, so it fired: s₁.buffer has ≥ 4 bytes and s₁.len = none
    have hL : s₁.len.isNone = true ∧ 4 ≤ s₁.buffer.length := by
      unfold phaseL at h
      split at h
      · rename_i hc; simpa using hc
      · cases h
    -- hence the magic had been read (now or before)
    by_cases hmr : st.magicRead = true
    · rw [phaseM_app_fired magic d hm (Or.inl hmr)]
      exact phaseL_err maxSize d h
    · by_cases hlen : 4 ≤ st.buffer.length
      · rw [phaseM_app_fired magic d hm (Or.inr hlen)]
        exact phaseL_err maxSize d h
      · -- magic phase did not fire: s₁ = st with fewer than 4 bytes, contradiction
        exfalso
        unfold phaseM at hm
        have : (!st.magicRead && decide (4 ≤ st.buffer.length)) = false := by simp [hlen]
        rw [this] at hm
        simp at hm; cases hm
        omega

/-- a settled state stays settled when data is appended, as long as a length is known -/
theorem settle_app_self {s₂ : RState} (d : Bytes) (hinv : s₂.Inv) (hl : s₂.len.isSome = true) :
    settle magic maxSize (app s₂ d) = .ok (app s₂ d) := by
  have hm := hinv hl
  unfold settle phaseM phaseL
  have : s₂.len.isNone = false := by cases hx : s₂.len <;> simp_all
  simp [app, hm, this]

theorem phaseM_inv {st s₁ : RState} (hinv : st.Inv) (h : phaseM magic st = .ok s₁) : s₁.Inv := by
  unfold phaseM at h
  split at h
  · split at h
    · cases h
    · cases h; intro _; rfl
  · cases h; exact hinv

theorem phaseL_inv {st s₂ : RState} (hinv : st.Inv) (h : phaseL maxSize st = .ok s₂)
    (hm : st.len.isNone = true → 4 ≤ st.buffer.length → st.magicRead = true) : s₂.Inv := by
  unfold phaseL at h
  split at h
  · rename_i hc
    simp only [Bool.and_eq_true, decide_eq_true_eq] at hc
    simp only at h
    split at h
    · cases h
    · cases h; intro _; exact hm hc.1 hc.2
  · cases h; exact hinv

/-- after the magic phase, a buffer of ≥ 4 bytes implies the magic has been read -/
theorem phaseM_post {st s₁ : RState} (h : phaseM magic st = .ok s₁) :
    4 ≤ s₁.buffer.length → s₁.magicRead = true := by
  intro hlen
  unfold phaseM at h
  split at h
  · split at h
    · cases h
    · cases h; rfl
  · rename_i hc
    cases h
    cases hm : st.magicRead with
    | true => rfl
    | false => exfalso; apply hc; simp [hm, hlen]

theorem settle_inv {st s₂ : RState} (hinv : st.Inv) (h : settle magic maxSize st = .ok s₂) :
    s₂.Inv := by
  unfold settle at h
  cases hm : phaseM magic st with
  | error e => rw [hm] at h; cases h
  | ok s₁ =>
    rw [hm] at h
    exact phaseL_inv maxSize (phaseM_inv magic hinv hm) h (fun _ hl => phaseM_post magic hm hl)

/-- what has been settled can be settled again after more data arrives, with the same result
as settling everything at once -/
theorem settle_app {st s₂ : RState} (d : Bytes) (hinv : st.Inv)
    (h : settle magic maxSize st = .ok s₂) :
    settle magic maxSize (app st d) = settle magic maxSize (app s₂ d) := by
  have hinv₂ := settle_inv magic maxSize hinv h
  unfold settle at h
  cases hm : phaseM magic st with
  | error e => rw [hm] at h; cases h
  | ok s₁ =>
    rw [hm] at h
    simp only at h
    have hinv₁ := phaseM_inv magic hinv hm
    -- did the magic phase fire (or was it already done)?
    by_cases hf : st.magicRead = true ∨ 4 ≤ st.buffer.length
    · have hM := phaseM_app_fired magic d hm hf
      have hmr₁ : s₁.magicRead = true := by
        unfold phaseM at hm
        split at hm
        · split at hm
          · cases hm
          · cases hm; rfl
        · rename_i hc
          cases hm
          rcases hf with h' | h'
          · exact h'
          · cases hx : st.magicRead with
            | true => rfl
            | false => exfalso; apply hc; simp [hx, h']
      -- did the length phase fire (or was it already done)?
      by_cases hg : s₁.len.isSome = true ∨ 4 ≤ s₁.buffer.length
      · have hL := phaseL_app_fired maxSize d h hg
        have hl₂ : s₂.len.isSome = true := by
          unfold phaseL at h
          split at h
          · simp only at h
            split at h
            · cases h
            · cases h; rfl
          · rename_i hc
            cases h
            rcases hg with h' | h'
            · exact h'
            · cases hx : s₂.len with
              | some n => rfl
              | none => exfalso; apply hc; simp [hx, h']
        rw [settle_app_self magic maxSize d hinv₂ hl₂]
        unfold settle
        rw [hM]; exact hL
      · -- length phase idle on s₁: s₂ = s₁
        have : s₂ = s₁ := by
          unfold phaseL at h
          have hc : (s₁.len.isNone && decide (4 ≤ s₁.buffer.length)) = false := by
            cases hx : s₁.len <;> simp_all
          rw [hc] at h; simp at h; exact h.symm
        subst this
        unfold settle
        rw [hM]
        have : phaseM magic (app s₂ d) = .ok (app s₂ d) := by
          unfold phaseM; simp [app, hmr₁]
        rw [this]
    · -- magic phase idle and will stay to be done: s₁ = st, nothing can have fired after it
      have hmr : st.magicRead = false := by
        cases hx : st.magicRead <;> simp_all
      have hlen : ¬ 4 ≤ st.buffer.length := fun h' => hf (Or.inr h')
      have e₁ : s₁ = st := by
        unfold phaseM at hm
        have hc : (!st.magicRead && decide (4 ≤ st.buffer.length)) = false := by simp [hlen]
        rw [hc] at hm; simp at hm; exact hm.symm
      subst e₁
      have e₂ : s₂ = s₁ := by
        unfold phaseL at h
        have hc : (s₁.len.isNone && decide (4 ≤ s₁.buffer.length)) = false := by simp [hlen]
        rw [hc] at h; simp at h; exact h.symm
      subst e₂
      rfl

/-! ### the key lemma -/

theorem recv_inv (st : RState) (hinv : st.Inv) : (recv magic maxSize bad st).st.Inv := by
  fun_induction recv magic maxSize bad st with
  | case1 st e hs => exact hinv
  | case2 st s₂ hs hl => exact settle_inv magic maxSize hinv hs
  | case3 st s₂ hs n hl hn payload hb => exact settle_inv magic maxSize hinv hs
  | case4 st s₂ hs n hl hn payload hb r ih => exact ih (by intro h; cases h)
  | case5 st s₂ hs n hl hn => exact settle_inv magic maxSize hinv hs

/-- parsing `st`, then appending `d` and parsing on, is parsing `st` with `d` appended -/
theorem recv_app (st : RState) (d : Bytes) (hinv : st.Inv) :
    let r := recv magic maxSize bad st
    (∀ e, r.err = some e →
      (recv magic maxSize bad (app st d)).err = some e ∧
      (recv magic maxSize bad (app st d)).payloads = r.payloads) ∧
    (r.err = none →
      (recv magic maxSize bad (app st d)).Same
        ⟨(recv magic maxSize bad (app r.st d)).st,
         r.payloads ++ (recv magic maxSize bad (app r.st d)).payloads,
         (recv magic maxSize bad (app r.st d)).err⟩) := by
  fun_induction recv magic maxSize bad st with
  | case1 st e hs =>
    refine ⟨?_, fun h => by cases h⟩
    intro e' he
    cases he
    rw [recv_err magic maxSize bad (settle_err magic maxSize d hinv hs)]
    exact ⟨rfl, rfl⟩
  | case2 st s₂ hs hl =>
    refine ⟨fun e h => (by cases h), fun _ => ?_⟩
    simp only [List.nil_append]
    exact recv_congr magic maxSize bad (settle_app magic maxSize d hinv hs)
  | case3 st s₂ hs n hl hn payload hb =>
    refine ⟨?_, fun h => by cases h⟩
    intro e' he
    cases he
    have hinv₂ := settle_inv magic maxSize hinv hs
    have hs' : settle magic maxSize (app st d) = .ok (app s₂ d) := by
      rw [settle_app magic maxSize d hinv hs]
      exact settle_app_self magic maxSize d hinv₂ (by rw [hl]; rfl)
    have hn' : n ≤ (app s₂ d).buffer.length := by simp [app]; omega
    have hb' : bad ((app s₂ d).buffer.take n) = true := by
      simp only [app, List.take_append_of_le_length hn]; exact hb
    rw [recv_bad magic maxSize bad hs' (by simpa [app] using hl) hn' hb']
    exact ⟨rfl, rfl⟩
  | case4 st s₂ hs n hl hn payload hb r ih =>
    have hinv₂ := settle_inv magic maxSize hinv hs
    have hs' : settle magic maxSize (app st d) = .ok (app s₂ d) := by
      rw [settle_app magic maxSize d hinv hs]
      exact settle_app_self magic maxSize d hinv₂ (by rw [hl]; rfl)
    have hn' : n ≤ (app s₂ d).buffer.length := by simp [app]; omega
    have hb' : bad ((app s₂ d).buffer.take n) = false := by
      simp only [app, List.take_append_of_le_length hn]; simpa using hb
    have hstep := recv_good magic maxSize bad hs' (by simpa [app] using hl) hn' hb'
    have hdrop : (⟨(app s₂ d).buffer.drop n, false, none⟩ : RState)
        = app ⟨s₂.buffer.drop n, false, none⟩ d := by
      simp only [app, List.drop_append_of_le_length hn]
    have htake : (app s₂ d).buffer.take n = payload := by
      simp only [app, List.take_append_of_le_length hn]; rfl
    rw [hdrop, htake] at hstep
    obtain ⟨ih₁, ih₂⟩ := ih (by intro h; cases h)
    constructor
    · intro e he
      obtain ⟨a, b⟩ := ih₁ e he
      rw [hstep]
      exact ⟨a, by simp only [b]; rfl⟩
    · intro he
      obtain ⟨a, b, c⟩ := ih₂ he
      rw [hstep]
      refine ⟨?_, b, ?_⟩
      · simp only [a, List.cons_append]; rfl
      · intro h; exact c h
  | case5 st s₂ hs n hl hn =>
    refine ⟨fun e h => (by cases h), fun _ => ?_⟩
    simp only [List.nil_append]
    exact recv_congr magic maxSize bad (settle_app magic maxSize d hinv hs)

end Model

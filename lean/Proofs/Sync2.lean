import Model.Spec
import Proofs.Map
import Proofs.Chain
import Proofs.Replay
import Proofs.Walk
import Props.C03
import Props.C04

/-!
Lemmas used by `Props/C10Sync.lean`: when `addBlockNoValidation` succeeds, the head of a built state
is at least as high as every stored block, the chain of a block is the same list in two histories
without id collisions, and the one-step extension of a requester's history by a block of the server's
history whose parent the requester already stores.
-/

namespace Model
variable (C : Crypto)

/-! ## `foldBlocks` over an append -/

theorem foldBlocks_append (cs : CoinState) (l₁ l₂ : List Block) :
    foldBlocks C cs (l₁ ++ l₂) =
      match foldBlocks C cs l₁ with
      | .error e => .error e
      | .ok s => foldBlocks C s l₂ := by
  induction l₁ generalizing cs with
  | nil => rfl
  | cons x rest ih =>
    simp only [List.cons_append, foldBlocks]
    cases addBlockNoValidation C cs x with
    | error e => rfl
    | ok s' => exact ih s'

theorem foldBlocks_append_ok {cs s s' : CoinState} {l₁ l₂ : List Block}
    (h₁ : foldBlocks C cs l₁ = .ok s) (h₂ : foldBlocks C s l₂ = .ok s') :
    foldBlocks C cs (l₁ ++ l₂) = .ok s' := by
  rw [foldBlocks_append, h₁]
  exact h₂

theorem foldBlocks_single {cs s : CoinState} {b : Block}
    (h : addBlockNoValidation C cs b = .ok s) : foldBlocks C cs [b] = .ok s := by
  simp only [foldBlocks, h]

/-! ## when `addBlockNoValidation` does not raise -/

/-- a non-genesis block is added without an exception as soon as the parent's unspent set and
by-height index are stored, `uto_apply_block` succeeds on that unspent set, and the current head is
a stored block -/
theorem add_ok_of {cs : CoinState} {b : Block} {u₀ u : Utxo} {bh : Map Nat Block} {c : Bytes}
    {cb : Block} (hz : b.prev ≠ zeros 32) (hu0 : cs.utxoAt.get? b.prev = some u₀)
    (hap : utoApplyBlock C u₀ b = .ok u) (hbh : cs.byHeightAt.get? b.prev = some bh)
    (hc : cs.current = some c) (hcb : cs.blocks.get? c = some cb) :
    ∃ cs', addBlockNoValidation C cs b = .ok cs' := by
  unfold addBlockNoValidation
  simp only [bind, Except.bind, pure, Except.pure, hz, ↓reduceIte, hu0, hap, hbh, hc, hcb]
  split <;> exact ⟨_, rfl⟩

/-! ## the head of a built state is at least as high as every stored block -/

theorem firstMax_ge {bs : List Block} {m : Block} (h : firstMax bs = some m) :
    ∀ x ∈ bs, x.height ≤ m.height := by
  induction bs generalizing m with
  | nil => cases h
  | cons y rest ih =>
    simp only [firstMax] at h
    cases h0 : firstMax rest with
    | none =>
      rw [h0] at h
      simp only [Option.some.injEq] at h
      have hr : rest = [] := by
        cases rest with
        | nil => rfl
        | cons z r => exact absurd h0 (firstMax_ne_none (by simp))
      subst hr
      intro x hx
      rw [List.mem_singleton.1 hx, h]
      exact Nat.le_refl _
    | some m' =>
      rw [h0] at h
      simp only at h
      have ih' := ih h0
      intro x hx
      split at h
      · simp only [Option.some.injEq] at h
        subst h
        rcases List.mem_cons.1 hx with hx | hx
        · subst hx; omega
        · exact ih' x hx
      · simp only [Option.some.injEq] at h
        subst h
        rcases List.mem_cons.1 hx with hx | hx
        · subst hx; exact Nat.le_refl _
        · have := ih' x hx; omega

/-- the head of a state built from a well-formed history is a block of the history, at least as
high as every block of the history -/
theorem built_head_ge (bs : List Block) (s : CoinState) (hwf : WFArrivals C bs)
    (hf : foldBlocks C .empty bs = .ok s) :
    ∃ m ∈ bs, s.head = some m ∧ ∀ x ∈ bs, x.height ≤ m.height := by
  have hcur := C04.head_is_first_max C bs s hwf hf
  have F := hwf.facts C
  cases hm : firstMax bs with
  | none => exact absurd hm (firstMax_ne_none F.ne)
  | some m =>
    rw [hm] at hcur
    have hmem := firstMax_mem hm
    refine ⟨m, hmem, ?_, firstMax_ge hm⟩
    unfold CoinState.head
    rw [hcur]
    exact (C04.blocks_are_history C bs s hwf hf (m.id C) m).2 ⟨hmem, rfl⟩

/-! ## `chainOf`: one step, and two histories without id collisions -/

/-- the chain of a block is its parent's chain, then the block -/
theorem chainOf_step {bs : List Block} (F : HistFacts C bs) {b p : Block} (hb : b ∈ bs)
    (hp : p ∈ bs) (hprev : b.prev = p.id C) :
    chainOf C bs bs.length b = chainOf C bs bs.length p ++ [b] := by
  have hlt := F.ht b hb
  have hpl := F.ht p hp
  obtain ⟨n, hn⟩ : ∃ n, bs.length = n + 1 := ⟨bs.length - 1, by omega⟩
  have hz : p.id C ≠ zeros 32 := F.nz p hp
  have h1 := findBlock_of_mem C F hp
  rw [hn]
  simp only [chainOf, hprev, hz, ↓reduceIte, h1]
  rw [chainOf_fuel C F n (n + 1) hp (by omega) (by omega)]
  simp only [chainOf]

/-- in two well-formed histories in which equal ids mean equal blocks, a common block has the same
chain -/
theorem chainOf_same {ds ss : List Block} (Fd : HistFacts C ds) (Fs : HistFacts C ss)
    (hsame : ∀ a ∈ ds, ∀ b ∈ ss, a.id C = b.id C → a = b) :
    ∀ (f : Nat) (x : Block), x ∈ ds → x ∈ ss → chainOf C ds f x = chainOf C ss f x := by
  intro f
  induction f with
  | zero => intro x _ _; rfl
  | succ f ih =>
    intro x hxd hxs
    unfold chainOf
    by_cases hz : x.prev = zeros 32
    · simp only [hz, ↓reduceIte]
    · obtain ⟨q, hq, hqp, -⟩ := Fd.parent C hxd hz
      obtain ⟨q', hq', hqp', -⟩ := Fs.parent C hxs hz
      have e : q = q' := hsame q hq q' hq' (hqp.symm.trans hqp')
      subst e
      have h1 := findBlock_of_mem C Fd hq
      have h2 := findBlock_of_mem C Fs hq'
      rw [← hqp] at h1 h2
      simp only [hz, ↓reduceIte, h1, h2, ih q hq hq']

theorem chainOf_same_len {ds ss : List Block} (Fd : HistFacts C ds) (Fs : HistFacts C ss)
    (hsame : ∀ a ∈ ds, ∀ b ∈ ss, a.id C = b.id C → a = b) {x : Block} (hxd : x ∈ ds)
    (hxs : x ∈ ss) : chainOf C ds ds.length x = chainOf C ss ss.length x := by
  have h1 := Fd.ht x hxd
  have h2 := Fs.ht x hxs
  rw [chainOf_fuel C Fd ds.length x.height hxd (by omega) (Nat.le_refl _),
    chainOf_fuel C Fs ss.length x.height hxs (by omega) (Nat.le_refl _)]
  exact chainOf_same C Fd Fs hsame x.height x hxd hxs

/-! ## one more block of the server's history arrives at the requester -/

/-- `ds` (the requester's history so far) and `ss` (the server's history) are well-formed, all their
arrivals succeeded, equal ids mean equal blocks. A block `b` of the server's history that the
requester does not store, whose parent `p` the requester's history contains, is added without an
exception; the extended history is well-formed and still has no id collision with the server's -/
theorem extend_ok {ds ss : List Block} {s srv : CoinState}
    (hwfd : WFArrivals C ds) (hfd : foldBlocks C .empty ds = .ok s)
    (hwfs : WFArrivals C ss) (hfs : foldBlocks C .empty ss = .ok srv)
    (hsame : ∀ a ∈ ds, ∀ b ∈ ss, a.id C = b.id C → a = b)
    {b p : Block} (hb : b ∈ ss) (hp : p ∈ ss) (hpd : p ∈ ds) (hprev : b.prev = p.id C)
    (hh : b.height = p.height + 1) (hnew : s.blocks.contains (b.id C) = false) :
    ∃ s', addBlockNoValidation C s b = .ok s' ∧ WFArrivals C (ds ++ [b]) ∧
      foldBlocks C .empty (ds ++ [b]) = .ok s' ∧
      (∀ a ∈ ds ++ [b], ∀ b' ∈ ss, a.id C = b'.id C → a = b') := by
  have Fd := hwfd.facts C
  have Fs := hwfs.facts C
  have I := C10Walk.stateInv C ds s hwfd hfd
  have hfresh : ∀ c ∈ ds, c.id C ≠ b.id C := by
    intro c hc e
    have h1 := I.store c hc
    rw [e] at h1
    simp [Map.contains, h1] at hnew
  have hz : b.prev ≠ zeros 32 := by rw [hprev]; exact Fs.nz p hp
  -- the unspent set of the parent is the same map on both sides
  obtain ⟨u, -, hru⟩ := C03.utxo_is_replay C ss srv hwfs hfs b hb
  obtain ⟨up, hup, hrp⟩ := C03.utxo_is_replay C ds s hwfd hfd p hpd
  rw [chainOf_step C Fs hb hp hprev, replayUtxo_snoc,
    ← chainOf_same_len C Fd Fs hsame hpd hp, hrp] at hru
  simp only at hru
  obtain ⟨idx, hidx, -⟩ := I.idx p hpd
  obtain ⟨m, hm, hcur⟩ := I.cur
  have hst := I.store m hm
  rw [← hprev] at hup hidx
  obtain ⟨s', hs'⟩ := add_ok_of C hz hup hru hidx hcur hst
  refine ⟨s', hs', ?_, ?_, ?_⟩
  · exact .snoc ds b p hwfd hpd hprev hh (Fs.nz b hb) hfresh
  · rw [foldBlocks_snoc, hfd]
    exact hs'
  · intro a ha b' hb' e
    rcases List.mem_append.1 ha with ha | ha
    · exact hsame a ha b' hb' e
    · rw [List.mem_singleton.1 ha] at e ⊢
      exact Fs.inj b hb b' hb' e

end Model

import Model.Basic
import Mathlib.Tactic.Ring

/-! Lemmas about big-endian integers and the variable-length quantity. -/

namespace Model

theorem bitLen_zero : bitLen 0 = 0 := by unfold bitLen; simp

theorem bitLen_pos {n : Nat} (h : n ≠ 0) : bitLen n = bitLen (n / 2) + 1 := by
  rw [bitLen]; simp [h]

theorem lt_two_pow_bitLen (n : Nat) : n < 2 ^ bitLen n := by
  induction n using Nat.strongRecOn with
  | _ n ih =>
    by_cases h : n = 0
    · subst h; simp [bitLen_zero]
    · rw [bitLen_pos h, Nat.pow_succ]
      have := ih (n / 2) (by omega)
      omega

theorem two_pow_bitLen_le {n : Nat} (h : n ≠ 0) : 2 ^ (bitLen n - 1) ≤ n := by
  induction n using Nat.strongRecOn with
  | _ n ih =>
    rw [bitLen_pos h]
    by_cases h2 : n / 2 = 0
    · simp [h2, bitLen_zero]; omega
    · have := ih (n / 2) (by omega) h2
      have hb : bitLen (n / 2) ≠ 0 := by rw [bitLen_pos h2]; omega
      have : 2 ^ (bitLen (n / 2) - 1 + 1) ≤ n := by rw [Nat.pow_succ]; omega
      have e : bitLen (n / 2) - 1 + 1 = bitLen (n / 2) + 1 - 1 := by omega
      rw [e] at this; exact this

theorem pow128 (k : Nat) : 128 ^ k = 2 ^ (7 * k) := by
  rw [Nat.pow_mul]

theorem lt_pow_vlqLen (i : Nat) : i < 128 ^ vlqLen i := by
  unfold vlqLen
  rw [pow128]
  have h1 := lt_two_pow_bitLen i
  have h2 : 2 ^ bitLen i ≤ 2 ^ (7 * (bitLen i / 7 + 1)) :=
    Nat.pow_le_pow_right (by omega) (by omega)
  omega

/-- a value whose encoder length is `k` is at least `128^(k-1) / 2` — used for canonicity:
the number of digits determines the range the value lies in. -/
theorem vlqLen_eq_iff (v k : Nat) (hk : 0 < k) :
    vlqLen v = k ↔ (if k = 1 then v < 64 else 2 ^ (7 * (k - 1) - 1) ≤ v ∧ v < 2 ^ (7 * k - 1)) := by
  unfold vlqLen
  constructor
  · intro h
    have hb : 7 * (k - 1) ≤ bitLen v ∧ bitLen v < 7 * k := by omega
    split
    · rename_i h1; subst h1
      have := lt_two_pow_bitLen v
      have : 2 ^ bitLen v ≤ 2 ^ 6 := Nat.pow_le_pow_right (by omega) (by omega)
      omega
    · rename_i h1
      have hv : v ≠ 0 := by
        intro h0; subst h0; rw [bitLen_zero] at hb; omega
      constructor
      · have := two_pow_bitLen_le hv
        have : 2 ^ (7 * (k - 1) - 1) ≤ 2 ^ (bitLen v - 1) := Nat.pow_le_pow_right (by omega) (by omega)
        omega
      · have := lt_two_pow_bitLen v
        have : 2 ^ bitLen v ≤ 2 ^ (7 * k - 1) := Nat.pow_le_pow_right (by omega) (by omega)
        omega
  · intro h
    split at h
    · rename_i h1; subst h1
      by_cases hv : v = 0
      · subst hv; simp [bitLen_zero]
      · have := two_pow_bitLen_le hv
        have hlt : bitLen v - 1 < 6 := by
          apply (Nat.pow_lt_pow_iff_right (a := 2) (by omega)).mp
          omega
        omega
    · rename_i h1
      have hv : v ≠ 0 := by
        intro h0; subst h0
        have : 0 < 2 ^ (7 * (k - 1) - 1) := Nat.pow_pos (by omega)
        omega
      have hlo := two_pow_bitLen_le hv
      have hhi := lt_two_pow_bitLen v
      have a : bitLen v - 1 < 7 * k - 1 := by
        apply (Nat.pow_lt_pow_iff_right (a := 2) (by omega)).mp; omega
      have b : 7 * (k - 1) - 1 < bitLen v := by
        apply (Nat.pow_lt_pow_iff_right (a := 2) (by omega)).mp; omega
      omega

end Model

namespace Model

theorem ofNat_toNat_u8 (b : UInt8) : UInt8.ofNat b.toNat = b := by
  apply UInt8.toNat_inj.mp
  rw [UInt8.toNat_ofNat']
  have := b.toNat_lt
  omega

theorem vlqDigits_add_mul (w : Nat) : ∀ (k q : Nat), vlqDigits (q * 128 ^ k + w) k = vlqDigits w k := by
  intro k
  induction k with
  | zero => intro q; simp [vlqDigits]
  | succ j ih =>
    intro q
    cases j with
    | zero =>
      simp only [vlqDigits]
      have : (q * 128 ^ (0 + 1) + w) % 128 = w % 128 := by simp
      rw [this]
    | succ j =>
      have hpos : 0 < 128 ^ (j + 1) := Nat.pow_pos (by omega)
      have e : q * 128 ^ (j + 1 + 1) + w = w + (q * 128) * 128 ^ (j + 1) := by
        rw [Nat.pow_succ 128 (j + 1), Nat.mul_assoc, Nat.mul_comm 128 (128 ^ (j + 1)), Nat.add_comm]
      simp only [vlqDigits]
      congr 1
      · rw [e, Nat.add_mul_div_right _ _ hpos]
        have : (w / 128 ^ (j + 1) + q * 128) % 128 = (w / 128 ^ (j + 1)) % 128 := by omega
        rw [this]
      · rw [e, Nat.add_comm]; exact ih (q * 128)

theorem decodeAux_digits (i : Nat) : ∀ (k : Nat) (r : Bytes) (acc n : Nat),
    decodeVlqAux (vlqDigits i (k + 1) ++ r) acc n
      = some (acc * 128 ^ k + i % 128 ^ (k + 1), n + k + 1, r) := by
  intro k
  induction k with
  | zero =>
    intro r acc n
    simp only [vlqDigits, List.cons_append, List.nil_append, decodeVlqAux]
    have h : (UInt8.ofNat (i % 128)).toNat = i % 128 := by
      rw [UInt8.toNat_ofNat']; omega
    rw [h]
    have : i % 128 < 128 := Nat.mod_lt _ (by omega)
    simp [this]
  | succ k ih =>
    intro r acc n
    rw [vlqDigits]
    simp only [List.cons_append, decodeVlqAux]
    have hd : (i / 128 ^ (k + 1)) % 128 < 128 := Nat.mod_lt _ (by omega)
    have h : (UInt8.ofNat (i / 128 ^ (k + 1) % 128 + 128)).toNat
        = (i / 128 ^ (k + 1)) % 128 + 128 := by
      rw [UInt8.toNat_ofNat']; omega
    rw [h]
    have hn : ¬ ((i / 128 ^ (k + 1)) % 128 + 128 < 128) := by omega
    simp only [hn, if_false]
    rw [ih]
    have e : ((i / 128 ^ (k + 1)) % 128 + 128) % 128 = (i / 128 ^ (k + 1)) % 128 := by omega
    have key : (acc + (i / 128 ^ (k + 1) % 128 + 128) % 128) * 128 * 128 ^ k + i % 128 ^ (k + 1)
        = acc * 128 ^ (k + 1) + i % 128 ^ (k + 1 + 1) := by
      rw [e, Nat.mod_pow_succ (b := 128) (k := k + 1), Nat.pow_succ 128 k]; ring
    rw [key]
    have : n + 1 + k + 1 = n + (k + 1) + 1 := by omega
    rw [this]

/-- C07 for the VLQ, one direction: what the encoder writes, the strict decoder reads back. -/
theorem decodeVlq_encodeVlq (i : Nat) (r : Bytes) : decodeVlq (encodeVlq i ++ r) = some (i, r) := by
  unfold decodeVlq encodeVlq
  have hl : vlqLen i = (vlqLen i - 1) + 1 := by unfold vlqLen; omega
  rw [hl, decodeAux_digits]
  have hb := lt_pow_vlqLen i
  rw [hl] at hb
  simp [Nat.mod_eq_of_lt hb]
  omega

theorem decodeAux_inv : ∀ (bs : Bytes) (acc n v n' : Nat) (r : Bytes),
    decodeVlqAux bs acc n = some (v, n', r) →
    ∃ k w, n' = n + k + 1 ∧ w < 128 ^ (k + 1) ∧ v = acc * 128 ^ k + w ∧ bs = vlqDigits w (k + 1) ++ r := by
  intro bs
  induction bs with
  | nil => intro acc n v n' r h; simp [decodeVlqAux] at h
  | cons b rest ih =>
    intro acc n v n' r h
    simp only [decodeVlqAux] at h
    by_cases hb : b.toNat < 128
    · simp only [hb, if_true, Option.some.injEq, Prod.mk.injEq] at h
      obtain ⟨h1, h2, h3⟩ := h
      refine ⟨0, b.toNat, by omega, by simpa using hb, by omega, ?_⟩
      simp only [vlqDigits, List.cons_append, List.nil_append]
      have : b.toNat % 128 = b.toNat := by omega
      rw [this, ofNat_toNat_u8, h3]
    · simp only [hb, if_false] at h
      obtain ⟨k, w, e1, e2, e3, e4⟩ := ih _ _ _ _ _ h
      have hpos : 0 < 128 ^ (k + 1) := Nat.pow_pos (by omega)
      refine ⟨k + 1, (b.toNat % 128) * 128 ^ (k + 1) + w, by omega, ?_, ?_, ?_⟩
      · rw [Nat.pow_succ 128 (k + 1)]
        have : b.toNat % 128 < 128 := Nat.mod_lt _ (by omega)
        have : (b.toNat % 128) * 128 ^ (k + 1) ≤ 127 * 128 ^ (k + 1) := Nat.mul_le_mul_right _ (by omega)
        omega
      · rw [e3, Nat.pow_succ 128 k, Nat.add_mul]
        generalize b.toNat % 128 = d
        generalize 128 ^ k = p
        ring
      · rw [vlqDigits]
        simp only [List.cons_append]
        congr 1
        · rw [Nat.add_comm (b.toNat % 128 * 128 ^ (k + 1)) w, Nat.add_mul_div_right _ _ hpos,
            Nat.div_eq_of_lt e2]
          have hlt := b.toNat_lt
          have : (0 + b.toNat % 128) % 128 + 128 = b.toNat := by omega
          rw [this, ofNat_toNat_u8]
        · rw [vlqDigits_add_mul]; exact e4

/-- C07 for the VLQ, the other direction: every accepted encoding is the encoder's. -/
theorem encodeVlq_of_decodeVlq (bs : Bytes) (v : Nat) (r : Bytes)
    (h : decodeVlq bs = some (v, r)) : bs = encodeVlq v ++ r := by
  unfold decodeVlq at h
  split at h
  · simp at h
  · rename_i v' n' r' heq
    split at h
    · rename_i hn
      simp only [Option.some.injEq, Prod.mk.injEq] at h
      obtain ⟨hv, hr⟩ := h
      subst hv; subst hr
      obtain ⟨k, w, e1, _, e3, e4⟩ := decodeAux_inv _ _ _ _ _ _ heq
      have : v' = w := by omega
      subst this
      unfold encodeVlq
      rw [← hn, e1]; simpa using e4
    · simp at h

/-- the defect of the pinned tree, as a statement about the lenient decoder -/
theorem lenient_not_canonical :
    decodeVlqLenient [0x40] = some (64, []) ∧ decodeVlqLenient [0x80, 0x80, 0x40] = some (64, [])
      ∧ encodeVlq 64 = [0x80, 0x40] := by
  refine ⟨by decide, by decide, ?_⟩
  simp [encodeVlq, vlqLen, bitLen_pos, bitLen_zero, vlqDigits]

end Model

import Model.PeerBook
import Proofs.Map

/-! Lemmas about the peer book model (`Model.PeerBook`): the connected / disconnected maps stay
disjoint, the attempt log respects the back-off, own addresses are never retried, the peers file. -/

namespace Model

namespace Map
variable {κ ν : Type} [DecidableEq κ]

theorem contains_of_get? (m : Map κ ν) (k : κ) (v : ν) (h : m.get? k = some v) :
    m.contains k = true := by
  simp [contains, h]

theorem contains_eq_false_iff (m : Map κ ν) (k : κ) : m.contains k = false ↔ m.get? k = none := by
  simp [contains]

theorem contains_of_mem_keys (m : Map κ ν) (k : κ) (h : k ∈ m.keys) : m.contains k = true := by
  induction m with
  | nil => simp [keys] at h
  | cons p rest ih =>
    obtain ⟨k1, v⟩ := p
    simp only [keys, List.map_cons, List.mem_cons] at h
    simp only [contains, get?_cons]
    by_cases h1 : k1 = k
    · simp [h1]
    · simp only [h1, ↓reduceIte]
      rcases h with h | h
      · exact absurd h.symm h1
      · exact ih h

end Map

namespace Book

/-! ### what each primitive does to each field -/

theorem connected_peerDisconnected (b : Book) (k : PeerKey) (p : ConnPeer) :
    (b.peerDisconnected k p).connected = b.connected.erase k := by
  simp only [peerDisconnected]; split <;> rfl

theorem disconnected_peerDisconnected (b : Book) (k : PeerKey) (p : ConnPeer) :
    (b.peerDisconnected k p).disconnected =
      if k.outgoing then
        b.disconnected.set k ⟨p.lastAttempt, if p.helloReceived then p.banScore else p.banScore + 1⟩
      else b.disconnected := by
  simp only [peerDisconnected]; split <;> rfl

theorem attempts_peerDisconnected (b : Book) (k : PeerKey) (p : ConnPeer) :
    (b.peerDisconnected k p).attempts = b.attempts := by
  simp only [peerDisconnected]; split <;> rfl

theorem myAddresses_peerDisconnected (b : Book) (k : PeerKey) (p : ConnPeer) :
    (b.peerDisconnected k p).myAddresses = b.myAddresses := by
  simp only [peerDisconnected]; split <;> rfl

theorem attempts_disconnect (b : Book) (k : PeerKey) (s : Nat) :
    (b.disconnect k s).attempts = b.attempts := by
  simp only [disconnect]
  split
  · split
    · exact attempts_peerDisconnected _ _ _
    · rfl
  · rfl

theorem myAddresses_disconnect (b : Book) (k : PeerKey) (s : Nat) :
    (b.disconnect k s).myAddresses = b.myAddresses := by
  simp only [disconnect]
  split
  · split
    · exact myAddresses_peerDisconnected _ _ _
    · rfl
  · rfl

/-- the first half of `handle_peer_connected`: an existing connection under the key is dropped -/
def dropDup (b : Book) (k : PeerKey) : Book :=
  match b.connected.get? k with
  | some old => b.disconnect k old.serial
  | none => b

theorem peerConnected_eq (b : Book) (k : PeerKey) (p : ConnPeer) :
    b.peerConnected k p =
      { b.dropDup k with connected := (b.dropDup k).connected.set k p,
                         disconnected := (b.dropDup k).disconnected.erase k } := rfl

theorem attempts_dropDup (b : Book) (k : PeerKey) : (b.dropDup k).attempts = b.attempts := by
  simp only [dropDup]; split
  · exact attempts_disconnect _ _ _
  · rfl

theorem myAddresses_dropDup (b : Book) (k : PeerKey) : (b.dropDup k).myAddresses = b.myAddresses := by
  simp only [dropDup]; split
  · exact myAddresses_disconnect _ _ _
  · rfl

theorem attempts_peerConnected (b : Book) (k : PeerKey) (p : ConnPeer) :
    (b.peerConnected k p).attempts = b.attempts := by
  rw [peerConnected_eq]; exact attempts_dropDup b k

theorem myAddresses_peerConnected (b : Book) (k : PeerKey) (p : ConnPeer) :
    (b.peerConnected k p).myAddresses = b.myAddresses := by
  rw [peerConnected_eq]; exact myAddresses_dropDup b k

theorem attempts_startOutgoing (b : Book) (k : PeerKey) (d : DiscPeer) :
    (b.startOutgoing k d).attempts = b.attempts := by
  simp only [startOutgoing]; exact attempts_peerConnected _ _ _

theorem myAddresses_startOutgoing (b : Book) (k : PeerKey) (d : DiscPeer) :
    (b.startOutgoing k d).myAddresses = b.myAddresses := by
  simp only [startOutgoing]; exact myAddresses_peerConnected _ _ _

theorem attempts_announce (b : Book) (h : String) (p : Nat) : (b.announce h p).attempts = b.attempts := by
  simp only [announce]; split
  · rfl
  · split <;> rfl

theorem myAddresses_announce (b : Book) (h : String) (p : Nat) :
    (b.announce h p).myAddresses = b.myAddresses := by
  simp only [announce]; split
  · rfl
  · split <;> rfl

theorem connected_announce (b : Book) (h : String) (p : Nat) : (b.announce h p).connected = b.connected := by
  simp only [announce]; split
  · rfl
  · split <;> rfl

theorem attempts_foldl_announce (l : List (String × Nat)) (b : Book) :
    (l.foldl (fun b (x : String × Nat) => b.announce x.1 x.2) b).attempts = b.attempts := by
  induction l generalizing b with
  | nil => rfl
  | cons x rest ih => rw [List.foldl_cons, ih, attempts_announce]

theorem myAddresses_foldl_announce (l : List (String × Nat)) (b : Book) :
    (l.foldl (fun b (x : String × Nat) => b.announce x.1 x.2) b).myAddresses = b.myAddresses := by
  induction l generalizing b with
  | nil => rfl
  | cons x rest ih => rw [List.foldl_cons, ih, myAddresses_announce]

/-! ### disjointness of the two maps -/

/-- no key is both connected and disconnected -/
def Disj (b : Book) : Prop := ∀ k, b.connected.contains k = true → b.disconnected.contains k = false

theorem Disj.congr {b b' : Book} (h : Disj b) (hc : b'.connected = b.connected)
    (hd : b'.disconnected = b.disconnected) : Disj b' := by
  intro k hk
  rw [hd]; rw [hc] at hk; exact h k hk

theorem Disj.peerDisconnected {b : Book} (h : Disj b) (k : PeerKey) (p : ConnPeer) :
    Disj (b.peerDisconnected k p) := by
  intro k' hk'
  rw [connected_peerDisconnected, Map.contains_erase] at hk'
  simp only [ne_eq, Bool.and_eq_true, decide_eq_true_eq] at hk'
  rw [disconnected_peerDisconnected]
  split
  · rw [Map.contains_set, h k' hk'.2]
    have : ¬ k = k' := fun e => hk'.1 e.symm
    simp [this]
  · exact h k' hk'.2

theorem Disj.disconnect {b : Book} (h : Disj b) (k : PeerKey) (s : Nat) : Disj (b.disconnect k s) := by
  simp only [Book.disconnect]
  split
  · split
    · exact h.peerDisconnected _ _
    · exact h
  · exact h

theorem Disj.dropDup {b : Book} (h : Disj b) (k : PeerKey) : Disj (b.dropDup k) := by
  simp only [Book.dropDup]
  split
  · exact h.disconnect _ _
  · exact h

theorem Disj.peerConnected {b : Book} (h : Disj b) (k : PeerKey) (p : ConnPeer) :
    Disj (b.peerConnected k p) := by
  rw [peerConnected_eq]
  have h1 := h.dropDup k
  intro k' hk'
  show ((b.dropDup k).disconnected.erase k).contains k' = false
  have hk'' : ((b.dropDup k).connected.set k p).contains k' = true := hk'
  rw [Map.contains_erase]
  rw [Map.contains_set] at hk''
  by_cases e : k' = k
  · simp [e]
  · have e' : ¬ k = k' := fun x => e x.symm
    simp only [e', decide_false, Bool.false_or] at hk''
    simp [h1 k' hk'']

theorem Disj.startOutgoing {b : Book} (h : Disj b) (k : PeerKey) (d : DiscPeer) :
    Disj (b.startOutgoing k d) := by
  simp only [Book.startOutgoing]
  refine Disj.peerConnected ?_ _ _
  exact h.congr rfl rfl

theorem Disj.announce {b : Book} (h : Disj b) (host : String) (port : Nat) :
    Disj (b.announce host port) := by
  simp only [Book.announce]
  split
  · exact h
  · split
    · exact h
    · next h1 h2 =>
      intro k' hk'
      show (b.disconnected.set _ _).contains k' = false
      have hk'' : b.connected.contains k' = true := hk'
      rw [Map.contains_set, h k' hk'']
      by_cases e : (⟨host, port, true⟩ : PeerKey) = k'
      · rw [e] at h2; exact absurd hk'' h2
      · simp [e]

/-- overwriting the entry of a key that is already disconnected -/
theorem Disj.setDisc {b b' : Book} (h : Disj b) (k : PeerKey) (d d' : DiscPeer)
    (hd : b.disconnected.get? k = some d) (hc : b'.connected = b.connected)
    (hd' : b'.disconnected = b.disconnected.set k d') : Disj b' := by
  intro k' hk'
  rw [hc] at hk'
  rw [hd', Map.contains_set, h k' hk']
  by_cases e : k = k'
  · subst e
    have := Map.contains_of_get? _ _ _ hd
    rw [h k hk'] at this; exact absurd this (by simp)
  · simp [e]

/-- overwriting the entry of a key that is already connected -/
theorem Disj.setConn {b b' : Book} (h : Disj b) (k : PeerKey) (p p' : ConnPeer)
    (hg : b.connected.get? k = some p) (hc : b'.connected = b.connected.set k p')
    (hd : b'.disconnected = b.disconnected) : Disj b' := by
  intro k' hk'
  rw [hc, Map.contains_set] at hk'
  rw [hd]
  by_cases e : k = k'
  · subst e; exact h k (Map.contains_of_get? _ _ _ hg)
  · simp only [e, decide_false, Bool.false_or] at hk'
    exact h k' hk'

theorem Disj.stepPeers (P : Params) (now : Int) (l : List (PeerKey × DiscPeer)) {b : Book} (h : Disj b) :
    Disj (Book.stepPeers P now b l) := by
  induction l generalizing b with
  | nil => exact h
  | cons x rest ih =>
    obtain ⟨k, d0⟩ := x
    simp only [Book.stepPeers]
    split
    · exact ih h
    · next d hd =>
      split
      · apply ih
        apply Disj.startOutgoing
        exact h.setDisc k d _ hd rfl rfl
      · exact ih h

theorem Disj.foldl_announce (l : List (String × Nat)) {b : Book} (h : Disj b) :
    Disj (l.foldl (fun b (x : String × Nat) => b.announce x.1 x.2) b) := by
  induction l generalizing b with
  | nil => exact h
  | cons x rest ih => rw [List.foldl_cons]; exact ih (h.announce _ _)

theorem apply_peers_eq (P : Params) (b : Book) (l : List (String × Nat)) :
    Book.apply P b (.peers l) = l.foldl (fun b (x : String × Nat) => b.announce x.1 x.2) b := rfl

theorem Disj.apply (P : Params) {b : Book} (h : Disj b) (ev : BookEvent) : Disj (Book.apply P b ev) := by
  cases ev with
  | step now => exact h.stepPeers P now _
  | incoming host port =>
    simp only [Book.apply]
    refine Disj.peerConnected ?_ _ _
    exact h.congr rfl rfl
  | hello k mine myPort =>
    simp only [Book.apply]
    split
    · exact h
    · next p hp =>
      have h1 : Disj { b with connected := b.connected.set k { p with helloReceived := true, banScore := 0 } } :=
        h.setConn k p _ hp rfl rfl
      split
      · exact h1.announce _ _
      · split
        · apply Disj.disconnect
          exact h1.congr rfl rfl
        · exact h1
  | peers l => rw [apply_peers_eq]; exact h.foldl_announce l
  | close k =>
    simp only [Book.apply]
    split
    · exact h
    · exact h.disconnect _ _

theorem Disj.run (P : Params) (evs : List BookEvent) {b : Book} (h : Disj b) : Disj (Book.run P b evs) := by
  induction evs generalizing b with
  | nil => exact h
  | cons ev rest ih =>
    simp only [Book.run, List.foldl_cons]
    exact ih (h.apply P ev)

theorem Disj.of_connected_nil {b : Book} (h : b.connected = []) : Disj b := by
  intro k hk
  rw [h] at hk
  exact absurd hk (by simp [Map.contains_nil])

theorem Disj.not_insane {b : Book} (h : Disj b) : b.insane = false := by
  simp only [Book.insane, List.any_eq_false]
  intro k hk
  rw [h k (Map.contains_of_mem_keys _ _ hk)]
  simp

/-! ### the attempt log -/

/-- the time of the most recent logged attempt to `k`, if any -/
def lastAtt (log : List (PeerKey × Int × Nat)) (k : PeerKey) : Option Int :=
  (log.find? (·.1 = k)).map (·.2.1)

@[simp] theorem lastAtt_nil (k : PeerKey) : lastAtt [] k = none := rfl

theorem lastAtt_cons (k' : PeerKey) (t : Int) (ban : Nat) (l : List (PeerKey × Int × Nat)) (k : PeerKey) :
    lastAtt ((k', t, ban) :: l) k = if k' = k then some t else lastAtt l k := by
  unfold lastAtt
  by_cases h : k' = k <;> simp [h]

/-- every logged attempt is to an outgoing key, within the failure limit, and far enough after
the previous attempt to the same key -/
def Spaced (P : Params) : List (PeerKey × Int × Nat) → Prop
  | [] => True
  | (k, t₂, ban) :: older =>
    (ban ≤ P.maxConnectionAttempts ∧ k.outgoing = true ∧
      ∀ t₁, lastAtt older k = some t₁ →
        t₂ - t₁ ≥ (min (P.timeToSecondAttempt * 2 ^ ban) P.maxTimeBetweenAttempts : Nat)) ∧
    Spaced P older

theorem Spaced.split {P : Params} {l : List (PeerKey × Int × Nat)} (h : Spaced P l)
    (newer older : List (PeerKey × Int × Nat)) (k : PeerKey) (t₂ : Int) (ban : Nat)
    (hl : l = newer ++ (k, t₂, ban) :: older) :
    ban ≤ P.maxConnectionAttempts ∧ k.outgoing = true ∧
      ∀ t₁, lastAtt older k = some t₁ →
        t₂ - t₁ ≥ (min (P.timeToSecondAttempt * 2 ^ ban) P.maxTimeBetweenAttempts : Nat) := by
  induction newer generalizing l with
  | nil =>
    subst hl
    exact h.1
  | cons e rest ih =>
    subst hl
    obtain ⟨k', t', ban'⟩ := e
    exact ih h.2 rfl

theorem Spaced.lastAtt_incoming {P : Params} {l : List (PeerKey × Int × Nat)} (h : Spaced P l)
    (k : PeerKey) (hk : k.outgoing = false) : lastAtt l k = none := by
  induction l with
  | nil => rfl
  | cons e rest ih =>
    obtain ⟨k', t', ban'⟩ := e
    rw [lastAtt_cons]
    have : ¬ k' = k := by
      intro e; have := h.1.2.1; rw [e, hk] at this; exact absurd this (by simp)
    rw [if_neg this]
    exact ih h.2

theorem isTimeToConnect_true {P : Params} {ban : Nat} {la : Option Int} {now : Int}
    (h : isTimeToConnect P ban la now = true) :
    ban ≤ P.maxConnectionAttempts ∧
      ∀ t, la = some t → now - t ≥ (min (P.timeToSecondAttempt * 2 ^ ban) P.maxTimeBetweenAttempts : Nat) := by
  unfold isTimeToConnect at h
  split at h
  · exact absurd h (by simp)
  · next hb =>
    refine ⟨by omega, ?_⟩
    intro t ht
    subst ht
    simpa using h

/-- the per-peer `lastAttempt` fields agree with the log, the log is spaced, and every logged
key is still known -/
structure LastInv (P : Params) (b : Book) : Prop where
  disj : Disj b
  spaced : Spaced P b.attempts
  conn : ∀ k p, b.connected.get? k = some p → p.lastAttempt = lastAtt b.attempts k
  disc : ∀ k d, b.disconnected.get? k = some d → d.lastAttempt = lastAtt b.attempts k
  known : ∀ k, b.connected.get? k = none → b.disconnected.get? k = none → lastAtt b.attempts k = none

theorem LastInv.congr {P : Params} {b b' : Book} (h : LastInv P b) (hc : b'.connected = b.connected)
    (hd : b'.disconnected = b.disconnected) (ha : b'.attempts = b.attempts) : LastInv P b' := by
  refine ⟨h.disj.congr hc hd, ?_, ?_, ?_, ?_⟩
  · rw [ha]; exact h.spaced
  · rw [ha, hc]; exact h.conn
  · rw [ha, hd]; exact h.disc
  · rw [ha, hc, hd]; exact h.known

theorem LastInv.peerDisconnected {P : Params} {b : Book} (h : LastInv P b) (k : PeerKey) (p : ConnPeer)
    (hg : b.connected.get? k = some p) : LastInv P (b.peerDisconnected k p) := by
  refine ⟨h.disj.peerDisconnected k p, ?_, ?_, ?_, ?_⟩
  · rw [attempts_peerDisconnected]; exact h.spaced
  · intro k' p' hp'
    rw [attempts_peerDisconnected]
    rw [connected_peerDisconnected, Map.get?_erase] at hp'
    split at hp'
    · exact absurd hp' (by simp)
    · exact h.conn k' p' hp'
  · intro k' d' hd'
    rw [attempts_peerDisconnected]
    rw [disconnected_peerDisconnected] at hd'
    split at hd'
    · rw [Map.get?_set] at hd'
      split at hd'
      · next e =>
        subst e
        simp only [Option.some.injEq] at hd'
        subst hd'
        exact h.conn k p hg
      · exact h.disc k' d' hd'
    · exact h.disc k' d' hd'
  · intro k' hc' hd'
    rw [attempts_peerDisconnected]
    rw [connected_peerDisconnected, Map.get?_erase] at hc'
    rw [disconnected_peerDisconnected] at hd'
    by_cases e : k' = k
    · subst e
      by_cases ho : k'.outgoing = true
      · rw [if_pos ho, Map.get?_set_self] at hd'
        exact absurd hd' (by simp)
      · exact h.spaced.lastAtt_incoming k' (by simpa using ho)
    · rw [if_neg e] at hc'
      split at hd'
      · rw [Map.get?_set_other _ _ _ _ (fun x => e x.symm)] at hd'
        exact h.known k' hc' hd'
      · exact h.known k' hc' hd'

theorem LastInv.disconnect {P : Params} {b : Book} (h : LastInv P b) (k : PeerKey) (s : Nat) :
    LastInv P (b.disconnect k s) := by
  simp only [Book.disconnect]
  split
  · next p hp =>
    split
    · exact h.peerDisconnected k p hp
    · exact h
  · exact h

theorem LastInv.dropDup {P : Params} {b : Book} (h : LastInv P b) (k : PeerKey) :
    LastInv P (b.dropDup k) := by
  simp only [Book.dropDup]
  split
  · exact h.disconnect _ _
  · exact h

theorem LastInv.peerConnected {P : Params} {b : Book} (h : LastInv P b) (k : PeerKey) (p : ConnPeer)
    (hp : p.lastAttempt = lastAtt b.attempts k) : LastInv P (b.peerConnected k p) := by
  have h1 := h.dropDup k
  have ha : (b.dropDup k).attempts = b.attempts := attempts_dropDup b k
  refine ⟨h.disj.peerConnected k p, ?_, ?_, ?_, ?_⟩
  · rw [attempts_peerConnected]; exact h.spaced
  · intro k' p' hp'
    rw [attempts_peerConnected]
    rw [peerConnected_eq] at hp'
    have hp'' : ((b.dropDup k).connected.set k p).get? k' = some p' := hp'
    rw [Map.get?_set] at hp''
    split at hp''
    · next e =>
      subst e
      simp only [Option.some.injEq] at hp''
      subst hp''
      exact hp
    · rw [← ha]; exact h1.conn k' p' hp''
  · intro k' d' hd'
    rw [attempts_peerConnected]
    rw [peerConnected_eq] at hd'
    have hd'' : ((b.dropDup k).disconnected.erase k).get? k' = some d' := hd'
    rw [Map.get?_erase] at hd''
    split at hd''
    · exact absurd hd'' (by simp)
    · rw [← ha]; exact h1.disc k' d' hd''
  · intro k' hc' hd'
    rw [attempts_peerConnected]
    rw [peerConnected_eq] at hc' hd'
    have hc'' : ((b.dropDup k).connected.set k p).get? k' = none := hc'
    have hd'' : ((b.dropDup k).disconnected.erase k).get? k' = none := hd'
    rw [Map.get?_set] at hc''
    rw [Map.get?_erase] at hd''
    split at hc''
    · exact absurd hc'' (by simp)
    · next e =>
      have e' : ¬ k' = k := fun x => e x.symm
      rw [if_neg e'] at hd''
      rw [← ha]; exact h1.known k' hc'' hd''

/-- overwriting a connected entry without touching its `lastAttempt` -/
theorem LastInv.setConn {P : Params} {b b' : Book} (h : LastInv P b) (k : PeerKey) (p p' : ConnPeer)
    (hg : b.connected.get? k = some p) (hl : p'.lastAttempt = p.lastAttempt)
    (hc : b'.connected = b.connected.set k p') (hd : b'.disconnected = b.disconnected)
    (ha : b'.attempts = b.attempts) : LastInv P b' := by
  refine ⟨h.disj.setConn k p p' hg hc hd, ?_, ?_, ?_, ?_⟩
  · rw [ha]; exact h.spaced
  · intro k' q hq
    rw [ha]
    rw [hc, Map.get?_set] at hq
    split at hq
    · next e =>
      subst e
      simp only [Option.some.injEq] at hq
      subst hq
      rw [hl]; exact h.conn k p hg
    · exact h.conn k' q hq
  · rw [ha, hd]; exact h.disc
  · intro k' hc' hd'
    rw [ha]
    rw [hc, Map.get?_set] at hc'
    rw [hd] at hd'
    split at hc'
    · exact absurd hc' (by simp)
    · exact h.known k' hc' hd'

theorem LastInv.announce {P : Params} {b : Book} (h : LastInv P b) (host : String) (port : Nat) :
    LastInv P (b.announce host port) := by
  refine ⟨h.disj.announce host port, ?_, ?_, ?_, ?_⟩
  · rw [attempts_announce]; exact h.spaced
  · rw [attempts_announce, connected_announce]; exact h.conn
  · rw [attempts_announce]
    simp only [Book.announce]
    split
    · exact h.disc
    · split
      · exact h.disc
      · next h1 h2 =>
        intro k' d' hd'
        have hd'' : (b.disconnected.set ⟨host, port, true⟩ ⟨none, 0⟩).get? k' = some d' := hd'
        rw [Map.get?_set] at hd''
        split at hd''
        · next e =>
          subst e
          simp only [Option.some.injEq] at hd''
          subst hd''
          have h1' := (Map.contains_eq_false_iff _ _).1 (by simpa using h1)
          have h2' := (Map.contains_eq_false_iff _ _).1 (by simpa using h2)
          exact (h.known _ h2' h1').symm
        · exact h.disc k' d' hd''
  · rw [attempts_announce, connected_announce]
    simp only [Book.announce]
    split
    · exact h.known
    · split
      · exact h.known
      · intro k' hc' hd'
        have hd'' : (b.disconnected.set ⟨host, port, true⟩ ⟨none, 0⟩).get? k' = none := hd'
        rw [Map.get?_set] at hd''
        split at hd''
        · exact absurd hd'' (by simp)
        · exact h.known k' hc' hd''

theorem LastInv.foldl_announce {P : Params} (l : List (String × Nat)) {b : Book} (h : LastInv P b) :
    LastInv P (l.foldl (fun b (x : String × Nat) => b.announce x.1 x.2) b) := by
  induction l generalizing b with
  | nil => exact h
  | cons x rest ih => rw [List.foldl_cons]; exact ih (h.announce _ _)

/-- one connection attempt of `NetworkManager.step` -/
theorem LastInv.attempt {P : Params} {b : Book} (h : LastInv P b) (k : PeerKey) (d : DiscPeer) (now : Int)
    (hd : b.disconnected.get? k = some d) (hout : k.outgoing = true)
    (htime : isTimeToConnect P d.banScore d.lastAttempt now = true) :
    LastInv P (Book.startOutgoing
      { b with disconnected := b.disconnected.set k { d with lastAttempt := some now },
               attempts := (k, now, d.banScore) :: b.attempts } k { d with lastAttempt := some now }) := by
  have hdc : b.disconnected.contains k = true := Map.contains_of_get? _ _ _ hd
  have hnc : b.connected.get? k = none := by
    cases hc : b.connected.get? k with
    | none => rfl
    | some p =>
      have := h.disj k (Map.contains_of_get? _ _ _ hc)
      rw [hdc] at this; exact absurd this (by simp)
  obtain ⟨hban, htm⟩ := isTimeToConnect_true htime
  have h1 : LastInv P { b with disconnected := b.disconnected.set k { d with lastAttempt := some now },
                               attempts := (k, now, d.banScore) :: b.attempts } := by
    refine ⟨h.disj.setDisc k d _ hd rfl rfl, ?_, ?_, ?_, ?_⟩
    · refine ⟨⟨hban, hout, ?_⟩, h.spaced⟩
      intro t₁ ht₁
      have := h.disc k d hd
      rw [ht₁] at this
      exact htm t₁ this
    · intro k' p' hp'
      show p'.lastAttempt = lastAtt ((k, now, d.banScore) :: b.attempts) k'
      have hp'' : b.connected.get? k' = some p' := hp'
      rw [lastAtt_cons]
      split
      · next e => subst e; rw [hnc] at hp''; exact absurd hp'' (by simp)
      · exact h.conn k' p' hp''
    · intro k' d' hd'
      show d'.lastAttempt = lastAtt ((k, now, d.banScore) :: b.attempts) k'
      have hd'' : (b.disconnected.set k { d with lastAttempt := some now }).get? k' = some d' := hd'
      rw [lastAtt_cons]
      rw [Map.get?_set] at hd''
      split at hd''
      · next e =>
        simp only [Option.some.injEq] at hd''
        subst hd''
        rw [if_pos e]
      · next e => rw [if_neg e]; exact h.disc k' d' hd''
    · intro k' hc' hd'
      show lastAtt ((k, now, d.banScore) :: b.attempts) k' = none
      have hc'' : b.connected.get? k' = none := hc'
      have hd'' : (b.disconnected.set k { d with lastAttempt := some now }).get? k' = none := hd'
      rw [lastAtt_cons]
      rw [Map.get?_set] at hd''
      split at hd''
      · exact absurd hd'' (by simp)
      · next e => rw [if_neg e]; exact h.known k' hc'' hd''
  simp only [Book.startOutgoing]
  refine LastInv.peerConnected (b := { b with
      disconnected := b.disconnected.set k { d with lastAttempt := some now },
      attempts := (k, now, d.banScore) :: b.attempts, nextSerial := b.nextSerial + 1 })
    (h1.congr rfl rfl rfl) _ _ ?_
  show some now = lastAtt ((k, now, d.banScore) :: b.attempts) k
  rw [lastAtt_cons, if_pos rfl]

theorem LastInv.stepPeers {P : Params} (now : Int) (l : List (PeerKey × DiscPeer)) {b : Book}
    (h : LastInv P b) : LastInv P (Book.stepPeers P now b l) := by
  induction l generalizing b with
  | nil => exact h
  | cons x rest ih =>
    obtain ⟨k, d0⟩ := x
    simp only [Book.stepPeers]
    split
    · exact ih h
    · next d hd =>
      split
      · next hguard =>
        simp only [Bool.and_eq_true] at hguard
        apply ih
        exact h.attempt k d now hd hguard.1.1 hguard.2
      · exact ih h

theorem LastInv.apply {P : Params} {b : Book} (h : LastInv P b) (ev : BookEvent) :
    LastInv P (Book.apply P b ev) := by
  cases ev with
  | step now => exact h.stepPeers now _
  | incoming host port =>
    simp only [Book.apply]
    refine LastInv.peerConnected (b := { b with nextSerial := b.nextSerial + 1 })
      (h.congr rfl rfl rfl) _ _ ?_
    exact (h.spaced.lastAtt_incoming _ rfl).symm
  | hello k mine myPort =>
    simp only [Book.apply]
    split
    · exact h
    · next p hp =>
      have h1 : LastInv P
          { b with connected := b.connected.set k { p with helloReceived := true, banScore := 0 } } :=
        h.setConn k p { p with helloReceived := true, banScore := 0 } hp rfl rfl rfl rfl
      split
      · exact h1.announce _ _
      · split
        · apply LastInv.disconnect
          exact h1.congr rfl rfl rfl
        · exact h1
  | peers l => rw [apply_peers_eq]; exact h.foldl_announce l
  | close k =>
    simp only [Book.apply]
    split
    · exact h
    · exact h.disconnect _ _

theorem LastInv.run {P : Params} (evs : List BookEvent) {b : Book} (h : LastInv P b) :
    LastInv P (Book.run P b evs) := by
  induction evs generalizing b with
  | nil => exact h
  | cons ev rest ih =>
    simp only [Book.run, List.foldl_cons]
    exact ih (h.apply ev)

theorem LastInv.of_fresh {P : Params} {b : Book} (hc : b.connected = []) (ha : b.attempts = [])
    (hd : ∀ k d, b.disconnected.get? k = some d → d.lastAttempt = none) : LastInv P b := by
  refine ⟨Disj.of_connected_nil hc, ?_, ?_, ?_, ?_⟩
  · rw [ha]; trivial
  · intro k p hp; rw [hc] at hp; exact absurd hp (by simp)
  · intro k d hk; rw [ha]; exact hd k d hk
  · intro k _ _; rw [ha]; rfl

/-! ### own addresses are not retried -/

/-- `(host, port)` of `k` is a recorded own address and the log has no attempt to `k` -/
def SelfInv (k : PeerKey) (b : Book) : Prop :=
  (k.host, k.port) ∈ b.myAddresses ∧ ∀ e ∈ b.attempts, e.1 ≠ k

theorem SelfInv.congr {k : PeerKey} {b b' : Book} (h : SelfInv k b) (hm : b'.myAddresses = b.myAddresses)
    (ha : b'.attempts = b.attempts) : SelfInv k b' := by
  unfold SelfInv; rw [hm, ha]; exact h

theorem SelfInv.stepPeers {k : PeerKey} (P : Params) (now : Int) (l : List (PeerKey × DiscPeer)) {b : Book}
    (h : SelfInv k b) : SelfInv k (Book.stepPeers P now b l) := by
  induction l generalizing b with
  | nil => exact h
  | cons x rest ih =>
    obtain ⟨k', d0⟩ := x
    simp only [Book.stepPeers]
    split
    · exact ih h
    · next d hd =>
      split
      · next hguard =>
        simp only [Bool.and_eq_true, Bool.not_eq_true', List.contains_eq_mem, decide_eq_false_iff_not] at hguard
        apply ih
        refine ⟨?_, ?_⟩
        · rw [myAddresses_startOutgoing]; exact h.1
        · rw [attempts_startOutgoing]
          intro e he
          have he : e ∈ (k', now, d.banScore) :: b.attempts := he
          rw [List.mem_cons] at he
          rcases he with he | he
          · subst he
            intro e'
            apply hguard.1.2
            have e'' : k' = k := e'
            rw [e'']; exact h.1
          · exact h.2 e he
      · exact ih h

theorem SelfInv.apply {k : PeerKey} (P : Params) {b : Book} (h : SelfInv k b) (ev : BookEvent) :
    SelfInv k (Book.apply P b ev) := by
  cases ev with
  | step now => exact h.stepPeers P now _
  | incoming host port =>
    simp only [Book.apply]
    exact h.congr (myAddresses_peerConnected _ _ _) (attempts_peerConnected _ _ _)
  | hello k' mine myPort =>
    simp only [Book.apply]
    split
    · exact h
    · split
      · exact h.congr (myAddresses_announce _ _ _) (attempts_announce _ _ _)
      · split
        · refine ⟨?_, ?_⟩
          · rw [myAddresses_disconnect]
            exact List.mem_cons_of_mem _ h.1
          · rw [attempts_disconnect]; exact h.2
        · exact h
  | peers l =>
    rw [apply_peers_eq]
    exact h.congr (myAddresses_foldl_announce _ _) (attempts_foldl_announce _ _)
  | close k' =>
    simp only [Book.apply]
    split
    · exact h
    · exact h.congr (myAddresses_disconnect _ _ _) (attempts_disconnect _ _ _)

theorem SelfInv.run {k : PeerKey} (P : Params) (evs : List BookEvent) {b : Book} (h : SelfInv k b) :
    SelfInv k (Book.run P b evs) := by
  induction evs generalizing b with
  | nil => exact h
  | cons ev rest ih =>
    simp only [Book.run, List.foldl_cons]
    exact ih (h.apply P ev)

end Book

/-! ### the peers file -/

theorem writePeers_length (P : Params) (old : List (PeerKey × String)) (k : PeerKey) (stamp : String) :
    (writePeersContent P old k stamp).length ≤ P.peersFileMax := by
  unfold writePeersContent
  exact List.length_take_le _ _

theorem writePeers_nodup (P : Params) (old : List (PeerKey × String)) (k : PeerKey) (stamp : String)
    (hnd : (old.map (·.1)).Nodup) : ((writePeersContent P old k stamp).map (·.1)).Nodup := by
  unfold writePeersContent
  rw [List.map_take]
  apply List.Nodup.sublist (List.take_sublist _ _)
  rw [List.map_cons, List.nodup_cons]
  refine ⟨?_, ?_⟩
  · intro hmem
    rw [List.mem_map] at hmem
    obtain ⟨e, he, hek⟩ := hmem
    rw [List.mem_filter] at he
    simp at he
    exact he.2 hek
  · exact List.Nodup.sublist (List.Sublist.map _ List.filter_sublist) hnd

theorem writePeers_head (P : Params) (old : List (PeerKey × String)) (k : PeerKey) (stamp : String)
    (h : 0 < P.peersFileMax) : (writePeersContent P old k stamp).head? = some (k, stamp) := by
  unfold writePeersContent
  obtain ⟨m, hm⟩ : ∃ m, P.peersFileMax = m + 1 := ⟨P.peersFileMax - 1, by omega⟩
  rw [hm, List.take_succ_cons]
  rfl

end Model


import Model.Spec

/-!
Proofs.Merkle — helper lemmas about `Model.Merkle` used by `Props.C17`.

* `pairUp` / `pairUpNodes` halve the length, so fuel = length suffices;
* the node-level construction mirrors the hash-level one and keeps the leaves in order;
* one level is injective up to `Collision` on equal-length lists of 32-byte strings;
* trees built by `merkleTree` cover consecutive index intervals (`Span`), which is what
  `getProof` relies on to find the leaf.
-/

namespace Model
namespace Merkle

variable (h : Bytes → Bytes)

/-! ### lengths -/

theorem length_pairUp (l : List Bytes) : (pairUp h l).length = (l.length + 1) / 2 := by
  fun_induction pairUp h l <;> simp <;> omega

theorem length_pairUpNodes (l : List MNode) : (pairUpNodes l).length = (l.length + 1) / 2 := by
  fun_induction pairUpNodes l <;> simp <;> omega

/-! ### the tree construction mirrors the root construction -/

theorem map_hash_pairUpNodes (ns : List MNode) :
    (pairUpNodes ns).map (MNode.hash h) = pairUp h (ns.map (MNode.hash h)) := by
  fun_induction pairUpNodes ns <;> simp [pairUp, MNode.hash, *]

theorem flatMap_leaves_pairUpNodes (ns : List MNode) :
    (pairUpNodes ns).flatMap MNode.leaves = ns.flatMap MNode.leaves := by
  fun_induction pairUpNodes ns <;> simp [MNode.leaves, *]

theorem tree_root_fuel (f : Nat) (ns : List MNode) (hne : ns ≠ []) (hf : ns.length ≤ f) :
    ∃ t, merkleTreeFuel f ns = some t ∧
      merkleRootFuel h f (ns.map (MNode.hash h)) = some (t.hash h) ∧
      t.leaves = ns.flatMap MNode.leaves := by
  induction f generalizing ns with
  | zero => cases ns <;> simp_all
  | succ f ih =>
    match ns, hne, hf with
    | [x], _, _ => exact ⟨x, by simp [merkleTreeFuel, merkleRootFuel]⟩
    | a :: b :: rest, _, hf =>
      have hlen : (pairUpNodes (a :: b :: rest)).length ≤ f := by
        rw [length_pairUpNodes]; simp only [List.length_cons] at hf ⊢; omega
      obtain ⟨t, h1, h2, h3⟩ := ih (pairUpNodes (a :: b :: rest)) (by simp [pairUpNodes]) hlen
      refine ⟨t, ?_, ?_, ?_⟩
      · simpa [merkleTreeFuel] using h1
      · rw [map_hash_pairUpNodes] at h2; simpa [merkleRootFuel] using h2
      · rw [h3, flatMap_leaves_pairUpNodes]

theorem length_leavesFrom (i : Nat) (l : List Bytes) : (leavesFrom i l).length = l.length := by
  induction l generalizing i with
  | nil => rfl
  | cons v rest ih => simp [leavesFrom, ih]

theorem map_hash_leavesFrom (i : Nat) (l : List Bytes) :
    (leavesFrom i l).map (MNode.hash h) = l := by
  induction l generalizing i with
  | nil => rfl
  | cons v rest ih => simp [leavesFrom, MNode.hash, ih]

theorem flatMap_leaves_leavesFrom (i : Nat) (l : List Bytes) :
    (leavesFrom i l).flatMap MNode.leaves = (List.range' i l.length).zip l := by
  induction l generalizing i with
  | nil => rfl
  | cons v rest ih => simp [leavesFrom, MNode.leaves, ih, List.range'_succ]

theorem tree_hash_eq_root (l : List Bytes) (hl : l ≠ []) :
    ∃ t, merkleTree l = some t ∧ merkleRoot h l = some (t.hash h) ∧
      t.leaves = (List.range l.length).zip l := by
  have hne : leavesFrom 0 l ≠ [] := by
    cases l with
    | nil => exact absurd rfl hl
    | cons v rest => simp [leavesFrom]
  obtain ⟨t, h1, h2, h3⟩ :=
    tree_root_fuel h l.length (leavesFrom 0 l) hne (by rw [length_leavesFrom]; exact Nat.le_refl _)
  refine ⟨t, h1, ?_, ?_⟩
  · rw [map_hash_leavesFrom] at h2; exact h2
  · rw [h3, flatMap_leaves_leavesFrom, List.range_eq_range']

theorem map_snd_range_zip (l : List Bytes) : ((List.range l.length).zip l).map (·.2) = l := by
  apply List.map_snd_zip
  simp

/-! ### hash lengths -/

theorem length_hash (hh : ∀ x, (h x).length = 32) (t : MNode)
    (hl : ∀ v ∈ t.leaves.map (·.2), v.length = 32) : (t.hash h).length = 32 := by
  cases t with
  | leaf i v => exact hl v (by simp [MNode.leaves])
  | node i l r => exact hh _

theorem pairUp_len32 (hh : ∀ x, (h x).length = 32) (l : List Bytes)
    (h32 : ∀ v ∈ l, v.length = 32) : ∀ v ∈ pairUp h l, v.length = 32 := by
  fun_induction pairUp h l with
  | case1 a b rest ih =>
    intro v hv
    simp only [List.mem_cons] at hv
    rcases hv with rfl | hv
    · exact hh _
    · exact ih (fun w hw => h32 w (by simp [hw])) v hv
  | case2 a => exact h32
  | case3 => exact h32

/-! ### injectivity of one level and of the root, equal lengths -/

theorem append_collision (a b a' b' : Bytes) (ha : a.length = a'.length)
    (he : h (a ++ b) = h (a' ++ b')) : (a = a' ∧ b = b') ∨ Collision h := by
  by_cases hab : a ++ b = a' ++ b'
  · exact .inl (List.append_inj hab ha)
  · exact .inr ⟨_, _, hab, he⟩

theorem pairUp_inj (l l' : List Bytes) (hlen : l.length = l'.length)
    (h32 : ∀ v ∈ l, v.length = 32) (h32' : ∀ v ∈ l', v.length = 32)
    (he : pairUp h l = pairUp h l') : l = l' ∨ Collision h := by
  fun_induction pairUp h l generalizing l' with
  | case1 a b rest ih =>
    match l', hlen with
    | a' :: b' :: rest', hlen =>
      simp only [pairUp, List.cons.injEq] at he
      have ha : a.length = a'.length := by
        rw [h32 a (by simp), h32' a' (by simp)]
      rcases append_collision h a b a' b' ha he.1 with ⟨rfl, rfl⟩ | hc
      · rcases ih rest' (by simpa using hlen) (fun w hw => h32 w (by simp [hw]))
            (fun w hw => h32' w (by simp [hw])) he.2 with rfl | hc
        · exact .inl rfl
        · exact .inr hc
      · exact .inr hc
  | case2 a =>
    match l', hlen with
    | [a'], _ => exact .inl (by simpa [pairUp] using he)
  | case3 =>
    match l', hlen with
    | [], _ => exact .inl rfl

theorem root_fuel_inj (hh : ∀ x, (h x).length = 32) (f : Nat) (l l' : List Bytes) (hl : l ≠ [])
    (hlen : l.length = l'.length) (hf : l.length ≤ f)
    (h32 : ∀ v ∈ l, v.length = 32) (h32' : ∀ v ∈ l', v.length = 32)
    (he : merkleRootFuel h f l = merkleRootFuel h f l') : l = l' ∨ Collision h := by
  induction f generalizing l l' with
  | zero => cases l <;> simp_all
  | succ f ih =>
    match l, l', hl, hlen with
    | [x], [x'], _, _ => exact .inl (by simpa [merkleRootFuel] using he)
    | a :: b :: rest, a' :: b' :: rest', _, hlen =>
      have he' : merkleRootFuel h f (pairUp h (a :: b :: rest)) =
          merkleRootFuel h f (pairUp h (a' :: b' :: rest')) := by
        simpa [merkleRootFuel] using he
      have hlen' : (pairUp h (a :: b :: rest)).length = (pairUp h (a' :: b' :: rest')).length := by
        rw [length_pairUp, length_pairUp, hlen]
      have hf' : (pairUp h (a :: b :: rest)).length ≤ f := by
        rw [length_pairUp]; simp only [List.length_cons] at hf ⊢; omega
      rcases ih _ _ (by simp [pairUp]) hlen' hf' (pairUp_len32 h hh _ h32)
          (pairUp_len32 h hh _ h32') he' with hp | hc
      · exact pairUp_inj h _ _ hlen h32 h32' hp
      · exact .inr hc

/-! ### index intervals: what `getProof` relies on -/

/-- `t` covers exactly the leaf indices `lo, …, hi-1`, in order, and every node's `index` is
the index of its leftmost leaf -/
def Span : MNode → Nat → Nat → Prop
  | .leaf i _, lo, hi => i = lo ∧ hi = lo + 1
  | .node idx l r, lo, hi => idx = lo ∧ ∃ mid, Span l lo mid ∧ Span r mid hi

/-- consecutive `Span`s -/
def Chain : List MNode → Nat → Nat → Prop
  | [], lo, hi => lo = hi
  | n :: ns, lo, hi => ∃ mid, Span n lo mid ∧ Chain ns mid hi

theorem Span.index_eq {t : MNode} {lo hi : Nat} (hs : Span t lo hi) : t.index = lo := by
  cases t with
  | leaf i v => exact hs.1
  | node i l r => exact hs.1

theorem Span.lt {t : MNode} {lo hi : Nat} (hs : Span t lo hi) : lo < hi := by
  induction t generalizing lo hi with
  | leaf i v => have := hs.2; omega
  | node i l r ihl ihr =>
    obtain ⟨_, mid, h1, h2⟩ := hs
    have := ihl h1; have := ihr h2; omega

theorem Span.mem_leaves {t : MNode} {lo hi : Nat} (hs : Span t lo hi) {p : Nat × Bytes}
    (hp : p ∈ t.leaves) : lo ≤ p.1 ∧ p.1 < hi := by
  induction t generalizing lo hi with
  | leaf i v =>
    simp only [MNode.leaves, List.mem_singleton] at hp
    obtain ⟨h1, h2⟩ := hs
    subst hp; simp only; omega
  | node i l r ihl ihr =>
    obtain ⟨_, mid, h1, h2⟩ := hs
    simp only [MNode.leaves, List.mem_append] at hp
    have := h1.lt; have := h2.lt
    rcases hp with hp | hp
    · have := ihl h1 hp; omega
    · have := ihr h2 hp; omega

theorem Chain.pairUpNodes {ns : List MNode} {lo hi : Nat} (hc : Chain ns lo hi) :
    Chain (pairUpNodes ns) lo hi := by
  fun_induction Model.pairUpNodes ns generalizing lo hi with
  | case1 a b rest ih =>
    obtain ⟨m1, ha, m2, hb, hr⟩ := hc
    exact ⟨m2, ⟨ha.index_eq, m1, ha, hb⟩, ih hr⟩
  | case2 a => exact hc
  | case3 => exact hc

theorem chain_leavesFrom (i : Nat) (l : List Bytes) : Chain (leavesFrom i l) i (i + l.length) := by
  induction l generalizing i with
  | nil => exact rfl
  | cons v rest ih =>
    refine ⟨i + 1, ⟨rfl, rfl⟩, ?_⟩
    have := ih (i + 1)
    simp only [List.length_cons]
    rwa [show i + (rest.length + 1) = i + 1 + rest.length by omega]

theorem span_of_tree_fuel (f : Nat) (ns : List MNode) (t : MNode) (lo hi : Nat)
    (ht : merkleTreeFuel f ns = some t) (hc : Chain ns lo hi) : Span t lo hi := by
  induction f generalizing ns with
  | zero => simp [merkleTreeFuel] at ht
  | succ f ih =>
    match ns, hc with
    | [], hc =>
      have : merkleTreeFuel f [] = some t := by simpa [merkleTreeFuel, Model.pairUpNodes] using ht
      exact ih [] this hc
    | [x], hc =>
      simp only [merkleTreeFuel, Option.some.injEq] at ht
      subst ht
      obtain ⟨mid, hx, hnil⟩ := hc
      have : mid = hi := hnil
      subst this; exact hx
    | a :: b :: rest, hc =>
      have : merkleTreeFuel f (Model.pairUpNodes (a :: b :: rest)) = some t := by
        simpa [merkleTreeFuel] using ht
      exact ih _ this hc.pairUpNodes

theorem span_merkleTree (l : List Bytes) (t : MNode) (ht : merkleTree l = some t) :
    Span t 0 l.length := by
  have := span_of_tree_fuel l.length (leavesFrom 0 l) t 0 (0 + l.length) ht (chain_leavesFrom 0 l)
  simpa using this

theorem hash_getProof (t : MNode) (i : Nat) : (getProof h t i).hash h = t.hash h := by
  induction t with
  | leaf j v => rfl
  | node idx l r ihl ihr =>
    unfold getProof
    split <;> simp [MNode.hash, ihl, ihr]

theorem getProof_mem {t : MNode} {lo hi : Nat} (hs : Span t lo hi) (i : Nat) (v : Bytes)
    (hm : (i, v) ∈ t.leaves) : (i, v) ∈ (getProof h t i).leaves := by
  induction t generalizing lo hi with
  | leaf j w => exact hm
  | node idx l r ihl ihr =>
    obtain ⟨_, mid, h1, h2⟩ := hs
    have hr : r.index = mid := h2.index_eq
    simp only [MNode.leaves, List.mem_append] at hm
    unfold getProof
    split
    · rename_i hge
      simp only [MNode.leaves, List.mem_append]
      rcases hm with hm | hm
      · have := h1.mem_leaves hm
        simp only at this; omega
      · exact .inr (ihr h2 hm)
    · rename_i hlt
      simp only [MNode.leaves, List.mem_append]
      rcases hm with hm | hm
      · exact .inl (ihl h1 hm)
      · have := h2.mem_leaves hm
        simp only at this; omega

theorem mem_range_zip (l : List Bytes) (i : Nat) (hi : i < l.length) :
    (i, l[i]) ∈ (List.range l.length).zip l := by
  rw [List.mem_iff_getElem]
  refine ⟨i, by simpa using hi, ?_⟩
  simp

end Merkle
end Model

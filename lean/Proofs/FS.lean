import Model.Wallet

/-! Lemmas about the small file-system model (`FS`, `FsOp`, `saveOps`) of `Model.Wallet`. -/

namespace Model

namespace FS

theorem read_cons (e : String × Bytes) (fs : FS) (m : String) :
    FS.read (e :: fs) m = if e.1 = m then some e.2 else FS.read fs m := by
  unfold FS.read
  by_cases h : e.1 = m <;> simp [h]

@[simp] theorem read_nil (m : String) : FS.read ([] : FS) m = none := rfl

theorem read_filter_ne (fs : FS) (s m : String) (h : m ≠ s) :
    FS.read (fs.filter (·.1 ≠ s)) m = FS.read fs m := by
  induction fs with
  | nil => rfl
  | cons e rest ih =>
    obtain ⟨a, c⟩ := e
    by_cases h1 : a = s
    · have h2 : ¬ a = m := fun h' => h (h'.symm.trans h1)
      simp only [List.filter_cons, ne_eq, h1, not_true_eq_false, decide_false, Bool.false_eq_true,
        ↓reduceIte, read_cons]
      rw [if_neg (h1 ▸ h2)]
      exact ih
    · simp only [List.filter_cons, ne_eq, h1, not_false_eq_true, decide_true, ↓reduceIte, read_cons]
      rw [show FS.read (List.filter (fun x => decide (x.1 ≠ s)) rest) m = FS.read rest m from ih]

theorem read_write_self (fs : FS) (n : String) (c : Bytes) : (fs.write n c).read n = some c := by
  simp [FS.write, read_cons]

theorem read_write_other (fs : FS) (n m : String) (c : Bytes) (h : m ≠ n) :
    (fs.write n c).read m = fs.read m := by
  have h' : ¬ n = m := fun e => h e.symm
  simp only [FS.write, read_cons, h', ↓reduceIte]
  exact read_filter_ne fs n m h

theorem read_rename_dst (fs : FS) (s d : String) (c : Bytes) (h : fs.read s = some c) :
    (fs.apply (.rename s d)).read d = some c := by
  simp only [FS.apply, h]
  exact read_write_self _ _ _

theorem read_append_self (fs : FS) (n : String) (acc c : Bytes) (h : fs.read n = some acc) :
    (fs.apply (.append n c)).read n = some (acc ++ c) := by
  simp only [FS.apply, h, Option.getD_some]
  exact read_write_self _ _ _

theorem read_append_other (fs : FS) (n m : String) (c : Bytes) (h : m ≠ n) :
    (fs.apply (.append n c)).read m = fs.read m := by
  simp only [FS.apply]
  exact read_write_other _ _ _ _ h

theorem foldl_appends (n : String) (cs : List Bytes) (fs : FS) (acc : Bytes)
    (h : fs.read n = some acc) :
    ((cs.map (FsOp.append n)).foldl FS.apply fs).read n = some (acc ++ cs.flatten) ∧
    ∀ m, m ≠ n → ((cs.map (FsOp.append n)).foldl FS.apply fs).read m = fs.read m := by
  induction cs generalizing fs acc with
  | nil => simp [h]
  | cons c rest ih =>
    simp only [List.map_cons, List.foldl_cons, List.flatten_cons]
    obtain ⟨h1, h2⟩ := ih (fs.apply (.append n c)) (acc ++ c) (read_append_self fs n acc c h)
    refine ⟨by rw [h1, List.append_assoc], fun m hm => ?_⟩
    rw [h2 m hm, read_append_other fs n m c hm]

end FS

theorem append_new_ne (final : String) : final ++ ".new" ≠ final := by
  intro h
  have h1 := congrArg String.length h
  rw [String.length_append] at h1
  have h2 : (".new" : String).length = 4 := by decide
  omega

/-- the file is replaced atomically with respect to process crashes: after every prefix of the
operations of a save the file holds either the complete previous or the complete new content,
and the new one at the end -/
theorem saveOps_atomic (fs : FS) (final : String) (chunks : List Bytes) (n : Nat) :
    let fs' := ((saveOps final chunks).take n).foldl FS.apply fs
    (fs'.read final = fs.read final ∨ fs'.read final = some chunks.flatten) ∧
    (n ≥ (saveOps final chunks).length → fs'.read final = some chunks.flatten) := by
  intro fs'
  have hne : final ≠ final ++ ".new" := fun h => append_new_ne final h.symm
  have hlen : (saveOps final chunks).length = chunks.length + 2 := by
    simp [saveOps]
  cases n with
  | zero =>
    refine ⟨Or.inl rfl, fun h => ?_⟩
    omega
  | succ m =>
    have hops : saveOps final chunks =
        FsOp.openTrunc (final ++ ".new") ::
          (chunks.map (FsOp.append (final ++ ".new")) ++ [FsOp.rename (final ++ ".new") final]) := by
      simp [saveOps]
    have hfs' : fs' = ((chunks.map (FsOp.append (final ++ ".new")) ++
        [FsOp.rename (final ++ ".new") final]).take m).foldl FS.apply
          (fs.write (final ++ ".new") []) := by
      show ((saveOps final chunks).take (m + 1)).foldl FS.apply fs = _
      rw [hops, List.take_succ_cons, List.foldl_cons]
      rfl
    have h0 : (fs.write (final ++ ".new") []).read (final ++ ".new") = some [] :=
      FS.read_write_self _ _ _
    by_cases hm : m ≤ chunks.length
    · have htake : (chunks.map (FsOp.append (final ++ ".new")) ++
          [FsOp.rename (final ++ ".new") final]).take m =
          (chunks.take m).map (FsOp.append (final ++ ".new")) := by
        rw [List.take_append_of_le_length (by simpa using hm), List.map_take]
      rw [htake] at hfs'
      obtain ⟨_, h2⟩ := FS.foldl_appends (final ++ ".new") (chunks.take m) _ [] h0
      have : fs'.read final = fs.read final := by
        rw [hfs', h2 final hne, FS.read_write_other _ _ _ _ hne]
      refine ⟨Or.inl this, fun h => ?_⟩
      omega
    · have htake : (chunks.map (FsOp.append (final ++ ".new")) ++
          [FsOp.rename (final ++ ".new") final]).take m =
          chunks.map (FsOp.append (final ++ ".new")) ++ [FsOp.rename (final ++ ".new") final] := by
        apply List.take_of_length_le
        simp; omega
      rw [htake, List.foldl_append] at hfs'
      obtain ⟨h1, _⟩ := FS.foldl_appends (final ++ ".new") chunks _ [] h0
      have : fs'.read final = some chunks.flatten := by
        rw [hfs']
        simp only [List.foldl_cons, List.foldl_nil]
        have := FS.read_rename_dst _ (final ++ ".new") final _ h1
        simpa using this
      exact ⟨Or.inr this, fun _ => this⟩

end Model


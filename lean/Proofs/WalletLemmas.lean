import Model.Wallet
import Proofs.Vlq
import Proofs.Validation

/-! Helper lemmas for the wallet properties (C14, C15). -/

namespace Model

/-! ### hex text and the wallet file -/

theorem hexVal_hexDigit_fin : ∀ n : Fin 16, hexVal (hexDigit n) = some n.val := by decide

theorem hexVal_hexDigit (n : Nat) (h : n < 16) : hexVal (hexDigit n) = some n :=
  hexVal_hexDigit_fin ⟨n, h⟩

theorem ofHexChars_flatMap (bs : Bytes) :
    ofHexChars (bs.flatMap fun b => [hexDigit (b.toNat / 16), hexDigit (b.toNat % 16)]) = some bs := by
  induction bs with
  | nil => rfl
  | cons b rest ih =>
    have hb := b.toNat_lt
    have h1 : hexVal (hexDigit (b.toNat / 16)) = some (b.toNat / 16) := hexVal_hexDigit _ (by omega)
    have h2 : hexVal (hexDigit (b.toNat % 16)) = some (b.toNat % 16) := hexVal_hexDigit _ (by omega)
    have h3 : b.toNat / 16 * 16 + b.toNat % 16 = b.toNat := by omega
    simp only [List.flatMap_cons, List.cons_append, List.nil_append, ofHexChars, h1, h2, ih, h3,
      ofNat_toNat_u8, Option.bind_eq_bind, Option.bind_some, Option.pure_def]

theorem ofHexChars_toHex (bs : Bytes) : ofHexChars (toHex bs).toList = some bs := by
  unfold toHex
  rw [String.toList_ofList]
  exact ofHexChars_flatMap bs

theorem mapM_map_some {α β : Type} (f : α → β) (g : β → Option α) (hg : ∀ a, g (f a) = some a) (l : List α) :
    (l.map f).mapM g = some l := by
  induction l with
  | nil => simp
  | cons a rest ih => simp [List.mapM_cons, hg, ih]

theorem Wallet.load_dump (w : Wallet) : Wallet.load w.dump = some { w with spent := [] } := by
  unfold Wallet.load Wallet.dump
  simp only []
  rw [mapM_map_some (fun (p : Bytes × Bytes) => (toHex p.1, toHex p.2)) _ (by intro a; simp [ofHexChars_toHex]),
    mapM_map_some toHex _ (by intro a; simp [ofHexChars_toHex]),
    mapM_map_some (fun (p : Bytes × String) => (toHex p.1, p.2)) _ (by intro a; simp [ofHexChars_toHex])]
  rfl
/-! ### lists of pairs -/

theorem mem_map_fst_filter_ne {α β : Type} [DecidableEq α] (l : List (α × β)) (pk k : α) :
    k ∈ (l.filter (·.1 ≠ pk)).map (·.1) ↔ k ∈ l.map (·.1) ∧ k ≠ pk := by
  simp only [List.mem_map, List.mem_filter, decide_eq_true_eq]
  constructor
  · rintro ⟨⟨a, b⟩, ⟨hm, hp⟩, rfl⟩
    exact ⟨⟨(a, b), hm, rfl⟩, hp⟩
  · rintro ⟨⟨⟨a, b⟩, hm, rfl⟩, hp⟩
    exact ⟨(a, b), ⟨hm, hp⟩, rfl⟩

theorem nodup_map_fst_filter {α β : Type} (l : List (α × β)) (p : α × β → Bool)
    (h : (l.map (·.1)).Nodup) : ((l.filter p).map (·.1)).Nodup :=
  (List.Sublist.map _ List.filter_sublist).nodup h

theorem nodup_concat {α : Type} (l : List α) (a : α) (h : l.Nodup) (ha : a ∉ l) : (l ++ [a]).Nodup := by
  rw [List.nodup_append]
  refine ⟨h, by simp, ?_⟩
  intro x hx y hy
  simp only [List.mem_singleton] at hy
  subst hy
  intro hxy
  exact ha (hxy ▸ hx)

theorem nodup_concat_iff {α : Type} (l : List α) (a : α) : (l ++ [a]).Nodup ↔ l.Nodup ∧ a ∉ l := by
  constructor
  · intro h
    rw [List.nodup_append] at h
    exact ⟨h.1, fun ha => h.2.2 a ha a (by simp) rfl⟩
  · exact fun h => nodup_concat l a h.1 h.2

theorem any_fst_eq_iff {α β : Type} [DecidableEq α] (l : List (α × β)) (pk : α) :
    l.any (·.1 = pk) = true ↔ pk ∈ l.map (·.1) := by
  simp only [List.any_eq_true, decide_eq_true_eq, List.mem_map]

/-! ### sums -/

theorem perm_sum_int {l₁ l₂ : List Int} (h : l₁.Perm l₂) : l₁.sum = l₂.sum := by
  induction h with
  | nil => rfl
  | cons x _ ih => simp [ih]
  | swap x y l => simp only [List.sum_cons]; omega
  | trans _ _ ih1 ih2 => exact ih1.trans ih2

theorem sum_map_int_of_nodup_mem {α : Type} (f : α → Int) (l₁ l₂ : List α) (h1 : l₁.Nodup) (h2 : l₂.Nodup)
    (h : ∀ a, a ∈ l₁ ↔ a ∈ l₂) : (l₁.map f).sum = (l₂.map f).sum :=
  perm_sum_int (((List.perm_ext_iff_of_nodup h1 h2).mpr h).map f)
/-! ### the hand-out log -/

/-- newest-first log of hand-outs (`true`) and restores (`false`): before every hand-out of a
key, the most recent earlier entry about that key, if any, is not a hand-out -/
def LogGood : List (Bool × Bytes) → Prop
  | [] => True
  | e :: older => (e.1 = true → older.find? (·.2 = e.2) ≠ some (true, e.2)) ∧ LogGood older

theorem LogGood.suffix : ∀ (a b : List (Bool × Bytes)), LogGood (a ++ b) → LogGood b
  | [], _, h => h
  | _ :: a, b, h => LogGood.suffix a b h.2

theorem find_first_handout (pk : Bytes) (post : List (Bool × Bytes)) :
    ∀ mid : List (Bool × Bytes), (false, pk) ∉ mid →
      (mid ++ (true, pk) :: post).find? (·.2 = pk) = some (true, pk)
  | [], _ => by simp
  | (b, k) :: mid, h => by
    simp only [List.mem_cons, not_or] at h
    by_cases hk : k = pk
    · subst hk
      cases b with
      | true => simp
      | false => exact absurd rfl h.1
    · simp only [List.cons_append, List.find?_cons, hk, decide_false]
      exact find_first_handout pk post mid h.2

theorem LogGood.restore_between (log pre mid post : List (Bool × Bytes)) (pk : Bytes) (h : LogGood log)
    (hlog : log = pre ++ (true, pk) :: mid ++ (true, pk) :: post) : (false, pk) ∈ mid := by
  subst hlog
  rw [List.append_assoc] at h
  have h' := (LogGood.suffix _ _ h).1 rfl
  apply Classical.byContradiction
  intro hn
  exact h' (find_first_handout pk post mid hn)
/-! ### spending -/

theorem takeUntil_some (u : Utxo) (target : Nat) : ∀ (refs : List OutRef) (acc : Nat)
    (chosen : List (OutRef × Output)) (total : Nat),
    takeUntil u target refs acc = .ok (some (chosen, total)) →
      (∃ rest, refs = chosen.map (·.1) ++ rest) ∧ chosen ≠ [] ∧
      (∀ ro ∈ chosen, u.get? ro.1 = some ro.2) ∧
      total = acc + (chosen.map (·.2.value)).sum ∧ target ≤ total := by
  intro refs
  induction refs with
  | nil => intro acc chosen total h; simp [takeUntil] at h
  | cons r rest ih =>
    intro acc chosen total h
    simp only [takeUntil] at h
    split at h
    · simp at h
    · rename_i o ho
      split at h
      · rename_i hge
        simp only [Except.ok.injEq, Option.some.injEq, Prod.mk.injEq] at h
        obtain ⟨rfl, rfl⟩ := h
        refine ⟨⟨rest, by simp⟩, by simp, ?_, by simp, hge⟩
        intro ro hro
        simp only [List.mem_singleton] at hro
        subst hro
        exact ho
      · split at h
        · simp at h
        · simp at h
        · rename_i l tot hrec
          simp only [Except.ok.injEq, Option.some.injEq, Prod.mk.injEq] at h
          obtain ⟨rfl, rfl⟩ := h
          obtain ⟨⟨rest', hrest⟩, _, hget, htot, hge⟩ := ih _ _ _ hrec
          refine ⟨⟨rest', by simp [hrest]⟩, by simp, ?_, ?_, hge⟩
          · intro ro hro
            simp only [List.mem_cons] at hro
            rcases hro with rfl | hro
            · exact ho
            · exact hget ro hro
          · simp only [List.map_cons, List.sum_cons]
            omega

theorem takeUntil_none_iff (u : Utxo) (target : Nat) : ∀ (refs : List OutRef) (acc : Nat),
    acc < target → (∀ r ∈ refs, ∃ o, u.get? r = some o) →
    (takeUntil u target refs acc = .ok none ↔
      acc + (refs.map (fun r => ((u.get? r).map (·.value)).getD 0)).sum < target) := by
  intro refs
  induction refs with
  | nil => intro acc hacc _; simp [takeUntil, hacc]
  | cons r rest ih =>
    intro acc hacc hall
    obtain ⟨o, ho⟩ := hall r (by simp)
    have hall' : ∀ r ∈ rest, ∃ o, u.get? r = some o := fun r' hr' => hall r' (by simp [hr'])
    simp only [takeUntil, ho, List.map_cons, List.sum_cons, Option.map_some, Option.getD_some]
    split
    · rename_i hge
      constructor
      · intro h; simp at h
      · intro h; omega
    · rename_i hlt
      have := ih (acc + o.value) (by omega) hall'
      rw [← Nat.add_assoc, ← this]
      split <;> simp_all

theorem takeUntil_error (u : Utxo) (target : Nat) : ∀ (refs : List OutRef) (acc : Nat) (e : Err),
    takeUntil u target refs acc = .error e → ∃ r ∈ refs, u.get? r = none := by
  intro refs
  induction refs with
  | nil => intro acc e h; simp [takeUntil] at h
  | cons r rest ih =>
    intro acc e h
    simp only [takeUntil] at h
    split at h
    · rename_i hn
      exact ⟨r, by simp, hn⟩
    · split at h
      · simp at h
      · split at h
        · rename_i e' hrec
          obtain ⟨r', hr', hn⟩ := ih _ _ hrec
          exact ⟨r', by simp [hr'], hn⟩
        · simp at h
        · simp at h

/-- the inputs `sign_transaction` builds -/
def signedInputs (chosen : List (OutRef × Output)) (sigs : List Bytes) : List Input :=
  (chosen.zip sigs).map fun ((r, _), s) => ⟨r, .secp s⟩

theorem createSpend_ok (w w' : Wallet) (u : Utxo) (bal : PKBalances) (amount fee : Nat) (recipient change : Bytes)
    (sigs : List Bytes) (t : Tx) (h : w.createSpend u bal amount fee recipient change sigs = .ok (w', t)) :
    ∃ chosen collected, takeUntil u (amount + fee) (w.candidates bal) 0 = .ok (some (chosen, collected)) ∧
      (∀ ro ∈ chosen, ro.2.pk ∈ w.keys) ∧ sigs.length = chosen.length ∧
      t.inputs = signedInputs chosen sigs ∧
      t.outputs = [⟨amount, recipient⟩] ++
        (if collected ≠ amount + fee then [⟨collected - (amount + fee), change⟩] else []) ∧
      w' = { w with spent := w.spent ++ chosen.map (·.1) } := by
  unfold Wallet.createSpend at h
  split at h
  · simp at h
  · rename_i chosen unsigned hplan
    split at h
    · simp at h
    · rename_i signed hsign
      simp only [Except.ok.injEq, Prod.mk.injEq] at h
      obtain ⟨rfl, rfl⟩ := h
      unfold Wallet.planSpend at hplan
      split at hplan
      · simp at hplan
      · simp at hplan
      · rename_i chosen' collected htake
        simp only [Except.ok.injEq, Prod.mk.injEq] at hplan
        obtain ⟨rfl, rfl⟩ := hplan
        unfold Wallet.signTx at hsign
        split at hsign
        · rename_i hc
          simp only [Bool.and_eq_true, List.all_eq_true, decide_eq_true_eq] at hc
          simp only [Except.ok.injEq] at hsign
          subst hsign
          refine ⟨chosen', collected, htake, ?_, hc.2, rfl, rfl, rfl⟩
          intro ro hro
          have := hc.1 ro hro
          simpa using this
        · simp at hsign

theorem signedInputs_refs : ∀ (chosen : List (OutRef × Output)) (sigs : List Bytes),
    sigs.length = chosen.length → (signedInputs chosen sigs).map (·.ref) = chosen.map (·.1)
  | [], _, _ => by simp [signedInputs]
  | _ :: chosen, [], h => by simp at h
  | (r, o) :: chosen, s :: sigs, h => by
    have ih := signedInputs_refs chosen sigs (by simpa using h)
    simp only [signedInputs, List.zip_cons_cons, List.map_cons] at ih ⊢
    rw [ih]

theorem signedInputs_secp (chosen : List (OutRef × Output)) (sigs : List Bytes) :
    ∀ i ∈ signedInputs chosen sigs, ∃ s, i.sig = .secp s := by
  intro i hi
  simp only [signedInputs, List.mem_map] at hi
  obtain ⟨⟨⟨r, o⟩, s⟩, _, rfl⟩ := hi
  exact ⟨s, rfl⟩

theorem mem_candidates_not_spent (w : Wallet) (bal : PKBalances) (r : OutRef) (h : r ∈ w.candidates bal) :
    r ∉ w.spent := by
  unfold Wallet.candidates at h
  simp only [List.mem_flatMap] at h
  obtain ⟨pk, _, hr⟩ := h
  split at hr
  · simp at hr
  · simp only [List.mem_filter, Bool.not_eq_true', List.any_eq_false, decide_eq_true_eq] at hr
    intro hs
    exact hr.2 r hs rfl

theorem lookup_values (u : Utxo) (chosen : List (OutRef × Output)) (h : ∀ ro ∈ chosen, u.get? ro.1 = some ro.2) :
    (chosen.map (·.1)).map (fun r => ((u.get? r).map (·.value)).getD 0) = chosen.map (·.2.value) := by
  rw [List.map_map]
  apply List.map_congr_left
  intro ro hro
  simp [h ro hro]

theorem validateInputs_of (C : Crypto) (u : Utxo) (t : Tx) : ∀ (ins : List Input),
    (∀ i ∈ ins, ∃ o s, u.get? i.ref = some o ∧ i.sig = .secp s ∧
      C.verify o.pk (encTx (signable t)) s = true) →
    validateInputs C u t ins =
      .ok ((ins.map (fun i => ((u.get? i.ref).map (·.value)).getD 0)).sum) := by
  intro ins
  induction ins with
  | nil => intro _; rfl
  | cons i rest ih =>
    intro h
    obtain ⟨o, s, ho, hs, hv⟩ := h i (by simp)
    have ih' := ih (fun j hj => h j (by simp [hj]))
    simp only [validateInputs, ho, validateSignature, hs, hv, if_true, ok, ih', List.map_cons,
      List.sum_cons, Option.map_some, Option.getD_some]
    rfl

end Model

import Model.Node
import Proofs.Validation
import Proofs.Map
import Proofs.Chain

/-! Lemmas about `Model.Node` used by `Props/C09.lean`: peers bookkeeping, `flush`, the head of
the state after `addBlockNoValidation`, and a case analysis of `handleBlockReceived` for an
unsolicited block. -/

namespace Model

/-! ### peers -/

theorem mapIdx_ite_map {α : Type} (l : List PeerSt) (c : Nat) (f : PeerSt → PeerSt) (g : PeerSt → α)
    (hg : ∀ p, g (f p) = g p) :
    (l.mapIdx fun i p => if i = c then f p else p).map g = l.map g := by
  apply List.ext_getElem?
  intro i
  simp only [List.getElem?_map, List.getElem?_mapIdx]
  cases l[i]? with
  | none => rfl
  | some p =>
    simp only [Option.map_some]
    split
    · rw [hg]
    · rfl

theorem updatePeer_map {α : Type} (n : Node) (c : Nat) (f : PeerSt → PeerSt) (g : PeerSt → α)
    (hg : ∀ p, g (f p) = g p) : (n.updatePeer c f).peers.map g = n.peers.map g :=
  mapIdx_ite_map n.peers c f g hg

theorem broadcast_outbox (n : Node) (o : Out) :
    (n.broadcast o).peers.map (·.outbox.length) =
      n.peers.map (fun p => if p.active then p.outbox.length + 1 else p.outbox.length) := by
  simp only [Node.broadcast, List.map_map]
  apply List.map_congr_left
  intro p _
  simp only [Function.comp]
  split <;> simp

theorem broadcast_active (n : Node) (o : Out) :
    (n.broadcast o).peers.map (·.active) = n.peers.map (·.active) := by
  simp only [Node.broadcast, List.map_map]
  apply List.map_congr_left
  intro p _
  simp only [Function.comp]
  split <;> simp [PeerSt.active]

theorem blockEq_self (b : Block) : blockEq b b = true := by
  simp [blockEq]

/-! ### flush -/

theorem flush_foldl_mono (C : Crypto) (x : Block) : ∀ (w d : List Block), x ∈ d →
    x ∈ w.foldl (fun d b => if d.any (fun x => x.id C = b.id C) then d else d ++ [b]) d := by
  intro w
  induction w with
  | nil => intro d h; exact h
  | cons b rest ih =>
    intro d h
    simp only [List.foldl_cons]
    apply ih
    split
    · exact h
    · exact List.mem_append_left _ h

theorem flush_disk_mono (C : Crypto) (n : Node) (x : Block) (h : x ∈ n.disk) :
    x ∈ (Node.flush C n).disk := flush_foldl_mono C x n.wbuf n.disk h

/-- what flushing a buffer holding just `b` leaves in the store -/
theorem flush_single_stored (C : Crypto) (d : List Block) (b : Block) :
    ∃ x ∈ (if d.any (fun x => x.id C = b.id C) then d else d ++ [b]), x.id C = b.id C := by
  split
  · rename_i h
    simp only [List.any_eq_true, decide_eq_true_eq] at h
    exact h
  · exact ⟨b, by simp, rfl⟩

/-! ### pool -/

theorem cleanupPool_eq_self (C : Crypto) (cs : CoinState) (pool : List CTx)
    (h : ∀ t ∈ pool, validateTxAtHead C cs t = .ok ()) : cleanupPool C cs pool = pool := by
  unfold cleanupPool
  rw [List.filter_eq_self]
  intro t ht
  rw [h t ht]

/-! ### the state after `addBlockNoValidation` -/

theorem add_ok_head_some (C : Crypto) {cs cs' : CoinState} {b : Block}
    (h : addBlockNoValidation C cs b = .ok cs') : ∃ hd, cs'.head = some hd := by
  obtain ⟨hb, _, _, _, h1, h2, h3⟩ := add_ok_inv C h
  unfold CoinState.head
  cases hc : cs.current with
  | none =>
    rw [h1 hc]
    exact ⟨b, by simp [hb, Map.get?_set_self]⟩
  | some c =>
    by_cases hp : c = b.prev
    · rw [h2 c hc hp]
      exact ⟨b, by simp [hb, Map.get?_set_self]⟩
    · obtain ⟨cb, hcb, hcur⟩ := h3 c hc hp
      rw [hcur, hb]
      simp only [Option.bind_some, Map.get?_set]
      split
      · simp
      · split
        · simp
        · exact ⟨cb, hcb⟩

theorem add_ok_head_of_current (C : Crypto) {cs cs' : CoinState} {b : Block}
    (h : addBlockNoValidation C cs b = .ok cs') (hc : cs'.current = some (b.id C)) :
    cs'.head = some b := by
  obtain ⟨hb, _⟩ := add_ok_inv C h
  unfold CoinState.head
  rw [hc, hb]
  simp [Map.get?_set_self]

theorem add_ok_contains (C : Crypto) {cs cs' : CoinState} {b : Block}
    (h : addBlockNoValidation C cs b = .ok cs') (id : Bytes) :
    cs'.blocks.contains id = (decide (b.id C = id) || cs.blocks.contains id) := by
  obtain ⟨hb, _⟩ := add_ok_inv C h
  rw [hb, Map.contains_set]

theorem addBlock_eq_ok (C : Crypto) (P : Params) (cs cs' : CoinState) (b : Block) (now : Int)
    (h1 : validateBlockByItself C P b now = .ok ()) (h2 : validateBlockInState C P cs b = .ok ())
    (h3 : addBlockNoValidation C cs b = .ok cs') : addBlock C P cs b now = .ok cs' := by
  unfold addBlock
  rw [h1, h2]
  exact h3

/-! ### `handleBlockReceived`, unsolicited -/

/-- everything except one connection's inventory bookkeeping is as before -/
def SameBut (n n' : Node) : Prop :=
  n'.mgr.coinstate = n.mgr.coinstate ∧ n'.mgr.pool = n.mgr.pool ∧ n'.mgr.lastValid = n.mgr.lastValid ∧
  n'.wbuf = n.wbuf ∧ n'.disk = n.disk ∧ n'.nonce = n.nonce ∧
  n'.peers.map (·.outbox.length) = n.peers.map (·.outbox.length) ∧
  n'.peers.map (·.active) = n.peers.map (·.active)

theorem sameBut_updatePeer (n : Node) (c : Nat) (l : List Bytes → List Bytes) :
    SameBut n (n.updatePeer c fun p => { p with pendingInventory := l p.pendingInventory }) := by
  refine ⟨rfl, rfl, rfl, rfl, rfl, rfl, ?_, ?_⟩
  · exact updatePeer_map n c _ _ (fun _ => rfl)
  · exact updatePeer_map n c _ _ (fun _ => rfl)

/-- the block was accepted: what the node looks like afterwards -/
structure Accepted (C : Crypto) (P : Params) (n : Node) (b : Block) (now : Int) (r : HResult)
    (changed : CoinState) (hd : Block) : Prop where
  ok : addBlock C P n.mgr.coinstate b now = .ok changed
  step : addBlockNoValidation C n.mgr.coinstate b = .ok changed
  mgr : r.1.mgr = setCoinstate C n.mgr changed true
  wbuf : r.1.wbuf = []
  disk : r.1.disk = if n.disk.any (fun x => x.id C = b.id C) then n.disk else n.disk ++ [b]
  err : r.2 = none
  nonce : r.1.nonce = n.nonce
  active : r.1.peers.map (·.active) = n.peers.map (·.active)
  head : changed.head = some hd
  outbox : r.1.peers.map (·.outbox.length) =
    if blockEq b hd then n.peers.map (fun p => if p.active then p.outbox.length + 1 else p.outbox.length)
    else n.peers.map (·.outbox.length)

theorem hbr_cases (C : Crypto) (P : Params) (n : Node) (c : Nat) (b : Block) (now : Int)
    (hlv : n.mgr.lastValid = some n.mgr.coinstate) (hw : n.wbuf = [])
    (hclean : cleanupPool C n.mgr.coinstate n.mgr.pool = n.mgr.pool) :
    SameBut n (handleBlockReceived C P n c 0 b now).1 ∨
    (n.mgr.coinstate.blocks.contains (b.id C) = false ∧
      ∃ changed hd, Accepted C P n b now (handleBlockReceived C P n c 0 b now) changed hd) := by
  have hsb := sameBut_updatePeer n c (fun l => l.erase (b.id C))
  unfold handleBlockReceived
  simp only []
  split
  · left; exact hsb
  · split
    · left; exact hsb
    · split
      · left; exact hsb
      · split
        · left; exact hsb
        · rename_i hk _ _ u hbi _ changed hstep
          simp only [true_or, ↓reduceIte]
          cases hv : validateBlockInState C P n.mgr.coinstate b with
          | error e =>
            left
            simp only [Node.updatePeer, hlv, setCoinstate, hclean, hw, ↓reduceIte]
            exact ⟨rfl, rfl, hlv.symm, hw.symm, rfl, rfl, mapIdx_ite_map _ _ _ _ (fun _ => rfl),
              mapIdx_ite_map _ _ _ _ (fun _ => rfl)⟩
          | ok u' =>
            right
            obtain ⟨hd, hhd⟩ := add_ok_head_some C hstep
            simp only [Node.updatePeer, setCoinstate, hw, ↓reduceIte, hhd, Bool.false_eq_true, Node.flush]
            simp only [decide_true, Bool.and_true, List.nil_append, List.foldl_cons, List.foldl_nil]
            refine ⟨by simpa using hk, changed, hd, ?_⟩
            have hok := addBlock_eq_ok C P _ _ b now hbi hv hstep
            split
            · rename_i hbe
              refine ⟨hok, hstep, rfl, rfl, rfl, rfl, rfl, ?_, hhd, ?_⟩
              · rw [broadcast_active]
                exact mapIdx_ite_map _ _ _ _ (fun _ => rfl)
              · rw [broadcast_outbox, if_pos hbe]
                exact mapIdx_ite_map _ _ _ _ (fun _ => rfl)
            · rename_i hbe
              refine ⟨hok, hstep, rfl, rfl, rfl, rfl, rfl, ?_, hhd, ?_⟩
              · exact mapIdx_ite_map _ _ _ _ (fun _ => rfl)
              · rw [if_neg hbe]
                exact mapIdx_ite_map _ _ _ _ (fun _ => rfl)

/-- a block whose id is already known: only the connection's inventory bookkeeping changes -/
theorem hbr_known (C : Crypto) (P : Params) (n : Node) (c r : Nat) (b : Block) (now : Int)
    (hk : n.mgr.coinstate.blocks.contains (b.id C) = true) :
    SameBut n (handleBlockReceived C P n c r b now).1 ∧ (handleBlockReceived C P n c r b now).2 = none := by
  have hsb := sameBut_updatePeer n c (fun l => l.erase (b.id C))
  unfold handleBlockReceived
  simp only [hk, ↓reduceIte]
  exact ⟨hsb, trivial⟩

/-- the store only grows, whatever the handler does -/
theorem hbr_disk_mono (C : Crypto) (P : Params) (n : Node) (c r : Nat) (b : Block) (now : Int)
    (x : Block) (hx : x ∈ n.disk) : x ∈ (handleBlockReceived C P n c r b now).1.disk := by
  unfold handleBlockReceived
  simp only []
  split
  · exact hx
  · split
    · exact hx
    · split
      · exact hx
      · split
        · exact hx
        · have hf := flush_foldl_mono C x
          simp only [Node.flush, Node.updatePeer, Node.broadcast]
          repeat' split
          all_goals first | exact hx | exact hf _ _ hx

end Model

import Model.Node
import Proofs.NodeLemmas
import Proofs.Contain

/-!
Helper lemmas for `Props/C09Stored.lean`: what a flush leaves in the store, which handlers leave the served state, the last
validated state, the write buffer and the store alone, and the possible outcomes of the block handler on these four.
-/

namespace Model

/-! ### flush -/

/-- every buffered block has a row with its id after the insert-or-ignore loop -/
theorem flush_foldl_buffered (C : Crypto) (x : Block) : ∀ (w d : List Block), x ∈ w →
    ∃ y ∈ w.foldl (fun d b => if d.any (fun x => x.id C = b.id C) then d else d ++ [b]) d, y.id C = x.id C := by
  intro w
  induction w with
  | nil => intro d h; cases h
  | cons b rest ih =>
    intro d h
    simp only [List.foldl_cons]
    rcases List.mem_cons.mp h with h | h
    · subst h
      obtain ⟨y, hy, hid⟩ := flush_single_stored C d x
      exact ⟨y, flush_foldl_mono C y rest _ hy, hid⟩
    · exact ih _ h

theorem flush_disk_of_wbuf (C : Crypto) (n : Node) (x : Block) (h : x ∈ n.wbuf) :
    ∃ y ∈ (Node.flush C n).disk, y.id C = x.id C := flush_foldl_buffered C x n.wbuf n.disk h

@[simp] theorem flush_mgr (C : Crypto) (n : Node) : (Node.flush C n).mgr = n.mgr := rfl
@[simp] theorem flush_wbuf (C : Crypto) (n : Node) : (Node.flush C n).wbuf = [] := rfl

/-! ### the four components the store invariant looks at -/

/-- served state, last validated state, write buffer and store are the same -/
def SameStore (n n' : Node) : Prop :=
  n'.mgr.coinstate = n.mgr.coinstate ∧ n'.mgr.lastValid = n.mgr.lastValid ∧ n'.wbuf = n.wbuf ∧ n'.disk = n.disk

theorem SameStore.refl (n : Node) : SameStore n n := ⟨rfl, rfl, rfl, rfl⟩

theorem SameStore.trans {a b d : Node} (h1 : SameStore a b) (h2 : SameStore b d) : SameStore a d :=
  ⟨h2.1.trans h1.1, h2.2.1.trans h1.2.1, h2.2.2.1.trans h1.2.2.1, h2.2.2.2.trans h1.2.2.2⟩

theorem SameStore.of_contained {n n' : Node} {c : Nat} (h : ContainedAt n n' c) : SameStore n n' :=
  ⟨h.1, h.2.2.1, h.2.2.2.1, h.2.2.2.2.1⟩

theorem SameStore.updatePeer (n : Node) (c : Nat) (f : PeerSt → PeerSt) : SameStore n (n.updatePeer c f) :=
  ⟨rfl, rfl, rfl, rfl⟩

theorem SameStore.disconnect (n : Node) (c : Nat) : SameStore n (n.disconnect c) := ⟨rfl, rfl, rfl, rfl⟩

theorem SameStore.broadcast (n : Node) (o : Out) : SameStore n (n.broadcast o) := ⟨rfl, rfl, rfl, rfl⟩

/-- admitting a transaction changes the pool only -/
theorem addTxToPool_same (C : Crypto) (P : Params) (m m' : ChainMgr) (t : CTx) (a : Bool)
    (h : addTxToPool C P m t = .ok (m', a)) : m'.coinstate = m.coinstate ∧ m'.lastValid = m.lastValid := by
  unfold addTxToPool at h
  simp only at h
  split at h
  · cases h; exact ⟨rfl, rfl⟩
  · cases h; exact ⟨rfl, rfl⟩
  · cases h

theorem handleTxReceived_sameStore (C : Crypto) (P : Params) (n : Node) (t : CTx) :
    SameStore n (handleTxReceived C P n t).1 := by
  unfold handleTxReceived
  split
  · exact SameStore.refl n
  · split
    · exact SameStore.refl n
    · rename_i m h
      obtain ⟨h1, h2⟩ := addTxToPool_same C P _ _ _ _ h
      exact ⟨h1, h2, rfl, rfl⟩
    · rename_i m h
      obtain ⟨h1, h2⟩ := addTxToPool_same C P _ _ _ _ h
      exact ⟨h1, h2, rfl, rfl⟩

/-! ### the block handler -/

/-- what the block handler can do to served state, last validated state, write buffer and store -/
inductive HbrOutcome (C : Crypto) (n : Node) (b : Block) (n' : Node) : Prop where
  /-- known / unknown parent / invalid by itself / `addBlockNoValidation` raised -/
  | same (h : SameStore n n')
  /-- validated and refused: back to the last validated state, the buffer dropped -/
  | rolledBack (lv : CoinState) (hlv : n.mgr.lastValid = some lv) (hcs : n'.mgr.coinstate = lv)
      (hlv' : n'.mgr.lastValid = some lv) (hw : n'.wbuf = []) (hd : n'.disk = n.disk)
  /-- validated and refused with no last validated state -/
  | noValidated (hlv : n.mgr.lastValid = none) (hcs : n'.mgr.coinstate = n.mgr.coinstate)
      (hlv' : n'.mgr.lastValid = none) (hw : n'.wbuf = []) (hd : n'.disk = n.disk)
  /-- validated and accepted: served, last validated, flushed -/
  | accepted (changed : CoinState) (hadd : addBlockNoValidation C n.mgr.coinstate b = .ok changed)
      (hcs : n'.mgr.coinstate = changed) (hlv' : n'.mgr.lastValid = some changed) (hw : n'.wbuf = [])
      (hd : n'.disk = (Node.flush C { n with wbuf := n.wbuf ++ [b] }).disk)
  /-- adopted unvalidated: served and buffered -/
  | adopted (changed : CoinState) (hadd : addBlockNoValidation C n.mgr.coinstate b = .ok changed)
      (hcs : n'.mgr.coinstate = changed) (hlv' : n'.mgr.lastValid = n.mgr.lastValid) (hw : n'.wbuf = n.wbuf ++ [b])
      (hd : n'.disk = n.disk)

theorem hbr_outcome (C : Crypto) (P : Params) (n : Node) (c r : Nat) (b : Block) (now : Int) :
    HbrOutcome C n b (handleBlockReceived C P n c r b now).1 := by
  have hsb : SameStore n (n.updatePeer c fun p => { p with pendingInventory := p.pendingInventory.erase (b.id C) }) :=
    SameStore.updatePeer n c _
  unfold handleBlockReceived
  simp only []
  split
  · exact .same hsb
  · split
    · exact .same hsb
    · split
      · exact .same hsb
      · split
        · exact .same hsb
        · rename_i changed hadd
          by_cases hcond : r = 0 ∨ b.height % P.ibdValidationSkip = 0
          · simp only [hcond, ↓reduceIte]
            cases hv : validateBlockInState C P n.mgr.coinstate b with
            | error e =>
              simp only [Node.updatePeer, ↓reduceIte]
              cases hl : n.mgr.lastValid with
              | some lv =>
                exact .rolledBack lv hl (by simp [setCoinstate]) (by simp [setCoinstate]) rfl rfl
              | none =>
                exact .noValidated hl rfl (by simp [hl]) rfl rfl
            | ok u =>
              simp only [Bool.false_eq_true, ↓reduceIte]
              split
              · split
                · exact .accepted changed hadd rfl rfl rfl rfl
                · exact .accepted changed hadd rfl rfl rfl rfl
              · exact .accepted changed hadd rfl rfl rfl rfl
          · simp only [hcond, ↓reduceIte, Bool.false_eq_true]
            split
            · split
              · exact .adopted changed hadd rfl rfl rfl rfl
              · exact .adopted changed hadd rfl rfl rfl rfl
            · exact .adopted changed hadd rfl rfl rfl rfl

/-! ### messages -/

/-- every message either leaves the four components alone or is a block handed to the block handler -/
theorem handleMessage_store (C : Crypto) (P : Params) (n : Node) (c i r : Nat) (m : InMsg) (now : Int) :
    SameStore n (handleMessage C P n c i r m now).1 ∨
    ∃ b, (handleMessage C P n c i r m now).1 = (handleBlockReceived C P n c r b now).1 := by
  cases m with
  | dataBlock b =>
    rw [handleMessage_dataBlock]
    cases hp : n.peers[c]? with
    | none => exact .inl (SameStore.refl n)
    | some p =>
      simp only
      split
      · exact .inl (SameStore.refl n)
      · exact .inr ⟨b, rfl⟩
  | dataTx t =>
    left
    rw [handleMessage_dataTx]
    cases hp : n.peers[c]? with
    | none => exact SameStore.refl n
    | some p =>
      simp only
      split
      · exact SameStore.refl n
      · exact handleTxReceived_sameStore C P n t
  | hello _ _ => exact .inl (.of_contained (handleMessage_protocol_contained C P n c i r _ now trivial))
  | getBlocks _ => exact .inl (.of_contained (handleMessage_protocol_contained C P n c i r _ now trivial))
  | inventory _ => exact .inl (.of_contained (handleMessage_protocol_contained C P n c i r _ now trivial))
  | getData _ _ => exact .inl (.of_contained (handleMessage_protocol_contained C P n c i r _ now trivial))
  | dataHeader => exact .inl (.of_contained (handleMessage_protocol_contained C P n c i r _ now trivial))
  | getPeers => exact .inl (.of_contained (handleMessage_protocol_contained C P n c i r _ now trivial))
  | peers => exact .inl (.of_contained (handleMessage_protocol_contained C P n c i r _ now trivial))

end Model

import Model.Codec
import Proofs.Vlq

/-! Laws of the codec combinators: round trip (`RT`) and canonicity (`Canon`). -/

namespace Model
namespace Codec

/-- what the encoder writes, the decoder reads back, leaving the rest of the stream -/
def RT (c : Codec α) (wf : α → Prop) : Prop :=
  ∀ a r, wf a → c.dec (c.enc a ++ r) = some (a, r)

/-- whatever the decoder accepts is exactly the encoder's output for the decoded value
followed by the unread rest: one accepted encoding per value -/
def Canon (c : Codec α) (wf : α → Prop) : Prop :=
  ∀ bs a r, c.dec bs = some (a, r) → bs = c.enc a ++ r ∧ wf a

theorem RT.mono {c : Codec α} {p q : α → Prop} (h : RT c p) (hpq : ∀ a, q a → p a) : RT c q :=
  fun a r hq => h a r (hpq a hq)

theorem Canon.mono {c : Codec α} {p q : α → Prop} (h : Canon c p) (hpq : ∀ a, p a → q a) :
    Canon c q :=
  fun bs a r hd => ⟨(h bs a r hd).1, hpq a (h bs a r hd).2⟩

@[simp] theorem fixed_enc (n : Nat) (b : Bytes) : (fixed n).enc b = b := rfl
@[simp] theorem be_enc (n x : Nat) : (be n).enc x = natToBytes n x := rfl
@[simp] theorem vlq_enc (x : Nat) : vlq.enc x = encodeVlq x := rfl
@[simp] theorem const_enc (c : Bytes) (u : Unit) : (const c).enc u = c := rfl
@[simp] theorem skip_enc (c : Bytes) (u : Unit) : (skip c).enc u = c := rfl
@[simp] theorem seq_enc (c₁ : Codec α) (c₂ : Codec β) (x : α × β) :
    (seq c₁ c₂).enc x = c₁.enc x.1 ++ c₂.enc x.2 := rfl
@[simp] theorem iso_enc (f : α → β) (g : β → α) (c : Codec α) (b : β) :
    (iso f g c).enc b = c.enc (g b) := rfl
@[simp] theorem list_enc (c : Codec α) (l : List α) :
    (list c).enc l = encodeVlq l.length ++ encAll c l := rfl
@[simp] theorem lenBytes1_enc (b : Bytes) : lenBytes1.enc b = UInt8.ofNat b.length :: b := rfl

/-! #### fixed -/

theorem fixed_rt (n : Nat) : RT (fixed n) (fun b => b.length = n) := by
  intro a r h
  simp [fixed, h]

theorem fixed_canon (n : Nat) : Canon (fixed n) (fun b => b.length = n) := by
  intro bs a r h
  simp only [fixed] at h
  split at h
  · rename_i hn
    simp only [Option.some.injEq, Prod.mk.injEq] at h
    obtain ⟨h1, h2⟩ := h
    subst h1; subst h2
    simp [List.length_take, hn]
  · simp at h

/-! #### big-endian integers -/

theorem foldl_be (bs : Bytes) (acc : Nat) :
    bs.foldl (fun acc b => acc * 256 + b.toNat) acc
      = acc * 256 ^ bs.length + bs.foldl (fun acc b => acc * 256 + b.toNat) 0 := by
  induction bs generalizing acc with
  | nil => simp
  | cons b bs ih =>
    simp only [List.foldl_cons, List.length_cons]
    rw [ih (acc * 256 + b.toNat), ih (0 * 256 + b.toNat), Nat.pow_succ]
    ring

theorem bytesToNat_cons (b : UInt8) (bs : Bytes) :
    bytesToNat (b :: bs) = b.toNat * 256 ^ bs.length + bytesToNat bs := by
  simp only [bytesToNat, List.foldl_cons]
  rw [foldl_be]; simp

theorem bytesToNat_lt (bs : Bytes) : bytesToNat bs < 256 ^ bs.length := by
  induction bs with
  | nil => simp [bytesToNat]
  | cons b bs ih =>
    rw [bytesToNat_cons, List.length_cons, Nat.pow_succ]
    have := b.toNat_lt
    have : b.toNat * 256 ^ bs.length ≤ 255 * 256 ^ bs.length := Nat.mul_le_mul_right _ (by omega)
    omega

theorem natToBytes_length (n x : Nat) : (natToBytes n x).length = n := by
  induction n with
  | zero => simp [natToBytes]
  | succ n ih => simp [natToBytes, ih]

theorem natToBytes_add_mul (n x q : Nat) : natToBytes n (q * 256 ^ n + x) = natToBytes n x := by
  induction n generalizing q with
  | zero => simp [natToBytes]
  | succ n ih =>
    have hpos : 0 < 256 ^ n := Nat.pow_pos (by omega)
    have e : q * 256 ^ (n + 1) + x = x + (q * 256) * 256 ^ n := by rw [Nat.pow_succ]; ring
    simp only [natToBytes]
    congr 1
    · rw [e, Nat.add_mul_div_right _ _ hpos]
      have : (x / 256 ^ n + q * 256) % 256 = (x / 256 ^ n) % 256 := by omega
      rw [this]
    · rw [e, Nat.add_comm]; exact ih (q * 256)

theorem bytesToNat_natToBytes (n x : Nat) : bytesToNat (natToBytes n x) = x % 256 ^ n := by
  induction n with
  | zero => simp [natToBytes, bytesToNat, Nat.mod_one]
  | succ n ih =>
    rw [natToBytes, bytesToNat_cons, natToBytes_length, ih, UInt8.toNat_ofNat']
    have : x / 256 ^ n % 256 % 2 ^ 8 = x / 256 ^ n % 256 := by omega
    rw [this, Nat.mod_pow_succ (b := 256)]
    ring

theorem natToBytes_bytesToNat (bs : Bytes) : natToBytes bs.length (bytesToNat bs) = bs := by
  induction bs with
  | nil => simp [natToBytes]
  | cons b bs ih =>
    rw [bytesToNat_cons, List.length_cons, natToBytes]
    have hpos : 0 < 256 ^ bs.length := Nat.pow_pos (by omega)
    congr 1
    · rw [Nat.add_comm, Nat.add_mul_div_right _ _ hpos, Nat.div_eq_of_lt (bytesToNat_lt bs)]
      have := b.toNat_lt
      have : (0 + b.toNat) % 256 = b.toNat := by omega
      rw [this, ofNat_toNat_u8]
    · rw [natToBytes_add_mul, ih]

theorem be_rt (n : Nat) : RT (be n) (fun x => x < 256 ^ n) := by
  intro a r h
  simp only [be]
  have hl := natToBytes_length n a
  have h1 : List.take n (natToBytes n a ++ r) = natToBytes n a := by
    rw [List.take_append_of_le_length (by omega)]
    exact List.take_of_length_le (by omega)
  have h2 : List.drop n (natToBytes n a ++ r) = r := by
    rw [List.drop_append_of_le_length (by omega), List.drop_of_length_le (by omega)]; simp
  have h3 : n ≤ (natToBytes n a ++ r).length := by simp [hl]
  rw [if_pos h3, h1, h2, bytesToNat_natToBytes, Nat.mod_eq_of_lt h]

theorem be_canon (n : Nat) : Canon (be n) (fun x => x < 256 ^ n) := by
  intro bs a r h
  simp only [be] at h
  split at h
  · rename_i hn
    simp only [Option.some.injEq, Prod.mk.injEq] at h
    obtain ⟨h1, h2⟩ := h
    subst h1; subst h2
    have hl : (List.take n bs).length = n := by simp [List.length_take]; omega
    constructor
    · have := natToBytes_bytesToNat (List.take n bs)
      rw [hl] at this
      rw [be_enc, this, List.take_append_drop]
    · have := bytesToNat_lt (List.take n bs)
      rw [hl] at this; exact this
  · simp at h

/-! #### VLQ -/

theorem vlq_rt : RT vlq (fun _ => True) := fun a r _ => decodeVlq_encodeVlq a r

theorem vlq_canon : Canon vlq (fun _ => True) :=
  fun bs a r h => ⟨encodeVlq_of_decodeVlq bs a r h, trivial⟩

/-! #### constants and skipped bytes -/

theorem const_rt (c : Bytes) : RT (const c) (fun _ => True) := by
  intro a r _
  simp [const]

theorem const_canon (c : Bytes) : Canon (const c) (fun _ => True) := by
  intro bs a r h
  simp only [const] at h
  split at h
  · rename_i hc
    simp only [Option.some.injEq, Prod.mk.injEq] at h
    obtain ⟨_, h2⟩ := h
    subst h2
    refine ⟨?_, trivial⟩
    have := List.take_append_drop c.length bs
    rw [hc.2] at this
    exact this.symm
  · simp at h

theorem skip_rt (c : Bytes) : RT (skip c) (fun _ => True) := by
  intro a r _
  simp [skip]

/-! #### sequencing and renaming -/

theorem seq_rt {c₁ : Codec α} {c₂ : Codec β} {p : α → Prop} {q : β → Prop}
    (h₁ : RT c₁ p) (h₂ : RT c₂ q) : RT (seq c₁ c₂) (fun x => p x.1 ∧ q x.2) := by
  intro a r h
  simp only [seq, List.append_assoc]
  rw [h₁ a.1 _ h.1]
  simp only
  rw [h₂ a.2 _ h.2]

theorem seq_canon {c₁ : Codec α} {c₂ : Codec β} {p : α → Prop} {q : β → Prop}
    (h₁ : Canon c₁ p) (h₂ : Canon c₂ q) : Canon (seq c₁ c₂) (fun x => p x.1 ∧ q x.2) := by
  intro bs a r h
  simp only [seq] at h
  split at h
  · simp at h
  · rename_i a₁ r₁ hd₁
    split at h
    · simp at h
    · rename_i a₂ r₂ hd₂
      simp only [Option.some.injEq, Prod.mk.injEq] at h
      obtain ⟨h1, h2⟩ := h
      subst h1; subst h2
      obtain ⟨e₁, w₁⟩ := h₁ _ _ _ hd₁
      obtain ⟨e₂, w₂⟩ := h₂ _ _ _ hd₂
      refine ⟨?_, w₁, w₂⟩
      rw [e₁, e₂, seq_enc, List.append_assoc]

theorem iso_rt {c : Codec α} {p : α → Prop} {q : β → Prop} {f : α → β} {g : β → α}
    (h : RT c p) (hfg : ∀ b, f (g b) = b) (hq : ∀ b, q b → p (g b)) : RT (iso f g c) q := by
  intro b r hb
  simp only [iso]
  rw [h (g b) r (hq b hb)]
  simp [hfg]

theorem iso_canon {c : Codec α} {p : α → Prop} {q : β → Prop} {f : α → β} {g : β → α}
    (h : Canon c p) (hgf : ∀ a, g (f a) = a) (hp : ∀ a, p a → q (f a)) : Canon (iso f g c) q := by
  intro bs b r hd
  simp only [iso] at hd
  split at hd
  · simp at hd
  · rename_i a r' hd'
    simp only [Option.some.injEq, Prod.mk.injEq] at hd
    obtain ⟨h1, h2⟩ := hd
    subst h1; subst h2
    obtain ⟨e, w⟩ := h _ _ _ hd'
    exact ⟨by rw [iso_enc, hgf]; exact e, hp a w⟩

/-! #### lists -/

theorem decN_encAll {c : Codec α} {p : α → Prop} (h : RT c p) (l : List α) (r : Bytes)
    (hl : ∀ a ∈ l, p a) : decN c l.length (encAll c l ++ r) = some (l, r) := by
  induction l with
  | nil => simp [decN, encAll]
  | cons a l ih =>
    simp only [encAll, List.flatMap_cons, List.length_cons, decN, List.append_assoc]
    rw [h a _ (hl a (by simp))]
    simp only
    have := ih (fun x hx => hl x (by simp [hx]))
    simp only [encAll] at this
    rw [this]

theorem decN_inv {c : Codec α} {p : α → Prop} (h : Canon c p) :
    ∀ (n : Nat) (bs : Bytes) (l : List α) (r : Bytes), decN c n bs = some (l, r) →
      bs = encAll c l ++ r ∧ l.length = n ∧ ∀ a ∈ l, p a := by
  intro n
  induction n with
  | zero =>
    intro bs l r hd
    simp only [decN, Option.some.injEq, Prod.mk.injEq] at hd
    obtain ⟨h1, h2⟩ := hd
    subst h1; subst h2
    simp [encAll]
  | succ n ih =>
    intro bs l r hd
    simp only [decN] at hd
    split at hd
    · simp at hd
    · rename_i a r₁ hd₁
      split at hd
      · simp at hd
      · rename_i as r₂ hd₂
        simp only [Option.some.injEq, Prod.mk.injEq] at hd
        obtain ⟨h1, h2⟩ := hd
        subst h1; subst h2
        obtain ⟨e₁, w₁⟩ := h _ _ _ hd₁
        obtain ⟨e₂, len, w₂⟩ := ih _ _ _ hd₂
        refine ⟨?_, by simp [len], ?_⟩
        · simp only [encAll, List.flatMap_cons, List.append_assoc]
          simp only [encAll] at e₂
          rw [e₁, e₂]
        · intro x hx
          simp only [List.mem_cons] at hx
          rcases hx with rfl | hx
          · exact w₁
          · exact w₂ x hx

theorem list_rt {c : Codec α} {p : α → Prop} (h : RT c p) : RT (list c) (fun l => ∀ a ∈ l, p a) := by
  intro l r hl
  simp only [list, List.append_assoc]
  rw [decodeVlq_encodeVlq]
  exact decN_encAll h l r hl

theorem list_canon {c : Codec α} {p : α → Prop} (h : Canon c p) :
    Canon (list c) (fun l => ∀ a ∈ l, p a) := by
  intro bs l r hd
  simp only [list] at hd
  split at hd
  · simp at hd
  · rename_i n r₁ hv
    have e₁ := encodeVlq_of_decodeVlq _ _ _ hv
    obtain ⟨e₂, len, w⟩ := decN_inv h _ _ _ _ hd
    refine ⟨?_, w⟩
    rw [e₁, e₂, list_enc, len, List.append_assoc]

/-! #### one-byte length prefix -/

theorem lenBytes1_rt : RT lenBytes1 (fun b => b.length < 256) := by
  intro a r h
  simp only [lenBytes1, List.cons_append]
  have : (UInt8.ofNat a.length).toNat = a.length := by
    rw [UInt8.toNat_ofNat']; omega
  rw [this]
  simp

theorem lenBytes1_canon : Canon lenBytes1 (fun b => b.length < 256) := by
  intro bs a r h
  simp only [lenBytes1] at h
  split at h
  · simp at h
  · rename_i l rest
    split at h
    · rename_i hl
      simp only [Option.some.injEq, Prod.mk.injEq] at h
      obtain ⟨h1, h2⟩ := h
      subst h1; subst h2
      have hlen : (List.take l.toNat rest).length = l.toNat := by simp [List.length_take]; omega
      constructor
      · rw [lenBytes1_enc, hlen, ofNat_toNat_u8, List.cons_append, List.take_append_drop]
      · show (List.take l.toNat rest).length < 256
        rw [hlen]; exact l.toNat_lt
    · simp at h

/-! #### consequences used by the properties -/

/-- no proper prefix of an encoding decodes (so truncated input is undecodable) -/
theorem prefix_undecodable {c : Codec α} {p : α → Prop} (hrt : RT c p) (hc : Canon c p)
    (a : α) (ha : p a) (n : Nat) (hn : n < (c.enc a).length) : c.dec ((c.enc a).take n) = none := by
  cases hd : c.dec ((c.enc a).take n) with
  | none => rfl
  | some x =>
    obtain ⟨a', r'⟩ := x
    exfalso
    obtain ⟨e, w⟩ := hc _ _ _ hd
    have hsplit := List.take_append_drop n (c.enc a)
    have h1 := hrt a [] ha
    rw [List.append_nil, ← hsplit, e, List.append_assoc] at h1
    rw [hrt a' _ w] at h1
    simp only [Option.some.injEq, Prod.mk.injEq] at h1
    obtain ⟨_, h3⟩ := h1
    have : (List.drop n (c.enc a)).length = 0 := by
      have := congrArg List.length h3; simp at this; omega
    simp at this; omega

/-- encodings of well-formed values are injective -/
theorem enc_injective {c : Codec α} {p : α → Prop} (hrt : RT c p) (a b : α) (ha : p a) (hb : p b)
    (h : c.enc a = c.enc b) : a = b := by
  have h1 := hrt a [] ha
  have h2 := hrt b [] hb
  rw [h] at h1
  rw [h1] at h2
  simpa using h2

end Codec
end Model

import Model.Spec
import Proofs.Map
import Proofs.Chain
import Props.C04

/-!
Lemmas about the `utxoAt` field of `addBlockNoValidation`, `replayUtxo`, `chainAtHash` and the
order-independence of `findBlock` / `chainOf`, used by `Props/C03.lean`.
-/

namespace Model
variable (C : Crypto)

/-! ## the `utxoAt` field after `addBlockNoValidation` -/

/-- the unspent set stored for a new block is `uto_apply_block` of the parent's stored set (the
empty set for a genesis block); the other entries are kept -/
theorem add_ok_utxo {cs cs' : CoinState} {b : Block}
    (h : addBlockNoValidation C cs b = .ok cs') :
    ∃ u₀ u, (b.prev = zeros 32 → u₀ = []) ∧
      (b.prev ≠ zeros 32 → cs.utxoAt.get? b.prev = some u₀) ∧
      utoApplyBlock C u₀ b = .ok u ∧ cs'.utxoAt = cs.utxoAt.set (b.id C) u := by
  unfold addBlockNoValidation at h
  simp only [bind, Except.bind, pure, Except.pure, throw, throwThe, MonadExceptOf.throw] at h
  by_cases hz : b.prev = zeros 32
  · simp only [hz, ↓reduceIte] at h
    cases hu : utoApplyBlock C [] b with
    | error e => rw [hu] at h; cases h
    | ok u =>
      rw [hu] at h
      refine ⟨[], u, fun _ => rfl, fun h' => absurd hz h', hu, ?_⟩
      simp only at h
      split at h
      · cases h; rfl
      · split at h
        · cases h; rfl
        · split at h
          · cases h
          · cases h; rfl
  · simp only [hz, ↓reduceIte] at h
    cases hg : cs.utxoAt.get? b.prev with
    | none => rw [hg] at h; cases h
    | some u₀ =>
      rw [hg] at h
      simp only at h
      cases hu : utoApplyBlock C u₀ b with
      | error e => rw [hu] at h; cases h
      | ok u =>
        rw [hu] at h
        refine ⟨u₀, u, fun h' => absurd h' hz, fun _ => rfl, hu, ?_⟩
        simp only at h
        split at h
        · split at h
          · cases h; rfl
          · split at h
            · cases h; rfl
            · split at h
              · cases h
              · cases h; rfl
        · cases h

/-! ## `Map.erase` of an absent key -/

theorem Map.erase_of_get?_none {κ ν : Type} [DecidableEq κ] (m : Map κ ν) (k : κ)
    (h : m.get? k = none) : m.erase k = m := by
  induction m with
  | nil => rfl
  | cons p rest ih =>
    obtain ⟨k1, v⟩ := p
    rw [Map.get?_cons] at h
    by_cases h1 : k1 = k
    · simp [h1] at h
    · simp only [h1, ↓reduceIte] at h
      have := ih h
      simp only [Map.erase, List.filter_cons, ne_eq, h1, not_false_eq_true, decide_true,
        ↓reduceIte] at this ⊢
      rw [this]

theorem Map.length_set_of_get?_none {κ ν : Type} [DecidableEq κ] (m : Map κ ν) (k : κ) (v : ν)
    (h : m.get? k = none) : (m.set k v).length = m.length + 1 := by
  simp only [Map.set, List.length_cons, Map.erase_of_get?_none m k h]

/-! ## `replayUtxo` -/

theorem replayUtxo_snoc (l : List Block) (b : Block) (u : Utxo) :
    replayUtxo C (l ++ [b]) u =
      match replayUtxo C l u with
      | .error e => .error e
      | .ok u' => utoApplyBlock C u' b := by
  induction l generalizing u with
  | nil =>
    simp only [List.nil_append, replayUtxo]
    cases utoApplyBlock C u b <;> rfl
  | cons x rest ih =>
    simp only [List.cons_append, replayUtxo]
    cases utoApplyBlock C u x with
    | error e => rfl
    | ok u' => exact ih u'

/-- the unspent set of a replay is the first component of `replay` -/
theorem replay_fst (l : List Block) (u : Utxo) (p : PKBalances) (r : Utxo × PKBalances)
    (h : replay C l u p = .ok r) : replayUtxo C l u = .ok r.1 := by
  induction l generalizing u p with
  | nil =>
    simp only [replay] at h
    cases h; rfl
  | cons x rest ih =>
    simp only [replay, bind, Except.bind] at h
    cases hp : pkbApplyBlock C u p x with
    | error e => rw [hp] at h; cases h
    | ok p' =>
      rw [hp] at h
      simp only at h
      cases hu : utoApplyBlock C u x with
      | error e => rw [hu] at h; cases h
      | ok u' =>
        rw [hu] at h
        simp only [replayUtxo, hu]
        exact ih u' p' h

/-! ## the stored blocks -/

/-- a well-formed history of successful arrivals stores exactly one entry per block -/
theorem blocks_length (bs : List Block) (s : CoinState) (hwf : WFArrivals C bs)
    (hf : foldBlocks C .empty bs = .ok s) : s.blocks.length = bs.length := by
  induction hwf generalizing s with
  | genesis g h1 h2 h3 =>
    obtain ⟨hb, -⟩ := add_ok_inv C (foldBlocks_single_ok C hf)
    rw [hb]; rfl
  | snoc bs x p hwf hp hprev hht hnz hfresh ih =>
    obtain ⟨s₀, hf₀, ha⟩ := foldBlocks_snoc_ok C hf
    obtain ⟨hb, -⟩ := add_ok_inv C ha
    have hnone : s₀.blocks.get? (x.id C) = none := by
      cases hg : s₀.blocks.get? (x.id C) with
      | none => rfl
      | some y =>
        have := (C04.blocks_are_history C bs s₀ hwf hf₀ (x.id C) y).1 hg
        exact absurd this.2 (hfresh y this.1)
    rw [hb, Map.length_set_of_get?_none _ _ _ hnone, ih s₀ hf₀]
    simp only [List.length_append, List.length_singleton]

/-! ## `chainAtHash` walks the same chain as `chainOf` -/

theorem chainAtHash_eq_chainOf (bs : List Block) (s : CoinState) (hwf : WFArrivals C bs)
    (hf : foldBlocks C .empty bs = .ok s) (f : Nat) {x : Block} (hx : x ∈ bs)
    (hh : x.height ≤ f) :
    chainAtHash s.blocks (f + 1) (x.id C) = .ok (chainOf C bs f x) := by
  have F := hwf.facts C
  induction f generalizing x with
  | zero =>
    have hz := F.height_zero C hx (by omega)
    have hg : s.blocks.get? (x.id C) = some x :=
      (C04.blocks_are_history C bs s hwf hf (x.id C) x).2 ⟨hx, rfl⟩
    simp only [chainAtHash, hg, hz, ↓reduceIte, chainOf]
  | succ f ih =>
    have hg : s.blocks.get? (x.id C) = some x :=
      (C04.blocks_are_history C bs s hwf hf (x.id C) x).2 ⟨hx, rfl⟩
    by_cases hz : x.prev = zeros 32
    · simp only [chainAtHash, hg, hz, ↓reduceIte, chainOf]
    · obtain ⟨q, hq, hp, hhq⟩ := F.parent C hx hz
      have h1 := findBlock_of_mem C F hq
      have ihq := ih hq (by omega)
      unfold chainAtHash
      simp only [hg, hz, ↓reduceIte]
      rw [hp] at hz ⊢
      rw [ihq]
      simp only [chainOf, hp, hz, ↓reduceIte, h1]
      rfl

/-- `chain_at_hash` with the fuel `balancesAt` gives it returns the chain of the block -/
theorem chainAtHash_blocks (bs : List Block) (s : CoinState) (hwf : WFArrivals C bs)
    (hf : foldBlocks C .empty bs = .ok s) {x : Block} (hx : x ∈ bs) :
    chainAtHash s.blocks s.blocks.length (x.id C) = .ok (chainOf C bs bs.length x) := by
  have F := hwf.facts C
  have hlen := blocks_length C bs s hwf hf
  have hht := F.ht x hx
  rw [hlen]
  obtain ⟨n, hn⟩ : ∃ n, bs.length = n + 1 := ⟨bs.length - 1, by omega⟩
  rw [hn, chainAtHash_eq_chainOf C bs s hwf hf n hx (by omega)]
  rw [chainOf_fuel C F n (n + 1) hx (by omega) (by omega)]

/-! ## `findBlock` and `chainOf` depend only on the set of blocks -/

theorem findBlock_perm {bs bs' : List Block} (F' : HistFacts C bs')
    (hp : ∀ x, x ∈ bs ↔ x ∈ bs') (id : Bytes) : findBlock C bs id = findBlock C bs' id := by
  cases h : findBlock C bs id with
  | some q =>
    unfold findBlock at h
    have h1 := List.find?_some h
    have h2 := List.mem_of_find?_eq_some h
    simp only [decide_eq_true_eq] at h1
    rw [← h1, findBlock_of_mem C F' ((hp q).1 h2)]
  | none =>
    cases h' : findBlock C bs' id with
    | none => rfl
    | some q =>
      unfold findBlock at h h'
      have h1 := List.find?_some h'
      have h2 := List.mem_of_find?_eq_some h'
      rw [List.find?_eq_none] at h
      exact absurd h1 (h q ((hp q).2 h2))

theorem chainOf_congr {bs bs' : List Block}
    (h : ∀ id, findBlock C bs id = findBlock C bs' id) (f : Nat) (x : Block) :
    chainOf C bs f x = chainOf C bs' f x := by
  induction f generalizing x with
  | zero => rfl
  | succ f ih =>
    unfold chainOf
    rw [h x.prev]
    split
    · rfl
    · cases findBlock C bs' x.prev with
      | none => rfl
      | some p => simp only [ih p]

end Model

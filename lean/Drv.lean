import Model

/-!
drv — line-protocol driver: one operation per line on stdin, one result line on stdout.
The harness runs the real skepticoin code on the same operations and diffs the two streams.
Byte strings are hex (`-` = empty).
-/

open Model

structure DState where
  params : Params
  sigs : List (Bytes × Bytes × Bytes)        -- (pk, msg, sig) triples that verify
  scrypts : List (Bytes × Bytes × Bytes)     -- (password, salt, out) for the real scrypt
  states : List (String × CoinState)

def defaultParams : Params := {
  maxSashimi := 2099999986350000, maxBlockSize := 200000, maxFutureBlockTime := 30,
  maxCoinbaseData := 200, retargetInterval := 10080, retargetTimespan := 1209600,
  halvingInterval := 1050000, initialSubsidy := 1000000000, sampleCount := 8, sampleSize := 4,
  maxKnownHeight := -1, knownHashes := [], inventorySize := 500, ibdValidationSkip := 10000,
  maxMessageSize := 33554432, timeToSecondAttempt := 10, maxTimeBetweenAttempts := 1800,
  maxConnectionAttempts := 2880, getPeersInterval := 1800, peersFileMax := 100 }

def magicBytes : Bytes := [77, 65, 74, 73]

/-- the stub the harness installs for `consensus.scrypt` unless a table entry exists -/
def DState.crypto (d : DState) : Crypto where
  sha256d := sha256d
  blake2 := blake2b32
  scrypt pw salt :=
    match d.scrypts.find? (fun e => e.1 == pw && e.2.1 == salt) with
    | some e => e.2.2
    | none => sha256 (pw ++ salt)
  verify pk msg sig := d.sigs.any (fun e => e.1 == pk && e.2.1 == msg && e.2.2 == sig)

def hx (s : String) : Bytes := (ofHex s).getD []

def decCmd (C : Crypto) (ty : String) (bs : Bytes) : String :=
  let fin {α : Type} (c : Codec α) (idf : α → Option Bytes) : String :=
    match c.dec bs with
    | none => "err"
    | some (a, r) =>
      let used := bs.length - r.length
      s!"ok {used} {hexOr (c.enc a)}" ++ (match idf a with | some i => " " ++ toHex i | none => "")
  match ty with
  | "outref" => fin OutRef.codec (fun _ => none)
  | "sig" => fin Sig.codec (fun _ => none)
  | "pk" => fin pkCodec (fun _ => none)
  | "input" => fin Input.codec (fun _ => none)
  | "output" => fin Output.codec (fun _ => none)
  | "evidence" => fin Evidence.codec (fun _ => none)
  | "summary" => fin Summary.codec (fun s => some (C.sha256d (encSummary s)))
  | "header" => fin Header.codec (fun h => some (C.sha256d (encHeader h)))
  | "tx" =>
    match decTx C.sha256d bs with
    | none => "err"
    | some (t, r) => s!"ok {bs.length - r.length} {hexOr (encTx t.tx)} {toHex (t.id C)}"
  | "block" =>
    match decBlock C.sha256d bs with
    | none => "err"
    | some (b, r) =>
      let txids := String.intercalate "," (b.txs.map fun t => toHex (t.id C))
      s!"ok {bs.length - r.length} {hexOr (encBlock b)} {toHex (b.id C)} {txids}"
  | "msg" =>
    match decodeFrame bs with
    | none => "err"
    | some (h, m) => s!"ok {hexOr (encodeFrame h m)}"
  | _ => "bad-op"

def errName : FErr → String
  | .magic => "magic"
  | .tooBig => "toobig"
  | .handler => "handler"

def framesCmd (maxSize : Nat) (chunks : List Bytes) : String :=
  let r := feedAll magicBytes maxSize (fun p => (decodeFrame p).isNone) RState.init chunks
  let ps := String.intercalate "," (r.payloads.map hexOr)
  let e := match r.err with | none => "none" | some e => errName e
  s!"{if ps.isEmpty then "." else ps} {e}"

def step (d : DState) (line : String) : DState × String :=
  let C := d.crypto
  match (line.trimAscii.toString.splitOn " ").filter (· ≠ "") with
  | ["vlqenc", n] => (d, match n.toNat? with | some k => toHex (encodeVlq k) | none => "bad-op")
  | ["vlqdec", h] =>
    (d, match decodeVlq (hx h) with
      | some (v, r) => s!"ok {v} {(hx h).length - r.length}"
      | none => "err")
  | ["dec", ty, h] => (d, decCmd C ty (hx h))
  | ["sha256d", h] => (d, toHex (sha256d (hx h)))
  | ["blake2", h] => (d, toHex (blake2b32 (hx h)))
  | ["subsidy", n] => (d, match n.toNat? with | some k => toString (subsidy d.params k) | none => "bad-op")
  | "frames" :: ms :: chunks =>
    (d, match ms.toNat? with
      | some m => framesCmd m (chunks.map hx)
      | none => "bad-op")
  | _ => (d, "bad-op")

partial def loop (h : IO.FS.Stream) (out : IO.FS.Stream) (d : DState) : IO Unit := do
  let line ← h.getLine
  if line.isEmpty then return ()
  let (d', o) := step d line
  out.putStrLn o
  if line.trimAscii.toString == "flush" then out.flush
  loop h out d'

def main : IO Unit := do
  let out ← IO.getStdout
  loop (← IO.getStdin) out ⟨defaultParams, [], [], []⟩
  out.flush

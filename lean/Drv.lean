import Model
def main : IO Unit := IO.println (Model.toHex (Model.encodeVlq 64))

import Model

/-!
drv — line-protocol driver: one operation per line on stdin, one result line on stdout.
The harness runs the real skepticoin code on the same operations and diffs the two streams.
Byte strings are hex (`-` = empty).
-/

open Model

structure DState where
  params : Params
  sigs : List (Bytes × Bytes × Bytes)        -- (pk, msg, sig) triples that verify
  scrypts : List (Bytes × Bytes × Bytes)     -- (password, salt, out) for the real scrypt
  states : List (String × CoinState)
  node : Node := ⟨⟨CoinState.empty, [], none⟩, [], [], [], 0⟩
  recv : List RState := []          -- per peer: MessageReceiver state
  wallet : Wallet := Wallet.empty
  book : Book := Book.empty
  store : Store := Store.empty
  cand : Option (CoinState × Summary × Nat × List CTx) := none
  fparams : FetchParams := ⟨1, 60, 300, 60⟩
  fetch : FetchSt := ⟨0, fun _ => 0, []⟩

def defaultParams : Params := {
  maxSashimi := 2099999986350000, maxBlockSize := 200000, maxFutureBlockTime := 30,
  maxCoinbaseData := 200, retargetInterval := 10080, retargetTimespan := 1209600,
  halvingInterval := 1050000, initialSubsidy := 1000000000, sampleCount := 8, sampleSize := 4,
  maxKnownHeight := -1, knownHashes := [], inventorySize := 500, ibdValidationSkip := 10000,
  maxMessageSize := 33554432, timeToSecondAttempt := 10, maxTimeBetweenAttempts := 1800,
  maxConnectionAttempts := 2880, getPeersInterval := 1800, peersFileMax := 100 }

def magicBytes : Bytes := [77, 65, 74, 73]

/-- the stub the harness installs for `consensus.scrypt` unless a table entry exists -/
def DState.crypto (d : DState) : Crypto where
  sha256d := sha256d
  blake2 := blake2b32
  scrypt pw salt :=
    match d.scrypts.find? (fun e => e.1 == pw && e.2.1 == salt) with
    | some e => e.2.2
    | none => sha256 (pw ++ salt)
  verify pk msg sig := d.sigs.any (fun e => e.1 == pk && e.2.1 == msg && e.2.2 == sig)

def hx (s : String) : Bytes := (ofHex s).getD []

def decCmd (C : Crypto) (ty : String) (bs : Bytes) : String :=
  let fin {α : Type} (c : Codec α) (idf : α → Option Bytes) : String :=
    match c.dec bs with
    | none => "err"
    | some (a, r) =>
      let used := bs.length - r.length
      s!"ok {used} {hexOr (c.enc a)}" ++ (match idf a with | some i => " " ++ toHex i | none => "")
  match ty with
  | "outref" => fin OutRef.codec (fun _ => none)
  | "sig" => fin Sig.codec (fun _ => none)
  | "pk" => fin pkCodec (fun _ => none)
  | "input" => fin Input.codec (fun _ => none)
  | "output" => fin Output.codec (fun _ => none)
  | "evidence" => fin Evidence.codec (fun _ => none)
  | "summary" => fin Summary.codec (fun s => some (C.sha256d (encSummary s)))
  | "header" => fin Header.codec (fun h => some (C.sha256d (encHeader h)))
  | "tx" =>
    match decTx C.sha256d bs with
    | none => "err"
    | some (t, r) => s!"ok {bs.length - r.length} {hexOr (encTx t.tx)} {toHex (t.id C)}"
  | "block" =>
    match decBlock C.sha256d bs with
    | none => "err"
    | some (b, r) =>
      let txids := String.intercalate "," (b.txs.map fun t => toHex (t.id C))
      s!"ok {bs.length - r.length} {hexOr (encBlock b)} {toHex (b.id C)} {txids}"
  | "msg" =>
    match decodeFrame bs with
    | none => "err"
    | some (h, m) => s!"ok {hexOr (encodeFrame h m)}"
  | _ => "bad-op"

def errName : FErr → String
  | .magic => "magic"
  | .tooBig => "toobig"
  | .handler => "handler"

def framesCmd (maxSize : Nat) (chunks : List Bytes) : String :=
  let r := feedAll magicBytes maxSize (fun p => (decodeFrame p).isNone) RState.init chunks
  let ps := String.intercalate "," (r.payloads.map hexOr)
  let e := match r.err with | none => "none" | some e => errName e
  s!"{if ps.isEmpty then "." else ps} {e}"

/-! ### canonical digests of a chain state (DESIGN §3.2) -/

def sortBytes (l : List Bytes) : List Bytes := l.mergeSort (fun a b => !(bytesLt b a))

def short (b : Bytes) : String := toHex (b.take 8)

def utxoDigest (u : Utxo) : String :=
  let rows := sortBytes (u.map fun (r, o) => r.hash ++ natToBytes 4 r.index ++ natToBytes 8 o.value ++ o.pk)
  short (sha256 rows.flatten)

def indexDigest (C : Crypto) (m : Map Nat Block) : String :=
  let rows := sortBytes (m.map fun (h, b) => natToBytes 8 h ++ b.id C)
  short (sha256 rows.flatten)

def balanceDigest (p : PKBalances) : String :=
  let rows := sortBytes (p.map fun (k, bal) =>
    k ++ (toString bal.value).toUTF8.toList ++ [59] ++ (bal.refs.flatMap fun r => r.hash ++ natToBytes 4 r.index))
  short (sha256 rows.flatten)

def stateDigest (C : Crypto) (cs : CoinState) (full : Bool) : String :=
  let head := match cs.current with | some h => toHex h | none => "none"
  let tips := String.intercalate "," ((sortBytes cs.heads.keys).map toHex)
  let ids := sortBytes cs.blocks.keys
  let per := ids.map fun id =>
    let u := match cs.utxoAt.get? id with | some u => utxoDigest u | none => "missing"
    let ix := match cs.byHeightAt.get? id with | some m => indexDigest C m | none => "missing"
    let bal := if full then (match balancesAt C cs id with | .ok p => balanceDigest p | .error _ => "error") else "-"
    s!"{short id}:{u}:{ix}:{bal}"
  s!"head={head} tips={tips} n={ids.length} " ++ String.intercalate "|" per

def errKind : Err → String
  | .validation _ => "validation"
  | .range _ => "range"
  | .key _ => "key"
  | .decode => "decode"
  | .other _ => "other"

def setParam (p : Params) (name : String) (v : Int) : Option Params :=
  let n := v.toNat
  match name with
  | "ibdValidationSkip" => some { p with ibdValidationSkip := n }
  | "retargetInterval" => some { p with retargetInterval := n }
  | "halvingInterval" => some { p with halvingInterval := n }
  | "retargetTimespan" => some { p with retargetTimespan := n }
  | "maxKnownHeight" => some { p with maxKnownHeight := v }
  | "maxBlockSize" => some { p with maxBlockSize := n }
  | "inventorySize" => some { p with inventorySize := n }
  | "maxFutureBlockTime" => some { p with maxFutureBlockTime := n }
  | "maxConnectionAttempts" => some { p with maxConnectionAttempts := n }
  | _ => none

def DState.getState (d : DState) (name : String) : CoinState :=
  match d.states.find? (·.1 == name) with
  | some (_, cs) => cs
  | none => CoinState.empty

def DState.putState (d : DState) (name : String) (cs : CoinState) : DState :=
  { d with states := (name, cs) :: d.states.filter (·.1 != name) }

/-- every single-bit flip and every truncation of a block's encoding: which decode, which are
accepted by full validation against the state -/
def flipsCmd (C : Crypto) (P : Params) (cs : CoinState) (bs : Bytes) (now : Int) : String :=
  let arr := bs.toArray
  let classify (m : Bytes) : Char :=
    match Block.ofBytes C m with
    | none => 'u'
    | some b => match addBlock C P cs b now with
      | .ok _ => 'a'
      | .error _ => 'r'
  let flipAt (i : Nat) : Bytes :=
    (arr.modify (i / 8) fun x => x ^^^ ((1 : UInt8) <<< (UInt8.ofNat (i % 8)))).toList
  let cls := (List.range (8 * arr.size)).map fun i => classify (flipAt i)
  let tcls := (List.range arr.size).map fun n => classify (bs.take n)
  let acc := (List.range (8 * arr.size)).zip cls |>.filter (·.2 == 'a') |>.map (toString ·.1)
  let tacc := (List.range arr.size).zip tcls |>.filter (·.2 != 'u') |>.map (toString ·.1)
  let dec := (cls.filter (· != 'u')).length
  s!"dec={dec} acc={if acc.isEmpty then "-" else String.intercalate "," acc} " ++
  s!"tdec={if tacc.isEmpty then "-" else String.intercalate "," tacc} dd={short (sha256 (String.ofList cls).toUTF8.toList)}"

/-! ### node observables -/

def outKind (C : Crypto) : Out → String
  | .block b r => s!"B:{short (b.id C)}:{if r = 0 then 0 else 1}"
  | .tx t => s!"T:{short (t.id C)}"
  | .inventory ids _ => s!"INV:{ids.length}"
  | .getData id => s!"GD:{short id}"
  | .getBlocks l => s!"GB:{l.length}"
  | .hello => "HELLO"
  | .getPeers => "GP"
  | .peers => "PEERS"

def nodeDigest (C : Crypto) (n : Node) : String :=
  let pool := String.intercalate "," (n.mgr.pool.map fun t => short (t.id C))
  let wbuf := String.intercalate "," (n.wbuf.map fun b => short (b.id C))
  let disk := String.intercalate "," ((sortBytes (n.disk.map (·.id C))).map short)
  let lv := match n.mgr.lastValid with
    | some cs => (match cs.current with | some h => short h | none => "none")
    | none => "none"
  let peers := String.intercalate ";" (n.peers.map fun p =>
    s!"{if p.open_ then 1 else 0}{if p.helloReceived then 1 else 0}[" ++
      String.intercalate "," (p.outbox.map (outKind C)) ++ "]")
  s!"{stateDigest C n.mgr.coinstate false} lv={lv} pool={pool} wbuf={wbuf} disk={disk} peers={peers}"

/-- a decoded wire message as the handlers see it (objects built by the decoders) -/
def toInMsg (C : Crypto) : Msg → Option InMsg
  | .hello h => some (.hello h.nonce h.myPort)
  | .getBlocks s _ => some (.getBlocks s)
  | .inventory items => some (.inventory (items.map (·.hash)))
  | .getData t h => some (.getData t h)
  | .data (.block bc) => (Block.ofBytes C (BlockC.codec.enc bc)).map .dataBlock
  | .data (.tx t) => (decTx C.sha256d (Tx.codec.enc t)).map fun x => .dataTx x.1
  | .data (.header _) => some .dataHeader
  | .getPeers => some .getPeers
  | .peers _ => some .peers

/-- bytes read on connection `c`: framing, decoding, dispatch, catch-all -/
def nodeBytes (d : DState) (C : Crypto) (c : Nat) (data : Bytes) (now : Int) : DState × String :=
  let n := d.node
  match n.peers[c]? with
  | none => (d, "bad-op")
  | some p =>
    if !p.open_ then (d, "closed")
    else
      let st := (d.recv[c]?).getD RState.init
      let r := feed magicBytes d.params.maxMessageSize (fun pl => (decodeFrame pl).isNone) st data
      -- handle the extracted payloads in order; stop at the first exception
      let rec go (n : Node) : List Bytes → Node × Bool
        | [] => (n, true)
        | pl :: rest =>
          match decodeFrame pl with
          | none => (handleEvent C d.params n c .undecodable now, false)
          | some (h, m) =>
            match toInMsg C m with
            | none => (handleEvent C d.params n c .undecodable now, false)
            | some im =>
              let n' := handleEvent C d.params n c (.msg h.id h.inResponseTo im) now
              match n'.peers[c]? with
              | some p' => if p'.open_ then go n' rest else (n', false)
              | none => (n', false)
      let (n₁, alive) := go n r.payloads
      let n₂ := if alive then
          (match r.err with
            | none => n₁
            | some .handler => handleEvent C d.params n₁ c .undecodable now
            | some _ => handleEvent C d.params n₁ c .badFrame now)
        else n₁
      let recv' := (List.range (max d.recv.length (c + 1))).map fun i =>
        if i = c then r.st else (d.recv[i]?).getD RState.init
      ({ d with node := n₂, recv := recv' }, "ok")

def nodeStep (d : DState) (C : Crypto) (args : List String) : DState × String :=
  let n := d.node
  match args with
  | ["new", st, nonce] =>
    let cs := d.getState st
    let disk := cs.blocks.values.reverse
    ({ d with node := ⟨⟨cs, [], some cs⟩, [], disk, [], nonce.toNat!⟩ }, "ok")
  | ["peer", act, outg] =>
    let a := act == "1"
    ({ d with node := { n with peers := n.peers ++ [⟨true, outg == "1", a, a, [], false, []⟩] } }, "ok")
  | ["block", c, r, blk, now] =>
    (match Block.ofBytes C (hx blk), c.toNat?, r.toNat?, now.toInt? with
      | some b, some c, some r, some t =>
        let (n', e) := handleBlockReceived C d.params n c r b t
        ({ d with node := n' }, match e with | none => "ret" | some _ => "exc")
      | _, _, _, _ => (d, "bad-op"))
  | ["tx", _c, txh] =>
    (match decTx C.sha256d (hx txh) with
      | some (t, _) =>
        let (n', e) := handleTxReceived C d.params n t
        ({ d with node := n' }, match e with | none => "ret" | some _ => "exc")
      | none => (d, "bad-op"))
  | ["setstate", st, v] =>
    ({ d with node := { n with mgr := setCoinstate C n.mgr (d.getState st) (v == "1") } }, "ok")
  | ["getstate", st] => (d.putState st n.mgr.coinstate, "ok")
  | ["cand", pk, clock, nonce] =>
    (match clock.toNat?, nonce.toNat? with
      | some cl, some nc =>
        (match minerCandidate C d.params n.mgr (hx pk) cl nc with
          | .ok (s, h, txs) =>
            ({ d with cand := some (n.mgr.coinstate, s, h, txs) },
              s!"ok {toHex (encSummary s)} {h} " ++ String.intercalate "," (txs.map fun t => short (t.id C)))
          | .error e => (d, "err " ++ errKind e))
      | _, _ => (d, "bad-op"))
  | ["refresh"] =>
    -- another miner's request refreshes the watcher's shared chain state; the stored candidate stays as it was
    (match d.cand with
      | some (_, s, h, txs) => ({ d with cand := some (n.mgr.coinstate, s, h, txs) }, "ok")
      | none => (d, "bad-op"))
  | ["found", sh, now] =>
    (match d.cand, now.toInt? with
      | some (cs, s, h, txs), some t =>
        let ((n', e), b) := minerFound C d.params n cs s h txs (hx sh) t
        ({ d with node := n' },
          (match e with | none => "ret" | some _ => "exc") ++ " " ++
          (match b with | some b => toHex (encBlock b) | none => "nosolution"))
      | _, _ => (d, "bad-op"))
  | ["bytes", c, data, now] =>
    (match c.toNat?, now.toInt? with
      | some c, some t => nodeBytes d C c (hx data) t
      | _, _ => (d, "bad-op"))
  | ["hello", c] =>
    (match c.toNat? with
      | some c => ({ d with node := n.updatePeer c fun p => { p with helloSent := true, helloReceived := true } }, "ok")
      | none => (d, "bad-op"))
  | ["locator"] =>
    (d, match locator C n.mgr.coinstate with
      | .ok ids => "ok " ++ String.intercalate "," (ids.map short)
      | .error e => "err " ++ errKind e)
  | "invreply" :: ids =>
    (d, match inventoryReply C d.params n.mgr.coinstate (ids.map hx) with
      | .ok out => "ok " ++ String.intercalate "," (out.map short)
      | .error e => "err " ++ errKind e)
  | "walk" :: fuel :: ids =>
    (d, match C10Walk.walk C d.params n.mgr.coinstate fuel.toNat! (ids.map hx) with
      | .ok out => "ok " ++ String.intercalate "," (out.map short)
      | .error e => "err " ++ errKind e)
  | "sync" :: st :: fuel :: now :: ids =>
    -- the node's state is the server's; the requester is a fresh node over the named state with one greeted connection
    (match now.toInt? with
      | some t =>
        let req := d.getState st
        let rnode : Node := ⟨⟨req, [], some req⟩, [], [], [⟨true, false, true, true, [], false, []⟩], 0⟩
        let out := C10Converge.syncRun C d.params n.mgr.coinstate 0 t fuel.toNat! rnode (ids.map hx)
        (d, match out.mgr.coinstate.head with
          | some hd => s!"ok head={short (hd.id C)} height={hd.height} stored={out.mgr.coinstate.blocks.length} buffered={out.wbuf.length}"
          | none => "err nohead")
      | none => (d, "bad-op"))
  | ["digest"] => (d, nodeDigest C n)
  | _ => (d, "bad-op")

/-! ### the fetch scheduler (`ChainManager.step`) -/

def fetchLine (n : Node) (f : FetchSt) : String :=
  let fl := String.intercalate "," (f.fetching.map fun e => s!"{e.1}:{e.2}")
  let w := String.join (n.peers.map fun p => if p.waitingForInventory then "1" else "0")
  s!"fetching={fl} waiting={w}"

def fetchStep (d : DState) (C : Crypto) (args : List String) : DState × String :=
  let n := d.node
  let f := d.fetch
  match args with
  | ["new", startedAt] =>
    (match startedAt.toInt? with
      | some t => ({ d with fetch := ⟨t, fun _ => 0, []⟩ }, "ok")
      | none => (d, "bad-op"))
  | ["param", name, v] =>
    (match v.toNat? with
      | some k =>
        let F := d.fparams
        (match name with
          | "maxIbdPeers" => ({ d with fparams := { F with maxIbdPeers := k } }, "ok")
          | "ibdPeerTimeout" => ({ d with fparams := { F with ibdPeerTimeout := k } }, "ok")
          | "switchToActive" => ({ d with fparams := { F with switchToActive := k } }, "ok")
          | "emptyBackoff" => ({ d with fparams := { F with emptyBackoff := k } }, "ok")
          | _ => (d, "bad-op"))
      | none => (d, "bad-op"))
  | ["peer", c, waiting, npending, lastEmpty] =>
    (match c.toNat?, npending.toNat?, lastEmpty.toInt? with
      | some c, some k, some t =>
        let n' := n.updatePeer c fun p =>
          { p with waitingForInventory := waiting == "1", pendingInventory := List.replicate k [0] }
        ({ d with node := n', fetch := noteEmptyInventory f c t }, "ok")
      | _, _, _ => (d, "bad-op"))
  | ["emptyinv", c, now] =>
    (match c.toNat?, now.toInt? with
      | some c, some t =>
        let (n', e) := handleMessage C d.params n c 1 1 (.inventory []) t
        (match e with
          | none => ({ d with node := n', fetch := noteEmptyInventory f c t }, "ret " ++ fetchLine n' (noteEmptyInventory f c t))
          | some _ => ({ d with node := n' }, "exc"))
      | _, _ => (d, "bad-op"))
  | ["step", now, pick] =>
    (match now.toInt?, pick.toNat? with
      | some t, some k =>
        (match chainStep C d.fparams n f t k with
          | .ok (n', f') =>
            let grown := (List.range n'.peers.length).filter fun c =>
              match n.peers[c]?, n'.peers[c]? with
              | some p, some p' => p'.outbox.length > p.outbox.length
              | _, _ => false
            let sent := String.intercalate ";" (grown.map fun c =>
              match n'.peers[c]? with
              | some p' => (match p'.outbox.getLast? with
                  | some (.getBlocks loc) => s!"{c}<-GB:" ++ String.intercalate "," (loc.map short)
                  | _ => s!"{c}<-other")
              | none => "")
            ({ d with node := n', fetch := f' }, s!"ok sent={sent} " ++ fetchLine n' f')
          | .error e => (d, "err " ++ errKind e))
      | _, _ => (d, "bad-op"))
  | _ => (d, "bad-op")

/-! ### wallet and peer book -/

def sortStrings (l : List String) : List String := l.mergeSort (fun a b => a ≤ b)

def refStr (r : OutRef) : String := s!"{toHex r.hash}:{r.index}"

def walletDigest (w : Wallet) : String :=
  let kp := sortStrings (w.keypairs.map fun (k, v) => s!"{short k}:{short v}")
  let an := sortStrings (w.annotations.map fun (k, a) => s!"{short k}:{a}")
  let sp := sortStrings (w.spent.map refStr)
  s!"keys={String.intercalate "," kp} unused={String.intercalate "," (w.unused.map short)} " ++
  s!"ann={String.intercalate "," an} spent={String.intercalate "," sp}"

def walletStep (d : DState) (C : Crypto) (args : List String) : DState × String :=
  let w := d.wallet
  match args with
  | ["new"] => ({ d with wallet := Wallet.empty }, "ok")
  | ["addkey", pk, sk] => ({ d with wallet := w.addKey (hx pk) (hx sk) }, "ok")
  | ["handout", ann, choice] =>
    (match w.handOut (if ann == "EMPTY" then "" else ann) choice.toNat! with
      | some (w', pk) => ({ d with wallet := w' }, "ok " ++ toHex pk)
      | none => (d, "err"))
  | ["restore", pk] =>
    (match w.restore (hx pk) with
      | some w' => ({ d with wallet := w' }, "ok")
      | none => (d, "err"))
  | ["saveload"] =>
    (match Wallet.load w.dump with
      | some w' => ({ d with wallet := w' }, "ok")
      | none => (d, "err"))
  | ["balance", st] =>
    let cs := d.getState st
    (d, match cs.current with
      | some h => (match balancesAt C cs h with
        | .ok bal => toString (w.balance bal)
        | .error _ => "err")
      | none => "0")
  | ["spend", st, amount, fee, recipient, change] =>
    let cs := d.getState st
    (match cs.current, headUtxo cs with
      | some h, some u =>
        (match balancesAt C cs h with
          | .error _ => (d, "err balances")
          | .ok bal =>
            match w.planSpend u bal amount.toNat! fee.toNat! (hx recipient) (hx change) with
            | .error (.other m) => (d, "err " ++ (if m.startsWith "Insufficient" then "insufficient" else "other"))
            | .error e => (d, "err " ++ errKind e)
            | .ok (chosen, unsigned) =>
              match w.createSpend u bal amount.toNat! fee.toNat! (hx recipient) (hx change)
                  (chosen.map fun _ => zeros 64) with
              | .error e => (d, "err sign " ++ errKind e)
              | .ok (w', _) =>
                ({ d with wallet := w' },
                  "ok refs=" ++ String.intercalate "," (chosen.map fun (r, _) => refStr r) ++
                  " outs=" ++ String.intercalate "," (unsigned.outputs.map fun o => s!"{o.value}:{short o.pk}") ++
                  " msg=" ++ toHex (encTx unsigned) ++
                  " signers=" ++ String.intercalate "," (chosen.map fun (_, o) => toHex o.pk)))
      | _, _ => (d, "err head"))
  | ["digest"] => (d, walletDigest w)
  | _ => (d, "bad-op")

def keyStr (k : PeerKey) : String := s!"{k.host}:{k.port}:{if k.outgoing then "O" else "I"}"

def optInt : Option Int → String
  | some t => toString t
  | none => "-"

def bookDigest (b : Book) : String :=
  let conn := sortStrings (b.connected.map fun (k, p) =>
    s!"{keyStr k}:{p.banScore}:{optInt p.lastAttempt}:{if p.helloReceived then 1 else 0}")
  let disc := sortStrings (b.disconnected.map fun (k, p) => s!"{keyStr k}:{p.banScore}:{optInt p.lastAttempt}")
  let my := sortStrings (b.myAddresses.map fun (h, p) => s!"{h}:{p}")
  -- attempts made in one manager step are canonically ordered by address (dict order is not observed)
  let att := (b.attempts.reverse.mergeSort fun (k₁, t₁, _) (k₂, t₂, _) => t₁ < t₂ || (t₁ == t₂ && keyStr k₁ ≤ keyStr k₂)).map
    fun (k, t, ban) => s!"{keyStr k}@{t}/{ban}"
  s!"conn={String.intercalate "," conn} disc={String.intercalate "," disc} my={String.intercalate "," my} " ++
  s!"att={String.intercalate "," att} insane={b.insane}"

def parseAddr (s : String) : Option (String × Nat) :=
  match s.splitOn "/" with
  | [h, p] => p.toNat?.map fun n => (h, n)
  | _ => none

def bookStep (d : DState) (args : List String) : DState × String :=
  let b := d.book
  let P := d.params
  match args with
  | ["new"] => ({ d with book := Book.empty }, "ok")
  | ["add", host, port] =>
    ({ d with book := { b with disconnected := b.disconnected.set ⟨host, port.toNat!, true⟩ ⟨none, 0⟩ } }, "ok")
  | ["ttc", ban, last, now] =>
    -- `is_time_to_connect` on a waiting peer with this failure count and last attempt ("-" = never)
    (d, if isTimeToConnect P ban.toNat! (if last == "-" then none else last.toInt?) now.toInt! then "1" else "0")
  | ["step", now] => ({ d with book := Book.apply P b (.step now.toInt!) }, "ok")
  | ["incoming", host, port] => ({ d with book := Book.apply P b (.incoming host port.toNat!) }, "ok")
  | ["hello", host, port, outg, mine, myPort] =>
    ({ d with book := Book.apply P b (.hello ⟨host, port.toNat!, outg == "1"⟩ (mine == "1") myPort.toNat!) }, "ok")
  | "peers" :: addrs => ({ d with book := Book.apply P b (.peers (addrs.filterMap parseAddr)) }, "ok")
  | ["close", host, port, outg] =>
    ({ d with book := Book.apply P b (.close ⟨host, port.toNat!, outg == "1"⟩) }, "ok")
  | ["digest"] => (d, bookDigest b)
  | _ => (d, "bad-op")

def storeStep (d : DState) (C : Crypto) (args : List String) : DState × String :=
  match args with
  | ["new"] => ({ d with store := Store.empty }, "ok")
  | "write" :: blks =>
    (match blks.mapM fun h => Block.ofBytes C (hx h) with
      | some bs =>
        let (s', okFlag) := d.store.write C bs
        ({ d with store := s' }, if okFlag then "ok" else "fail")
      | none => (d, "bad-op"))
  | ["read"] =>
    let blocks := d.store.read
    let rows := blocks.map fun b =>
      (natToBytes 8 b.height ++ b.id C,
       s!"{b.height}:{short (b.id C)}:{short (sha256 (encBlock b))}:" ++ String.intercalate "+" (b.txs.map fun t => short (t.id C)))
    let sorted := rows.mergeSort fun a b => !(bytesLt b.1 a.1)
    (d, s!"n={blocks.length} " ++ String.intercalate "," (sorted.map (·.2)))
  | _ => (d, "bad-op")

def step (d : DState) (line : String) : DState × String :=
  let C := d.crypto
  match (line.trimAscii.toString.splitOn " ").filter (· ≠ "") with
  | ["vlqenc", n] => (d, match n.toNat? with | some k => toHex (encodeVlq k) | none => "bad-op")
  | ["vlqdec", h] =>
    (d, match decodeVlq (hx h) with
      | some (v, r) => s!"ok {v} {(hx h).length - r.length}"
      | none => "err")
  | ["dec", ty, h] => (d, decCmd C ty (hx h))
  | ["sha256d", h] => (d, toHex (sha256d (hx h)))
  | ["blake2", h] => (d, toHex (blake2b32 (hx h)))
  | ["subsidy", n] => (d, match n.toNat? with | some k => toString (subsidy d.params k) | none => "bad-op")
  | "frames" :: ms :: chunks =>
    (d, match ms.toNat? with
      | some m => framesCmd m (chunks.map hx)
      | none => "bad-op")
  | "mroot" :: items =>
    (d, match merkleRoot sha256d (items.map hx) with
      | some r => toHex r
      | none => "none")
  | "mproof" :: i :: items =>
    (d, match i.toNat?, merkleTree (items.map hx) with
      | some k, some t =>
        let p := getProof sha256d t k
        toHex (p.hash sha256d) ++ " " ++ String.intercalate "," (p.leaves.map fun (ix, v) => s!"{ix}:{toHex v}")
      | _, _ => "none")
  | ["chk", h, id] =>
    (d, match h.toNat? with
      | some k =>
        let b : Block := ⟨⟨⟨k, zeros 32, zeros 32, 0, zeros 32, 0⟩, ⟨zeros 32, zeros 32, zeros 32⟩⟩, [], some (hx id)⟩
        match validateBlockInState C d.params CoinState.empty b with
        | .ok _ => "ok"
        | .error e => "rej " ++ errKind e
      | none => "bad-op")
  | ["flips", name, blk, now] =>
    (d, match now.toInt? with
      | some t => flipsCmd C d.params (d.getState name) (hx blk) t
      | none => "bad-op")
  | "node" :: args => nodeStep d C args
  | "fetch" :: args => fetchStep d C args
  | "w" :: args => walletStep d C args
  | "book" :: args => bookStep d args
  | "store" :: args => storeStep d C args
  | ["p", name, v] =>
    (match v.toInt? with
      | some k => (match setParam d.params name k with
        | some p => ({ d with params := p }, "ok")
        | none => (d, "bad-op"))
      | none => (d, "bad-op"))
  | ["known", h, id] =>
    (match h.toNat? with
      | some k => ({ d with params := { d.params with knownHashes := (k, hx id) :: d.params.knownHashes } }, "ok")
      | none => (d, "bad-op"))
  | ["sig", pk, msg, sg] => ({ d with sigs := (hx pk, hx msg, hx sg) :: d.sigs }, "ok")
  | ["scrypt", pw, salt, o] => ({ d with scrypts := (hx pw, hx salt, hx o) :: d.scrypts }, "ok")
  | ["new", name] => (d.putState name CoinState.empty, "ok")
  | ["copy", dst, src] => (d.putState dst (d.getState src), "ok")
  | ["sethead", dst, src, id] => (d.putState dst { d.getState src with current := some (hx id) }, "ok")
  | ["addnv", dst, src, blk] =>
    (match Block.ofBytes C (hx blk) with
      | none => (d, "err decode")
      | some b =>
        match addBlockNoValidation C (d.getState src) b with
        | .ok cs => (d.putState dst cs, "ok")
        | .error e => (d, "err " ++ errKind e))
  | ["cbchk", name, blk] =>
    (d, match Block.ofBytes C (hx blk) with
      | none => "rej decode"
      | some b =>
        match b.txs with
        | [] => "rej key"
        | cb :: _ =>
          match validateCoinbaseInState d.params (d.getState name) cb b with
          | .ok _ => "ok"
          | .error e => "rej " ++ errKind e)
  | ["add", dst, src, blk, now] =>
    (match Block.ofBytes C (hx blk), now.toInt? with
      | some b, some t =>
        match addBlock C d.params (d.getState src) b t with
        | .ok cs => (d.putState dst cs, "ok")
        | .error e => (d, "rej " ++ errKind e)
      | none, _ => (d, "rej decode")
      | _, none => (d, "bad-op"))
  | ["digest", name, mode] => (d, stateDigest C (d.getState name) (mode == "full"))
  | _ => (d, "bad-op")

partial def loop (h : IO.FS.Stream) (out : IO.FS.Stream) (d : DState) : IO Unit := do
  let line ← h.getLine
  if line.isEmpty then return ()
  let (d', o) := step d line
  out.putStrLn o
  if line.trimAscii.toString == "flush" then out.flush
  loop h out d'

def main : IO Unit := do
  let out ← IO.getStdout
  loop (← IO.getStdin) out { params := defaultParams, sigs := [], scrypts := [], states := [] }
  out.flush

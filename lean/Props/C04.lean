import Model.Spec

/-!
# C04 — fork choice: the head is the first-seen block of greatest total work (height)

`foldBlocks C .empty bs = .ok s`: the blocks of `bs` arrived in that order through
`CoinState.add_block_no_validation` and none of the additions raised.
-/

namespace Model
namespace C04

variable (C : Crypto)

/-- every arrived block is stored under its id, and nothing else is -/
theorem blocks_are_history (bs : List Block) (s : CoinState) (hwf : WFArrivals C bs)
    (hf : foldBlocks C .empty bs = .ok s) (id : Bytes) (b : Block) :
    s.blocks.get? id = some b ↔ (b ∈ bs ∧ b.id C = id) := by
  sorry

/-- the active head is the earliest-arrived block among those of greatest height -/
theorem head_is_first_max (bs : List Block) (s : CoinState) (hwf : WFArrivals C bs)
    (hf : foldBlocks C .empty bs = .ok s) :
    s.current = (firstMax bs).map (·.id C) := by
  sorry

/-- so the head never switches between equally good tips: a block that is not higher than the
current head and does not extend it leaves the head where it is -/
theorem head_stable_on_ties (cs cs' : CoinState) (b hd : Block) (c : Bytes)
    (hc : cs.current = some c) (hh : cs.blocks.get? c = some hd) (hne : c ≠ b.prev)
    (hle : b.height ≤ hd.height) (ha : addBlockNoValidation C cs b = .ok cs') :
    cs'.current = some c := by
  sorry

/-- the reported tips are exactly the stored blocks without stored children -/
theorem heads_are_leaves (bs : List Block) (s : CoinState) (hwf : WFArrivals C bs)
    (hf : foldBlocks C .empty bs = .ok s) (id : Bytes) :
    s.heads.contains id = true ↔ (∃ b ∈ bs, b.id C = id ∧ ∀ c ∈ bs, c.prev ≠ id) := by
  sorry

/-- the by-height index at every block lists exactly that block's ancestors and itself -/
theorem index_is_ancestors (bs : List Block) (s : CoinState) (hwf : WFArrivals C bs)
    (hf : foldBlocks C .empty bs = .ok s) (b : Block) (hb : b ∈ bs) (h : Nat) (a : Block) :
    ((s.byHeightAt.get? (b.id C)).bind (·.get? h) = some a) ↔
      (a ∈ chainOf C bs bs.length b ∧ a.height = h) := by
  sorry

end C04
end Model

import Model.Spec
import Proofs.Map
import Proofs.Chain

/-!
# C04 — fork choice: the head is the first-seen block of greatest total work (height)

`foldBlocks C .empty bs = .ok s`: the blocks of `bs` arrived in that order through
`CoinState.add_block_no_validation` and none of the additions raised.
-/

namespace Model
namespace C04

variable (C : Crypto)

/-- every arrived block is stored under its id, and nothing else is -/
theorem blocks_are_history (bs : List Block) (s : CoinState) (hwf : WFArrivals C bs)
    (hf : foldBlocks C .empty bs = .ok s) (id : Bytes) (b : Block) :
    s.blocks.get? id = some b ↔ (b ∈ bs ∧ b.id C = id) := by
  induction hwf generalizing s with
  | genesis g h1 h2 h3 =>
    obtain ⟨hb, -⟩ := add_ok_inv C (foldBlocks_single_ok C hf)
    rw [hb, Map.get?_set]
    simp only [CoinState.empty, Map.get?_nil, List.mem_singleton]
    by_cases hid : g.id C = id
    · simp only [hid, ↓reduceIte, Option.some.injEq]
      constructor
      · intro h; subst h; exact ⟨rfl, hid⟩
      · intro h; exact h.1.symm
    · simp only [hid, ↓reduceIte, reduceCtorEq, false_iff]
      rintro ⟨h, h'⟩; subst h; exact hid h'
  | snoc bs x p hwf hp hprev hht hnz hfresh ih =>
    obtain ⟨s₀, hf₀, ha⟩ := foldBlocks_snoc_ok C hf
    obtain ⟨hb, -⟩ := add_ok_inv C ha
    rw [hb, Map.get?_set]
    simp only [List.mem_append, List.mem_singleton]
    by_cases hid : x.id C = id
    · simp only [hid, ↓reduceIte, Option.some.injEq]
      constructor
      · intro h; subst h; exact ⟨Or.inr rfl, hid⟩
      · rintro ⟨h | h, h'⟩
        · exact absurd (h'.trans hid.symm) (hfresh b h)
        · exact h.symm
    · simp only [hid, ↓reduceIte]
      rw [ih s₀ hf₀]
      constructor
      · rintro ⟨h, h'⟩; exact ⟨Or.inl h, h'⟩
      · rintro ⟨h | h, h'⟩
        · exact ⟨h, h'⟩
        · subst h; exact absurd h' hid

/-- the active head is the earliest-arrived block among those of greatest height -/
theorem head_is_first_max (bs : List Block) (s : CoinState) (hwf : WFArrivals C bs)
    (hf : foldBlocks C .empty bs = .ok s) :
    s.current = (firstMax bs).map (·.id C) := by
  induction hwf generalizing s with
  | genesis g h1 h2 h3 =>
    obtain ⟨-, -, -, -, hc, -⟩ := add_ok_inv C (foldBlocks_single_ok C hf)
    rw [hc rfl]; rfl
  | snoc bs x p hwf hp hprev hht hnz hfresh ih =>
    obtain ⟨s₀, hf₀, ha⟩ := foldBlocks_snoc_ok C hf
    obtain ⟨-, -, -, -, -, hc1, hc2⟩ := add_ok_inv C ha
    have F := hwf.facts C
    have hcur := ih s₀ hf₀
    rw [firstMax_snoc]
    cases hm : firstMax bs with
    | none => exact absurd hm (firstMax_ne_none F.ne)
    | some m =>
      have hmem := firstMax_mem hm
      rw [hm] at hcur
      simp only [Option.map_some] at hcur
      have hget : s₀.blocks.get? (m.id C) = some m :=
        (blocks_are_history C bs s₀ hwf hf₀ (m.id C) m).2 ⟨hmem, rfl⟩
      by_cases hmp : m.id C = x.prev
      · rw [hc1 _ hcur hmp]
        have : m = p := F.inj m hmem p hp (hmp.trans hprev)
        subst this
        have : x.height > m.height := by omega
        simp only [this, ↓reduceIte, Option.map_some]
      · obtain ⟨cb, hcb, hc⟩ := hc2 _ hcur hmp
        rw [hget] at hcb
        simp only [Option.some.injEq] at hcb
        subst hcb
        rw [hc]
        by_cases hgt : x.height > m.height <;> simp only [hgt, ↓reduceIte, Option.map_some]

/-- so the head never switches between equally good tips: a block that is not higher than the
current head and does not extend it leaves the head where it is -/
theorem head_stable_on_ties (cs cs' : CoinState) (b hd : Block) (c : Bytes)
    (hc : cs.current = some c) (hh : cs.blocks.get? c = some hd) (hne : c ≠ b.prev)
    (hle : b.height ≤ hd.height) (ha : addBlockNoValidation C cs b = .ok cs') :
    cs'.current = some c := by
  obtain ⟨-, -, -, -, -, -, hc2⟩ := add_ok_inv C ha
  obtain ⟨cb, hcb, hcur⟩ := hc2 c hc hne
  rw [hh] at hcb
  simp only [Option.some.injEq] at hcb
  subst hcb
  have : ¬ b.height > hd.height := by omega
  rw [hcur]
  simp only [this, ↓reduceIte]

/-- the reported tips are exactly the stored blocks without stored children -/
theorem heads_are_leaves (bs : List Block) (s : CoinState) (hwf : WFArrivals C bs)
    (hf : foldBlocks C .empty bs = .ok s) (id : Bytes) :
    s.heads.contains id = true ↔ (∃ b ∈ bs, b.id C = id ∧ ∀ c ∈ bs, c.prev ≠ id) := by
  induction hwf generalizing s with
  | genesis g h1 h2 h3 =>
    obtain ⟨-, hh, -⟩ := add_ok_inv C (foldBlocks_single_ok C hf)
    rw [hh, Map.contains_set, Map.contains_ite_erase]
    simp only [CoinState.empty, Map.contains_nil, Bool.and_false, Bool.or_false,
      decide_eq_true_eq, List.mem_singleton, exists_eq_left, forall_eq]
    constructor
    · intro h; refine ⟨h, ?_⟩; rw [h1, ← h]; exact h3.symm
    · intro h; exact h.1
  | snoc bs x p hwf hp hprev hht hnz hfresh ih =>
    obtain ⟨s₀, hf₀, ha⟩ := foldBlocks_snoc_ok C hf
    obtain ⟨-, hh, -⟩ := add_ok_inv C ha
    have F := hwf.facts C
    rw [hh, Map.contains_set, Map.contains_ite_erase]
    simp only [Bool.or_eq_true, Bool.and_eq_true, decide_eq_true_eq, ih s₀ hf₀]
    constructor
    · rintro (h | ⟨h, y, hy, hyid, hall⟩)
      · refine ⟨x, List.mem_append_right _ (List.mem_singleton.2 rfl), h, ?_⟩
        intro c hc
        rw [← h]
        rcases List.mem_append.1 hc with hc | hc
        · rcases F.par c hc with ⟨hz, -⟩ | ⟨q, hq, hcq, -⟩
          · rw [hz]; exact hnz.symm
          · rw [hcq]; exact hfresh q hq
        · rw [List.mem_singleton.1 hc, hprev]; exact hfresh p hp
      · refine ⟨y, List.mem_append_left _ hy, hyid, ?_⟩
        intro c hc
        rcases List.mem_append.1 hc with hc | hc
        · exact hall c hc
        · rw [List.mem_singleton.1 hc]; exact fun e => h e.symm
    · rintro ⟨y, hy, hyid, hall⟩
      rcases List.mem_append.1 hy with hy | hy
      · right
        refine ⟨?_, y, hy, hyid, fun c hc => hall c (List.mem_append_left _ hc)⟩
        exact fun e => hall x (List.mem_append_right _ (List.mem_singleton.2 rfl)) e.symm
      · left
        rw [← List.mem_singleton.1 hy]; exact hyid

/-- the by-height index at every block lists exactly that block's ancestors and itself -/
theorem index_is_ancestors (bs : List Block) (s : CoinState) (hwf : WFArrivals C bs)
    (hf : foldBlocks C .empty bs = .ok s) (b : Block) (hb : b ∈ bs) (h : Nat) (a : Block) :
    ((s.byHeightAt.get? (b.id C)).bind (·.get? h) = some a) ↔
      (a ∈ chainOf C bs bs.length b ∧ a.height = h) := by
  induction hwf generalizing s b with
  | genesis g h1 h2 h3 =>
    obtain ⟨-, -, hbh, -⟩ := add_ok_inv C (foldBlocks_single_ok C hf)
    rw [List.mem_singleton.1 hb, hbh h1]
    simp only [Map.get?_cons, ↓reduceIte, Option.bind_some, Map.get?_nil, List.length_singleton,
      chainOf, h1, List.mem_singleton]
    by_cases h0 : 0 = h
    · simp only [h0, ↓reduceIte, Option.some.injEq]
      constructor
      · intro e; subst e; exact ⟨rfl, h0 ▸ h2⟩
      · intro e; exact e.1.symm
    · simp only [h0, ↓reduceIte, reduceCtorEq, false_iff]
      rintro ⟨e, e'⟩; subst e; exact h0 (h2.symm.trans e')
  | snoc bs x p hwf hp hprev hht hnz hfresh ih =>
    obtain ⟨s₀, hf₀, ha⟩ := foldBlocks_snoc_ok C hf
    have F := hwf.facts C
    have hz : x.prev ≠ zeros 32 := by rw [hprev]; exact F.nz p hp
    obtain ⟨-, -, -, hbh, -⟩ := add_ok_inv C ha
    obtain ⟨bh, hbhp, hbh⟩ := hbh hz
    rw [hbh, Map.get?_set]
    rcases List.mem_append.1 hb with hb | hb
    · have hne : x.id C ≠ b.id C := fun e => hfresh b hb e.symm
      simp only [hne, ↓reduceIte]
      rw [chainOf_snoc_old C F x hb]
      exact ih s₀ hf₀ b hb
    · rw [List.mem_singleton.1 hb]
      simp only [↓reduceIte, Option.bind_some]
      rw [chainOf_snoc_new C F hp hprev, Map.get?_set]
      have ihp := ih s₀ hf₀ p hp
      rw [← hprev, hbhp] at ihp
      simp only [Option.bind_some] at ihp
      simp only [List.mem_append, List.mem_singleton]
      by_cases hh : x.height = h
      · simp only [hh, ↓reduceIte, Option.some.injEq]
        constructor
        · intro e; subst e; exact ⟨Or.inr rfl, hh⟩
        · rintro ⟨e | e, e'⟩
          · have := chainOf_height_le C F _ hp e
            omega
          · exact e.symm
      · simp only [hh, ↓reduceIte]
        rw [ihp]
        constructor
        · rintro ⟨e, e'⟩; exact ⟨Or.inl e, e'⟩
        · rintro ⟨e | e, e'⟩
          · exact ⟨e, e'⟩
          · subst e; exact absurd e' hh

/-! ## non-vacuity: the hypotheses `WFArrivals C bs` and `foldBlocks C .empty bs = .ok s` are
satisfiable -/

/-- for every `Crypto` there is a well-formed two-block history (a genesis block and a child,
both carrying cached hashes as blocks read from the wire or the block store do) whose arrivals
all succeed -/
example : ∃ (bs : List Block) (s : CoinState),
    WFArrivals C bs ∧ foldBlocks C .empty bs = .ok s ∧ bs.length = 2 := by
  let cb : CTx := ⟨⟨[], [⟨10, [5]⟩]⟩, some [7]⟩
  let g : Block := ⟨⟨⟨0, zeros 32, [], 0, [], 0⟩, ⟨[], [], []⟩⟩, [cb], some [1]⟩
  let b₁ : Block := ⟨⟨⟨1, [1], [], 0, [], 0⟩, ⟨[], [], []⟩⟩, [cb], some [2]⟩
  have hg : WFArrivals C [g] := .genesis g rfl rfl
    (by show ([1] : Bytes) ≠ zeros 32; decide)
  have hwf : WFArrivals C ([g] ++ [b₁]) :=
    .snoc [g] b₁ g hg (List.mem_singleton.2 rfl) rfl rfl
      (by show ([2] : Bytes) ≠ zeros 32; decide)
      (by intro c hc; rw [List.mem_singleton.1 hc]; show ([1] : Bytes) ≠ [2]; decide)
  exact ⟨[g] ++ [b₁], _, hwf, rfl, rfl⟩

/-- a concrete `Crypto` instance and a genesis block without cached hash -/
example : ∃ (bs : List Block) (s : CoinState),
    WFArrivals ⟨fun _ => [1], fun _ => [], fun _ _ => [], fun _ _ _ => true⟩ bs ∧
    foldBlocks ⟨fun _ => [1], fun _ => [], fun _ _ => [], fun _ _ _ => true⟩ .empty bs = .ok s := by
  let g : Block := ⟨⟨⟨0, zeros 32, [], 0, [], 0⟩, ⟨[], [], []⟩⟩, [⟨⟨[], [⟨10, [5]⟩]⟩, none⟩], none⟩
  exact ⟨[g], _, .genesis g rfl rfl (by decide), rfl⟩

end C04
end Model

import Props.NonVacuity1
import Props.C09Stored

/-!
NonVacuity5 — the hypotheses of `Props/C09Stored.lean` on a concrete node: chain state {G, A} (genesis and one block), both in
the store (a store is created with the genesis in it), the state validated, nothing buffered; the node's miner finds a block.
-/

namespace NonVacuity5
open Model NonVacuity1

theorem contains_mem_keys {ν : Type} : ∀ (m : Map Bytes ν) (k : Bytes), m.contains k = true → k ∈ m.keys
  | [], k, h => by simp [Map.contains, Map.get?] at h
  | (k', v) :: rest, k, h => by
    by_cases hk : k' = k
    · simp [Map.keys, hk]
    · have : Map.contains rest k = true := by
        simpa [Map.contains, Map.get?, hk] using h
      have ih := contains_mem_keys rest k this
      simp only [Map.keys, List.map_cons, List.mem_cons] at ih ⊢
      exact .inr ih

/-- the node of `NonVacuity1` after start-up: its state counts as validated -/
def nS : Node := { n0 with mgr := { m2 with lastValid := some sGA } }

theorem sGA_keys : sGA.blocks.keys = [A.id nvC, G.id nvC] ∨ sGA.blocks.keys = [G.id nvC, A.id nvC] := by decide +kernel

theorem sGA_on_disk (id : Bytes) (h : sGA.blocks.contains id = true) : C09.onDisk nvC nS id := by
  have hk := contains_mem_keys sGA.blocks id h
  have : id = A.id nvC ∨ id = G.id nvC := by
    rcases sGA_keys with e | e <;> rw [e] at hk <;> simp only [List.mem_cons, List.mem_nil_iff, or_false] at hk
    · exact hk
    · exact hk.symm
  rcases this with rfl | rfl
  · exact ⟨A, by decide +kernel, rfl⟩
  · exact ⟨G, by decide +kernel, rfl⟩

/-- `Stored` holds of the started node … -/
theorem nS_stored : C09.Stored nvC nS :=
  ⟨rfl, fun id h => .inl (sGA_on_disk id h), fun lv hlv id h => by
    have : lv = sGA := by
      have : some sGA = some lv := hlv
      exact (Option.some.inj this).symm
    subst this
    exact sGA_on_disk id h⟩

/-- … hence of the node after its miner found the block of `NonVacuity1` (`stored_minerFound`), … -/
example : C09.Stored nvC (minerFound nvC nvP nS sGA cS cH cTxs (summaryHash nvC cS cH) 0).1.1 :=
  C09.stored_minerFound nvC nvP nS sGA cS cH cTxs (summaryHash nvC cS cH) 0 nS_stored (fun id h => .inl (sGA_on_disk id h))

/-- … the found block did enter the served state (the statement is not about an unchanged node), … -/
example : (minerFound nvC nvP nS sGA cS cH cTxs (summaryHash nvC cS cH) 0).1.1.mgr.coinstate.blocks.keys.length = 3 := by
  decide +kernel

/-- … and after any further history and a shutdown every block of the served state is in the store -/
example (tr : List C20.Ev) (id : Bytes) :=
  C09.served_blocks_survive_restart nvC nvP _ tr
    (C09.stored_minerFound nvC nvP nS sGA cS cH cTxs (summaryHash nvC cS cH) 0 nS_stored (fun id h => .inl (sGA_on_disk id h))) id

end NonVacuity5

import Model.Node

/-!
# C10 (continued) — what the requester does with a non-empty inventory

`handle_inventory_message_received` as modelled in `handleMessage`: the data of every listed block that is not stored is
requested, in order, and then the next batch is asked for with the locator `[last listed id]`; nothing else changes
(chain state, pool, store). This is the step that `C10Walk.walk` iterates against one server state.
-/

namespace C10Follow
open Model

variable (C : Crypto) (P : Params)

theorem peers_updatePeer (n : Node) (c : Nat) (f : PeerSt → PeerSt) (p : PeerSt) (hp : n.peers[c]? = some p) :
    (n.updatePeer c f).peers[c]? = some (f p) := by
  simp [Node.updatePeer, List.getElem?_mapIdx, hp]

theorem peers_send (n : Node) (c : Nat) (o : Out) (p : PeerSt) (hp : n.peers[c]? = some p) :
    (n.send c o).peers[c]? = some { p with outbox := p.outbox ++ [o] } := by
  simp [Node.send, peers_updatePeer n c _ p hp]

theorem mgr_send (n : Node) (c : Nat) (o : Out) : (n.send c o).mgr = n.mgr := rfl
theorem wbuf_send (n : Node) (c : Nat) (o : Out) : (n.send c o).wbuf = n.wbuf := rfl
theorem disk_send (n : Node) (c : Nat) (o : Out) : (n.send c o).disk = n.disk := rfl

theorem foldl_send (c : Nat) (mk : Bytes → Out) : ∀ (ws : List Bytes) (n : Node) (p : PeerSt), n.peers[c]? = some p →
    (ws.foldl (fun nn i => nn.send c (mk i)) n).peers[c]? = some { p with outbox := p.outbox ++ ws.map mk } ∧
    (ws.foldl (fun nn i => nn.send c (mk i)) n).mgr = n.mgr ∧
    (ws.foldl (fun nn i => nn.send c (mk i)) n).wbuf = n.wbuf ∧
    (ws.foldl (fun nn i => nn.send c (mk i)) n).disk = n.disk := by
  intro ws
  induction ws with
  | nil => intro n p hp; simp [hp]
  | cons w ws ih =>
    intro n p hp
    simp only [List.foldl_cons, List.map_cons]
    have h1 := peers_send n c (mk w) p hp
    obtain ⟨a, b, c', d⟩ := ih (n.send c (mk w)) _ h1
    refine ⟨?_, ?_, ?_, ?_⟩
    · rw [a]; simp [List.append_assoc]
    · rw [b]; rfl
    · rw [c']; rfl
    · rw [d]; rfl

/-- a greeted peer's non-empty inventory of at most one batch: requests for exactly the listed blocks that are not
stored, in the listed order, then the follow-up request with the locator `[last listed id]`; the chain state, the
pool, the write buffer and the store are untouched, and no error is raised -/
theorem inventory_followup (n : Node) (c msgId irt : Nat) (p : PeerSt) (ids : List Bytes) (now : Int)
    (hp : n.peers[c]? = some p) (hh : p.helloReceived = true) (hne : ids ≠ []) (hsz : ids.length ≤ P.inventorySize) :
    ∃ n', handleMessage C P n c msgId irt (.inventory ids) now = (n', none) ∧
      n'.mgr = n.mgr ∧ n'.wbuf = n.wbuf ∧ n'.disk = n.disk ∧
      (n'.peers[c]?).map (·.outbox) =
        some (p.outbox ++ (ids.filter fun i => !n.mgr.coinstate.blocks.contains i).map Out.getData
              ++ [Out.getBlocks [ids.getLast!]]) := by
  have hsz' : ¬ ids.length > P.inventorySize := by omega
  have hemp : ids.isEmpty = false := by
    cases ids with
    | nil => exact absurd rfl hne
    | cons _ _ => rfl
  unfold handleMessage
  simp only [hp, hh, Bool.not_true, Bool.false_eq_true, ↓reduceIte, hsz', hemp]
  refine ⟨_, rfl, ?_⟩
  have h1 := peers_updatePeer n c (fun p => { p with pendingInventory := p.pendingInventory ++ ids }) p hp
  obtain ⟨a, b, c', d⟩ := foldl_send c Out.getData
    (ids.filter fun i => !n.mgr.coinstate.blocks.contains i) _ _ h1
  have h2 := peers_send _ c (Out.getBlocks [ids.getLast!]) _ a
  refine ⟨?_, ?_, ?_, ?_⟩
  · rw [mgr_send, b]; rfl
  · rw [wbuf_send, c']; rfl
  · rw [disk_send, d]; rfl
  · rw [h2]; simp [List.append_assoc]

/-- an empty inventory only clears the waiting flag: no request is sent (the back-off of the manager decides when
to ask again) -/
theorem empty_inventory_no_request (n : Node) (c msgId irt : Nat) (p : PeerSt) (now : Int)
    (hp : n.peers[c]? = some p) (hh : p.helloReceived = true) :
    ∃ n', handleMessage C P n c msgId irt (.inventory []) now = (n', none) ∧ n'.mgr = n.mgr ∧
      (n'.peers[c]?).map (·.outbox) = some p.outbox := by
  unfold handleMessage
  simp only [hp, hh, Bool.not_true, Bool.false_eq_true, ↓reduceIte, List.length_nil, gt_iff_lt, Nat.not_lt_zero,
    List.isEmpty_nil]
  refine ⟨_, rfl, rfl, ?_⟩
  rw [peers_updatePeer n c _ p hp]
  rfl

/-- non-vacuity: a node with one greeted peer -/
example : ∃ (n : Node) (p : PeerSt), n.peers[0]? = some p ∧ p.helloReceived = true :=
  ⟨⟨⟨CoinState.empty, [], CoinState.empty⟩, [], [], [⟨true, false, true, true, [], false, []⟩], 0⟩, _, rfl, rfl⟩

end C10Follow

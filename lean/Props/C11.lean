import Model.Framing
import Proofs.Framing
import Proofs.Codec

/-!
# C11 — stream framing is independent of transport fragmentation

`feed st data` is one call of `MessageReceiver.receive(data)`; `feedAll st chunks` feeds the
chunks of a connection one after another and stops at the first exception. `bad` (which
payloads make the handler raise) and `maxSize` are arbitrary. `Same` compares payloads, the
error, and — when there is no error — the receiver state.
-/

namespace Model
namespace C11

variable (magic : Bytes) (maxSize : Nat) (bad : Bytes → Bool)

theorem app_inv {st : RState} (d : Bytes) (h : st.Inv) : (app st d).Inv := h

theorem feed_inv (st : RState) (d : Bytes) (h : st.Inv) : (feed magic maxSize bad st d).st.Inv :=
  recv_inv magic maxSize bad (app st d) (app_inv d h)

/-- feeding `a` and then `b` is feeding `a ++ b`: same messages in the same order, same error
at the same point, same final state -/
theorem feed_append (st : RState) (a b : Bytes) (hinv : st.Inv) :
    let r₁ := feed magic maxSize bad st a
    (∀ e, r₁.err = some e →
      (feed magic maxSize bad st (a ++ b)).err = some e ∧
      (feed magic maxSize bad st (a ++ b)).payloads = r₁.payloads) ∧
    (r₁.err = none →
      (feed magic maxSize bad st (a ++ b)).Same
        ⟨(feed magic maxSize bad r₁.st b).st,
         r₁.payloads ++ (feed magic maxSize bad r₁.st b).payloads,
         (feed magic maxSize bad r₁.st b).err⟩) := by
  have h := recv_app magic maxSize bad (app st a) b (app_inv a hinv)
  have e : app (app st a) b = app st (a ++ b) := by simp [app, List.append_assoc]
  rw [e] at h
  exact h

/-- a state in which `receive(b"")` finds nothing to do -/
def Quiet (st : RState) : Prop :=
  (recv magic maxSize bad st).Same ⟨st, [], none⟩

theorem app_nil (st : RState) : app st [] = st := by simp [app]

/-- the state a `receive` call leaves behind (when it does not raise) is quiet -/
theorem recv_quiet (st : RState) (hinv : st.Inv) (he : (recv magic maxSize bad st).err = none) :
    Quiet magic maxSize bad (recv magic maxSize bad st).st := by
  have h := (recv_app magic maxSize bad st [] hinv).2 he
  rw [app_nil, app_nil] at h
  obtain ⟨h1, h2, h3⟩ := h
  simp only at h1 h2 h3
  have hp : (recv magic maxSize bad (recv magic maxSize bad st).st).payloads = [] := by
    have := congrArg List.length h1
    simp only [List.length_append] at this
    exact List.length_eq_zero_iff.mp (by omega)
  refine ⟨hp, ?_, ?_⟩
  · rw [← h2, he]
  · intro _; exact (h3 he).symm

theorem init_quiet : Quiet magic maxSize bad RState.init := by
  have : settle magic maxSize RState.init = .ok RState.init := by
    simp [settle, phaseM, phaseL, RState.init]
  unfold Quiet
  rw [recv_none magic maxSize bad this rfl]
  exact RResult.Same.refl _

theorem init_inv : RState.init.Inv := by intro h; cases h

/-- the messages extracted and the point of refusal depend only on the bytes, not on how the
transport cut them into reads: every list of chunks behaves like its concatenation -/
theorem chunking_irrelevant_from (chunks : List Bytes) : ∀ (st : RState), st.Inv →
    Quiet magic maxSize bad st →
    (feedAll magic maxSize bad st chunks).Same (feed magic maxSize bad st chunks.flatten) := by
  induction chunks with
  | nil =>
    intro st _ hq
    simp only [feedAll, List.flatten_nil, feed]
    have : ({ st with buffer := st.buffer ++ [] } : RState) = st := by simp
    rw [this]
    exact hq.symm
  | cons c cs ih =>
    intro st hinv _
    simp only [feedAll, List.flatten_cons]
    obtain ⟨fa₁, fa₂⟩ := feed_append magic maxSize bad st c cs.flatten hinv
    cases he : (feed magic maxSize bad st c).err with
    | some e =>
      obtain ⟨a, b⟩ := fa₁ e he
      simp only
      exact ⟨b.symm, a.symm, fun h => by cases h⟩
    | none =>
      simp only
      have hinv' := feed_inv magic maxSize bad st c hinv
      have hq' : Quiet magic maxSize bad (feed magic maxSize bad st c).st :=
        recv_quiet magic maxSize bad _ (app_inv c hinv) he
      obtain ⟨i1, i2, i3⟩ := ih _ hinv' hq'
      obtain ⟨f1, f2, f3⟩ := fa₂ he
      refine ⟨?_, ?_, ?_⟩
      · simp only [f1, i1]
      · simp only [f2, i2]
      · intro h
        simp only at h
        rw [f3 (by rw [f2]; simp only; rw [← i2]; exact h)]
        exact i3 h

/-- on a fresh connection -/
theorem chunking_irrelevant (chunks : List Bytes) :
    (feedAll magic maxSize bad RState.init chunks).Same
      (feed magic maxSize bad RState.init chunks.flatten) :=
  chunking_irrelevant_from magic maxSize bad chunks _ init_inv (init_quiet magic maxSize bad)

/-- two ways of cutting the same bytes give the same messages, the same refusal, the same state -/
theorem fragmentation_independent (c₁ c₂ : List Bytes) (h : c₁.flatten = c₂.flatten) :
    (feedAll magic maxSize bad RState.init c₁).Same (feedAll magic maxSize bad RState.init c₂) := by
  have a := chunking_irrelevant magic maxSize bad c₁
  have b := chunking_irrelevant magic maxSize bad c₂
  rw [h] at a
  exact a.trans b.symm

/-! ## well-formed frames are delivered exactly once and in order; a wrong magic or an
over-limit length is refused at that point -/

def frames (ps : List Bytes) : Bytes := ps.flatMap (frame magic)

theorem recv_frame (p rest : Bytes) (hmagic : magic.length = 4) (hp : p.length ≤ maxSize)
    (hp2 : p.length < 256 ^ 4) (hb : bad p = false) :
    recv magic maxSize bad ⟨frame magic p ++ rest, false, none⟩ =
      ⟨(recv magic maxSize bad ⟨rest, false, none⟩).st,
       p :: (recv magic maxSize bad ⟨rest, false, none⟩).payloads,
       (recv magic maxSize bad ⟨rest, false, none⟩).err⟩ := by
  have hl4 := Codec.natToBytes_length 4 p.length
  have hs : settle magic maxSize ⟨frame magic p ++ rest, false, none⟩
      = .ok ⟨p ++ rest, true, some p.length⟩ := by
    have e1 : frame magic p ++ rest = magic ++ (natToBytes 4 p.length ++ (p ++ rest)) := by
      simp [frame, List.append_assoc]
    have t1 : (magic ++ (natToBytes 4 p.length ++ (p ++ rest))).take 4 = magic := by
      rw [← hmagic]; simp
    have d1 : (magic ++ (natToBytes 4 p.length ++ (p ++ rest))).drop 4
        = natToBytes 4 p.length ++ (p ++ rest) := by
      rw [← hmagic]; simp
    have t2 : (natToBytes 4 p.length ++ (p ++ rest)).take 4 = natToBytes 4 p.length := by
      rw [List.take_append_of_le_length (by omega)]; exact List.take_of_length_le (by omega)
    have d2 : (natToBytes 4 p.length ++ (p ++ rest)).drop 4 = p ++ rest := by
      rw [List.drop_append_of_le_length (by omega), List.drop_of_length_le (by omega)]; simp
    have hv : bytesToNat (natToBytes 4 p.length) = p.length := by
      rw [Codec.bytesToNat_natToBytes, Nat.mod_eq_of_lt hp2]
    simp only [settle, phaseM, phaseL, e1]
    simp [hmagic, t1, d1, hl4, t2, d2, hv, hp]
  have hn : p.length ≤ (⟨p ++ rest, true, some p.length⟩ : RState).buffer.length := by simp
  have hbad : bad ((⟨p ++ rest, true, some p.length⟩ : RState).buffer.take p.length) = false := by
    simp [hb]
  have := recv_good magic maxSize bad hs rfl hn hbad
  simpa using this

def GoodPayload (p : Bytes) : Prop := p.length ≤ maxSize ∧ p.length < 256 ^ 4 ∧ bad p = false

theorem recv_frames (ps : List Bytes) (rest : Bytes) (hmagic : magic.length = 4)
    (hps : ∀ p ∈ ps, GoodPayload maxSize bad p) :
    recv magic maxSize bad ⟨frames magic ps ++ rest, false, none⟩ =
      ⟨(recv magic maxSize bad ⟨rest, false, none⟩).st,
       ps ++ (recv magic maxSize bad ⟨rest, false, none⟩).payloads,
       (recv magic maxSize bad ⟨rest, false, none⟩).err⟩ := by
  induction ps with
  | nil => simp [frames]
  | cons p ps ih =>
    obtain ⟨h1, h2, h3⟩ := hps p (by simp)
    have e : frames magic (p :: ps) ++ rest = frame magic p ++ (frames magic ps ++ rest) := by
      simp [frames, List.append_assoc]
    rw [e, recv_frame magic maxSize bad p _ hmagic h1 h2 h3, ih (fun q hq => hps q (by simp [hq]))]
    simp

/-- a stream of well-formed frames read on a fresh connection, however it is fragmented:
every message is delivered exactly once, in order, nothing is left over -/
theorem frames_delivered_once_in_order (ps : List Bytes) (chunks : List Bytes)
    (hmagic : magic.length = 4) (hps : ∀ p ∈ ps, GoodPayload maxSize bad p)
    (hc : chunks.flatten = frames magic ps) :
    (feedAll magic maxSize bad RState.init chunks).payloads = ps ∧
    (feedAll magic maxSize bad RState.init chunks).err = none ∧
    (feedAll magic maxSize bad RState.init chunks).st = RState.init := by
  obtain ⟨c1, c2, c3⟩ := chunking_irrelevant magic maxSize bad chunks
  have hf : feed magic maxSize bad RState.init (frames magic ps) = ⟨RState.init, ps, none⟩ := by
    have := recv_frames magic maxSize bad ps [] hmagic hps
    have hq := init_quiet magic maxSize bad
    have hi : recv magic maxSize bad ⟨[], false, none⟩ = ⟨RState.init, [], none⟩ := by
      have hs : settle magic maxSize RState.init = .ok RState.init := by
        simp [settle, phaseM, phaseL, RState.init]
      exact recv_none magic maxSize bad hs rfl
    simp only [feed, RState.init, List.nil_append]
    rw [List.append_nil] at this
    rw [this, hi]; simp [RState.init]
  rw [hc, hf] at c1 c2 c3
  exact ⟨c1, c2, c3 c2⟩

/-- … and a wrong magic after any number of good frames is refused at exactly that point,
under every fragmentation: the good frames are delivered, then "Insufficient magic" -/
theorem bad_magic_refused_at_that_point (ps : List Bytes) (junk : Bytes) (chunks : List Bytes)
    (hmagic : magic.length = 4) (hps : ∀ p ∈ ps, GoodPayload maxSize bad p)
    (hj : 4 ≤ junk.length) (hne : junk.take 4 ≠ magic)
    (hc : chunks.flatten = frames magic ps ++ junk) :
    (feedAll magic maxSize bad RState.init chunks).payloads = ps ∧
    (feedAll magic maxSize bad RState.init chunks).err = some .magic := by
  obtain ⟨c1, c2, _⟩ := chunking_irrelevant magic maxSize bad chunks
  have hs : settle magic maxSize ⟨junk, false, none⟩ = .error .magic := by
    simp [settle, phaseM, hj, hne]
  have hf := recv_frames magic maxSize bad ps junk hmagic hps
  rw [recv_err magic maxSize bad hs] at hf
  simp only [feed, RState.init, List.nil_append] at c1 c2 ⊢
  rw [hc, hf] at c1 c2
  simpa using And.intro c1 c2

/-- … and likewise a length above the limit -/
theorem over_limit_length_refused_at_that_point (ps : List Bytes) (n : Nat) (tail : Bytes)
    (chunks : List Bytes) (hmagic : magic.length = 4) (hps : ∀ p ∈ ps, GoodPayload maxSize bad p)
    (hn : maxSize < n) (hn2 : n < 256 ^ 4)
    (hc : chunks.flatten = frames magic ps ++ (magic ++ natToBytes 4 n ++ tail)) :
    (feedAll magic maxSize bad RState.init chunks).payloads = ps ∧
    (feedAll magic maxSize bad RState.init chunks).err = some .tooBig := by
  obtain ⟨c1, c2, _⟩ := chunking_irrelevant magic maxSize bad chunks
  have hl4 := Codec.natToBytes_length 4 n
  have hs : settle magic maxSize ⟨magic ++ natToBytes 4 n ++ tail, false, none⟩ = .error .tooBig := by
    have e1 : magic ++ natToBytes 4 n ++ tail = magic ++ (natToBytes 4 n ++ tail) := by
      simp [List.append_assoc]
    have t1 : (magic ++ (natToBytes 4 n ++ tail)).take 4 = magic := by rw [← hmagic]; simp
    have d1 : (magic ++ (natToBytes 4 n ++ tail)).drop 4 = natToBytes 4 n ++ tail := by
      rw [← hmagic]; simp
    have t2 : (natToBytes 4 n ++ tail).take 4 = natToBytes 4 n := by
      rw [List.take_append_of_le_length (by omega)]; exact List.take_of_length_le (by omega)
    have hv : bytesToNat (natToBytes 4 n) = n := by
      rw [Codec.bytesToNat_natToBytes, Nat.mod_eq_of_lt hn2]
    simp only [settle, phaseM, phaseL, e1]
    simp [hmagic, t1, d1, hl4, t2, hv, hn]
  have hf := recv_frames magic maxSize bad ps (magic ++ natToBytes 4 n ++ tail) hmagic hps
  rw [recv_err magic maxSize bad hs] at hf
  simp only [feed, RState.init, List.nil_append] at c1 c2 ⊢
  rw [hc, hf] at c1 c2
  simpa using And.intro c1 c2

/-! ## non-vacuity -/

example : GoodPayload 100 (fun _ => false) [1, 2, 3] := by
  simp [GoodPayload]

example : (feedAll [77, 65, 74, 73] 100 (fun _ => false) RState.init
    [[77, 65], [74, 73, 0, 0, 0], [2, 9, 8]]).payloads = [[9, 8]] :=
  (frames_delivered_once_in_order [77, 65, 74, 73] 100 (fun _ => false) [[9, 8]] _ rfl
    (by intro p hp; simp at hp; subst hp; simp [GoodPayload]) (by decide)).1

end C11
end Model

import Model.Node
import Proofs.Validation
import Props.C13
import Props.C02
import Proofs.Mining

/-!
# C12 — mining: assembled blocks are valid, pay subsidy plus fees, and are adopted
-/

namespace Model
namespace C12

variable (C : Crypto) (P : Params)

/-- the reward of an assembled candidate pays exactly subsidy(height) plus the fees of the
included transactions to the miner's key, in one output; its timestamp is later than its
parent's; it builds on the head with the head's height plus one -/
theorem candidate_shape (m : ChainMgr) (pk : Bytes) (clock nonce : Nat) (s : Summary) (h : Nat)
    (txs : List CTx) (hc : minerCandidate C P m pk clock nonce = .ok (s, h, txs)) :
    ∃ hd u fees cb, m.coinstate.head = some hd ∧ headUtxo m.coinstate = some u ∧
      blockFees u m.pool = .ok fees ∧ txs = cb :: m.pool ∧
      cb.tx = ⟨[⟨thinAir, .coinbase (hd.height + 1) []⟩],
               [⟨((subsidy P (hd.height + 1) : Int) + fees).toNat, pk⟩]⟩ ∧
      h = hd.height + 1 ∧ s.height = hd.height + 1 ∧ some s.prev = m.coinstate.current ∧
      s.timestamp = max clock (hd.timestamp + 1) ∧ hd.timestamp < s.timestamp := by
  obtain ⟨hd, cur, u, fees, root, target, hcur, hb, hu, hfees, _, _, hs, hh, htxs⟩ :=
    minerCandidate_ok C P m pk clock nonce s h txs hc
  subst hs
  refine ⟨hd, u, fees, rewardTx P (hd.height + 1) fees pk, ?_, ?_, hfees, htxs, rfl, hh, rfl, ?_,
    rfl, ?_⟩
  · simp [CoinState.head, hcur, hb]
  · simp [headUtxo, hcur, hu]
  · rw [hcur]
  · show hd.timestamp < max clock (hd.timestamp + 1)
    omega

/-- the candidate's clock corner (a known finding on the pinned tree, D5): when the head is
already 30 s or more ahead of the clock, the candidate's timestamp is more than 30 s ahead and
the node's own validation refuses it — the hypothesis `s.timestamp ≤ now + 30` below is forced -/
theorem future_head_candidate_rejected (cs : CoinState) (b : Block) (now : Int)
    (hts : (b.timestamp : Int) > now + P.maxFutureBlockTime) :
    ∀ cs', addBlock C P cs b now ≠ .ok cs' := by
  intro cs' h
  obtain ⟨h1, _, _⟩ := addBlock_ok C P cs cs' b now h
  have := (validateBlockByItself_ok C P b now h1).notFuture
  omega

/-- whenever the miner assembles a candidate from the served state and a pool satisfying the
pool invariant (C13), the evidence is completed from the scrypt output and the id is below
target, the block passes the node's own full validation — provided it fits in one block, its
timestamp is not more than 30 s ahead of the validating clock (see above), the checkpoint
horizon is below it and the retarget interval is positive.
`_partial`: the clock corner excluded by `hclock` is the known finding D5. -/
theorem assembled_block_valid_partial (m : ChainMgr) (pk : Bytes) (clock nonce : Nat) (s : Summary) (h : Nat)
    (txs : List CTx) (now : Int) (hpool : C13.PoolInv C P m)
    (hc : minerCandidate C P m pk clock nonce = .ok (s, h, txs))
    (ev : Evidence) (hev : evidenceAfterScrypt C P m.coinstate (summaryHash C s h) s h txs = .ok ev)
    (hpow : bytesLt (C.sha256d (encHeader ⟨s, ev⟩)) s.target = true)
    (hclock : (s.timestamp : Int) ≤ now + P.maxFutureBlockTime)
    (hsize : (encBlock (Block.fresh ⟨s, ev⟩ txs)).length ≤ P.maxBlockSize)
    (hhor : P.maxKnownHeight < (h : Int)) (hint : 0 < P.retargetInterval)
    -- ADDED HYPOTHESIS: the head's id is not the all-zeros parent reference of a genesis block
    -- (`add_block_no_validation` starts a block whose parent reference is all zeros from the
    -- empty unspent set, so a non-empty pool could not be applied); true of every state built by
    -- `foldBlocks` from well-formed arrivals (`WFArrivals`: no block id is all zeros)
    (hz : m.coinstate.current ≠ some (zeros 32))
    -- ADDED HYPOTHESIS: the by-height index of the head is stored (`add_block_no_validation`
    -- reads `block_by_height_by_hash[previous_block_hash]`); true of every state built by
    -- `foldBlocks`, which stores the index together with every block it adds
    (hbh : m.coinstate.current.bind m.coinstate.byHeightAt.get? ≠ none) :
    ∃ cs', addBlock C P m.coinstate (Block.fresh ⟨s, ev⟩ txs) now = .ok cs' := by
  obtain ⟨hd, cur, u, fees, root, target, hcur, hb, hu, hfees, hroot, htarget, hs, hh, htxs⟩ :=
    minerCandidate_ok C P m pk clock nonce s h txs hc
  subst hs hh htxs
  have _ := hint   -- not needed: the target the candidate carries is the one `calc_target` returned
  -- the pool, at the head's unspent set
  have hhu : headUtxo m.coinstate = some u := by simp [headUtxo, hcur, hu]
  have hin : ∀ t ∈ m.pool, validateTxInState C u t = .ok () := by
    intro t ht
    have h2 := (hpool.1 t ht).2
    unfold validateTxAtHead at h2
    rw [hhu] at h2
    exact h2
  have hval : ∀ t ∈ m.pool, ∃ total, inputsValue u t.tx.inputs = .ok total ∧
      outputsValue t.tx.outputs ≤ total := by
    intro t ht
    obtain ⟨total, _, h1, h2⟩ := validateTxInState_ok C u t (hin t ht)
    exact ⟨total, h1, h2⟩
  have hfnn : 0 ≤ fees := C02.blockFees_nonneg u m.pool fees hfees hval
  have hne : ∀ t ∈ m.pool, t.tx.inputs.length ≠ 0 := fun t ht =>
    ((validateTxByItself_ok P t).mp (hpool.1 t ht).1).1
  have hpresent : ∀ r ∈ allRefs m.pool, u.contains r = true := by
    intro r hr
    simp only [allRefs, List.mem_flatMap, List.mem_map] at hr
    obtain ⟨t, ht, i, hi, rfl⟩ := hr
    obtain ⟨_, hins, _, _⟩ := validateTxInState_ok C u t (hin t ht)
    obtain ⟨o, _, ho, _⟩ := hins i hi
    exact (Map.contains_eq_true_iff u i.ref).mpr ⟨o, ho⟩
  -- (a) by itself
  have h1 : validateBlockByItself C P
      (Block.fresh ⟨⟨hd.height + 1, cur, root, max clock (hd.timestamp + 1), target, nonce⟩, ev⟩
        (rewardTx P (hd.height + 1) fees pk :: m.pool)) now = .ok () := by
    apply validateBlockByItself_intro
    exact ⟨hpow, hclock,
      ⟨_, _, rfl, ⟨[], rfl, Nat.zero_le _⟩, fun t ht => (hpool.1 t ht).1,
        noDuplicateTxs_of_nodup C m.pool hne hpool.2, hpool.2⟩, hsize, hroot⟩
  -- (b) in the served state
  have h2 : validateBlockInState C P m.coinstate
      (Block.fresh ⟨⟨hd.height + 1, cur, root, max clock (hd.timestamp + 1), target, nonce⟩, ev⟩
        (rewardTx P (hd.height + 1) fees pk :: m.pool)) = .ok () := by
    apply validateBlockInState_intro
    · show ¬ (((hd.height + 1 : Nat) : Int) ≤ P.maxKnownHeight)
      omega
    · refine ⟨⟨hd, hb, ?_, rfl, htarget⟩, hev, ⟨u, _, _, fees, hu, rfl, hfees, ?_, hin⟩⟩
      · show hd.timestamp < max clock (hd.timestamp + 1)
        omega
      · show ((outputsValue [⟨((subsidy P (hd.height + 1) : Int) + fees).toNat, pk⟩] : Nat) : Int) ≤
          fees + (subsidy P (hd.height + 1) : Int)
        simp only [outputsValue, List.map_cons, List.map_nil, List.sum_cons, List.sum_nil,
          Nat.add_zero]
        omega
  -- (c) the ledger update
  have hz' : cur ≠ zeros 32 := by
    intro h0; rw [hcur, h0] at hz; exact hz rfl
  obtain ⟨bh, hbh'⟩ : ∃ bh, m.coinstate.byHeightAt.get? cur = some bh := by
    rw [hcur] at hbh
    cases hg : m.coinstate.byHeightAt.get? cur with
    | none => exact absurd (by simp [hg]) hbh
    | some bh => exact ⟨bh, rfl⟩
  obtain ⟨u', hu'⟩ := utoApplyBlock_ok C u
    (Block.fresh ⟨⟨hd.height + 1, cur, root, max clock (hd.timestamp + 1), target, nonce⟩, ev⟩
      (rewardTx P (hd.height + 1) fees pk :: m.pool)) _ _ rfl hpool.2 hpresent
  obtain ⟨cs', h3⟩ := addBlockNoValidation_ok C m.coinstate _ u u' bh hz' hu hu' hbh' hcur
  refine ⟨cs', ?_⟩
  unfold addBlock
  rw [h1, ok_bind, h2, ok_bind]
  exact h3

/-- when such a block is found (the handler returns normally with a block), the block is part
of the chain state the node serves, it is the head if it extends the head, it is written to the
block store and it was queued to every peer that has exchanged greetings -/
theorem found_block_adopted (n : Node) (cs : CoinState) (s : Summary) (h : Nat) (txs : List CTx)
    (sh : Bytes) (now : Int) (n' : Node) (b : Block)
    (hf : minerFound C P n cs s h txs sh now = ((n', none), some b))
    (hsol : bytesLt (b.id C) b.target = true) :
    addBlock C P cs b now = .ok n'.mgr.coinstate ∧
    n'.mgr.coinstate.blocks.contains (b.id C) = true ∧
    (cs.current = some b.prev → n'.mgr.coinstate.current = some (b.id C)) ∧
    (∃ x ∈ n'.disk, x.id C = b.id C) ∧ n'.wbuf = [] ∧
    n'.peers.map (·.outbox.length) =
      n.peers.map (fun p => if p.active then p.outbox.length + 1 else p.outbox.length) := by
  unfold minerFound at hf
  split at hf
  · cases hf
  · rename_i ev hev
    simp only at hf
    split at hf
    · cases hf
    · split at hf
      · cases hf
      · rename_i cs' hadd
        simp only [Prod.mk.injEq, and_true, Option.some.injEq] at hf
        obtain ⟨hn, hb⟩ := hf
        subst hb
        subst hn
        obtain ⟨_, _, h3⟩ := addBlock_ok C P cs cs' _ now hadd
        obtain ⟨hblocks, _, _, _, _, hcur, _⟩ := add_ok_inv C h3
        refine ⟨hadd, ?_, ?_, ?_, rfl, ?_⟩
        · show cs'.blocks.contains _ = true
          rw [hblocks, Map.contains_set]
          simp
        · intro hc
          exact hcur _ hc rfl
        · simp only [Node.flush, Node.broadcast]
          exact (flush_fold C _ _).2 _ (by simp)
        · simp only [Node.flush, Node.broadcast, List.map_map]
          apply List.map_congr_left
          intro p _
          simp only [Function.comp]
          split <;> simp

/-- a block that fails the node's own validation is neither served nor broadcast nor stored -/
theorem invalid_found_block_not_adopted (n : Node) (cs : CoinState) (s : Summary) (h : Nat)
    (txs : List CTx) (sh : Bytes) (now : Int) (n' : Node) (b : Block) (e : Err)
    (hf : minerFound C P n cs s h txs sh now = ((n', some e), some b)) : n' = n := by
  unfold minerFound at hf
  split at hf
  · cases hf
  · simp only at hf
    split at hf
    · cases hf
    · split at hf
      · simp only [Prod.mk.injEq] at hf
        exact hf.1.1.symm
      · cases hf

end C12
end Model

import Model.Wallet
import Props.C14

/-!
# C14 for whole sessions: any sequence of successful spends and failed attempts

`Props/C14.lean` states what one call of `create_spend_transaction` does and that two successive spends do not overlap. Here the
quantifier of the property — *every sequence of successive spends and failed attempts*, the ledger moving on in between — is
taken literally: a session is a list of requests, each served on the wallet the earlier ones left behind, each with its own
ledger state (unspent set and per-key balances at the head of that moment).

* `session_record_exact`: the wallet's record of used outputs at the end is what it was at the start followed by exactly the
  references spent by the transactions returned, in order — failed attempts contribute nothing;
* `session_spends_disjoint`: no two transactions returned during a session spend a common output;
* `session_avoids_earlier`: nothing recorded as used before the session is spent in it;
* `session_failures_invisible`: the session goes exactly as the session with the failing requests left out.
-/

namespace Model
namespace C14

/-- one request: the ledger state it is served at, what to pay, and the signatures the signer produces -/
structure Req where
  u : Utxo
  bal : PKBalances
  amount : Nat
  fee : Nat
  recipient : Bytes
  change : Bytes
  sigs : List Bytes

def Req.serve (w : Wallet) (q : Req) : Except Err (Wallet × Tx) :=
  w.createSpend q.u q.bal q.amount q.fee q.recipient q.change q.sigs

/-- the wallet at the end of a session and the transactions returned during it -/
def session (w : Wallet) : List Req → Wallet × List Tx
  | [] => (w, [])
  | q :: rest =>
    match q.serve w with
    | .ok (w', t) => ((session w' rest).1, t :: (session w' rest).2)
    | .error _ => session w rest

def spentBy (ts : List Tx) : List OutRef := ts.flatMap fun t => t.inputs.map (·.ref)

theorem session_record_exact (w : Wallet) (qs : List Req) :
    (session w qs).1.spent = w.spent ++ spentBy (session w qs).2 ∧
    (session w qs).1.keypairs = w.keypairs ∧ (session w qs).1.unused = w.unused ∧
    (session w qs).1.annotations = w.annotations := by
  induction qs generalizing w with
  | nil => simp [session, spentBy]
  | cons q rest ih =>
    unfold session
    split
    · rename_i w' t hq
      obtain ⟨ch, _, _, hin, _, _, _, hsp, hk, hu, ha, _⟩ :=
        spend_shape w w' q.u q.bal q.amount q.fee q.recipient q.change q.sigs t hq
      obtain ⟨h1, h2, h3, h4⟩ := ih w'
      refine ⟨?_, h2.trans hk, h3.trans hu, h4.trans ha⟩
      dsimp only
      rw [h1, hsp, ← hin]
      simp [spentBy, List.append_assoc]
    · exact ih w

theorem session_avoids_earlier (w : Wallet) (qs : List Req) :
    ∀ r ∈ spentBy (session w qs).2, r ∉ w.spent := by
  induction qs generalizing w with
  | nil => simp [session, spentBy]
  | cons q rest ih =>
    unfold session
    split
    · rename_i w' t hq
      obtain ⟨ch, _, _, hin, _, _, hns, hsp, _⟩ :=
        spend_shape w w' q.u q.bal q.amount q.fee q.recipient q.change q.sigs t hq
      intro r hr
      dsimp only at hr
      simp only [spentBy, List.flatMap_cons, List.mem_append] at hr
      rcases hr with hr | hr
      · rw [hin] at hr
        obtain ⟨ro, hro, rfl⟩ := List.mem_map.mp hr
        exact hns ro hro
      · intro hw
        exact ih w' r hr (by rw [hsp]; exact List.mem_append_left _ hw)
    · exact ih w

/-- no two transactions returned during a session spend a common output -/
theorem session_spends_disjoint (w : Wallet) (qs : List Req) :
    (session w qs).2.Pairwise fun t₁ t₂ => ∀ i ∈ t₁.inputs, ∀ j ∈ t₂.inputs, i.ref ≠ j.ref := by
  induction qs generalizing w with
  | nil => simp [session]
  | cons q rest ih =>
    unfold session
    split
    · rename_i w' t hq
      obtain ⟨ch, _, _, hin, _, _, _, hsp, _⟩ :=
        spend_shape w w' q.u q.bal q.amount q.fee q.recipient q.change q.sigs t hq
      dsimp only
      refine List.Pairwise.cons ?_ (ih w')
      intro t₂ ht₂ i hi j hj hij
      have hj' : j.ref ∈ spentBy (session w' rest).2 := by
        simp only [spentBy, List.mem_flatMap]
        exact ⟨t₂, ht₂, List.mem_map_of_mem hj⟩
      apply session_avoids_earlier w' rest j.ref hj'
      rw [hsp, ← hin, ← hij]
      exact List.mem_append_right _ (List.mem_map_of_mem hi)
    · exact ih w

theorem session_cons_ok (w w' : Wallet) (q : Req) (rest : List Req) (t : Tx) (h : q.serve w = .ok (w', t)) :
    session w (q :: rest) = ((session w' rest).1, t :: (session w' rest).2) := by
  rw [session, h]

theorem session_cons_error (w : Wallet) (q : Req) (rest : List Req) (e : Err) (h : q.serve w = .error e) :
    session w (q :: rest) = session w rest := by
  rw [session, h]

theorem session_append (w : Wallet) (a b : List Req) :
    session w (a ++ b) = ((session (session w a).1 b).1, (session w a).2 ++ (session (session w a).1 b).2) := by
  induction a generalizing w with
  | nil => simp [session]
  | cons q rest ih =>
    simp only [List.cons_append]
    cases hq : q.serve w with
    | ok r =>
      obtain ⟨w', t⟩ := r
      rw [session_cons_ok w w' q _ t hq, session_cons_ok w w' q _ t hq, ih w']
      simp
    | error e =>
      rw [session_cons_error w q _ e hq, session_cons_error w q _ e hq, ih w]

/-- failed attempts are invisible: the session goes exactly as it would with the failing requests left out — so a later
affordable spend succeeds, with the same transaction, whatever failed before it -/
theorem session_failures_invisible (w : Wallet) (qs : List Req) (extra : Req) (e : Err) (k : Nat)
    (hfail : extra.serve (session w (qs.take k)).1 = .error e) :
    session w (qs.take k ++ extra :: qs.drop k) = session w qs := by
  have h1 : session (session w (qs.take k)).1 (extra :: qs.drop k) = session (session w (qs.take k)).1 (qs.drop k) := by
    exact session_cons_error _ extra _ e hfail
  conv => rhs; rw [← List.take_append_drop k qs]
  rw [session_append, session_append, h1]

/-! ### non-vacuity: a failed attempt, a spend, a failed attempt (the only output is used), on a wallet holding one output of 14 -/

private def xu : Utxo := [(⟨[11], 0⟩, ⟨6, [8]⟩), (⟨[12], 0⟩, ⟨14, [5]⟩)]
private def xw : Wallet := ⟨[([5], [50])], [[5]], [], []⟩
private def xbal : PKBalances := [([8], ⟨6, [⟨[11], 0⟩]⟩), ([5], ⟨14, [⟨[12], 0⟩]⟩)]
private def xqs : List Req := [⟨xu, xbal, 100, 1, [8], [5], [[3]]⟩, ⟨xu, xbal, 9, 1, [8], [5], [[3]]⟩, ⟨xu, xbal, 2, 1, [8], [5], [[3]]⟩]

example : session xw xqs =
    ({ xw with spent := [⟨[12], 0⟩] }, [⟨[⟨⟨[12], 0⟩, .secp [3]⟩], [⟨9, [8]⟩, ⟨4, [5]⟩]⟩]) := by decide +kernel

/-- the first request fails on the fresh wallet: the hypothesis of `session_failures_invisible` with `k = 0` -/
example : (⟨xu, xbal, 100, 1, [8], [5], [[3]]⟩ : Req).serve (session xw (xqs.take 0)).1 =
    .error (.other "Insufficient balance") := by decide +kernel

end C14
end Model
